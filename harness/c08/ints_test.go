package c08

// Part (b): integers, booleans and packed arrays through codec.Writer and codec.Reader (the primitives every generated
// codec is made of), over the full boundary sets and random values, including math.MinInt64.

import (
	"bytes"
	"fmt"
	"math"
	"testing"

	"github.com/LiskHQ/lisk-engine/pkg/codec"
	"pgregory.net/rapid"

	"verifharness/evid"
)

// independent shortest-form LEB128
func leb(v uint64) []byte {
	var out []byte
	for {
		b := byte(v & 0x7f)
		v >>= 7
		if v != 0 {
			out = append(out, b|0x80)
		} else {
			return append(out, b)
		}
	}
}

func zigzag(v int64) uint64 { return uint64(v<<1) ^ uint64(v>>63) }

func keyBytes(fieldNumber, wireType int) []byte {
	return leb(uint64(fieldNumber)<<3 | uint64(wireType))
}

var fieldNumbers = []int{1, 2, 7, 15, 16, 17, 100, 2047, 2048}

type failer interface {
	Fatalf(format string, args ...any)
}

// minInt64Known handles the one listed deviation: returns true when (want,got) is exactly the known finding.
func minInt64Known(want, got int64) bool {
	return want == math.MinInt64 && got == 0 && evid.R.KnownFinding(sigMinInt64)
}

func checkUInt(t failer, fn int, v uint64) {
	for _, strict := range []bool{false, true} {
		w := codec.NewWriter()
		w.WriteUInt(fn, v)
		enc := w.Result()
		if want := append(keyBytes(fn, 0), leb(v)...); !bytes.Equal(enc, want) {
			t.Fatalf("C08(b) WriteUInt(%d,%d) wrote %x, canonical form is %x", fn, v, enc, want)
		}
		r := codec.NewReader(enc)
		got, err := r.ReadUInt(fn, strict)
		if err != nil || got != v || r.HasUnreadBytes() {
			t.Fatalf("C08(b) ReadUInt(strict=%v) of WriteUInt(%d,%d)=%x: got %d err %v unread=%v", strict, fn, v, enc, got, err, r.HasUnreadBytes())
		}
	}
}

func checkUInt32(t failer, fn int, v uint32) {
	for _, strict := range []bool{false, true} {
		w := codec.NewWriter()
		w.WriteUInt32(fn, v)
		enc := w.Result()
		if want := append(keyBytes(fn, 0), leb(uint64(v))...); !bytes.Equal(enc, want) {
			t.Fatalf("C08(b) WriteUInt32(%d,%d) wrote %x, canonical form is %x", fn, v, enc, want)
		}
		r := codec.NewReader(enc)
		got, err := r.ReadUInt32(fn, strict)
		if err != nil || got != v || r.HasUnreadBytes() {
			t.Fatalf("C08(b) ReadUInt32(strict=%v) of WriteUInt32(%d,%d)=%x: got %d err %v unread=%v", strict, fn, v, enc, got, err, r.HasUnreadBytes())
		}
	}
}

func checkInt(t failer, fn int, v int64) {
	for _, strict := range []bool{false, true} {
		w := codec.NewWriter()
		w.WriteInt(fn, v)
		enc := w.Result()
		if want := append(keyBytes(fn, 0), leb(zigzag(v))...); !bytes.Equal(enc, want) {
			t.Fatalf("C08(b) WriteInt(%d,%d) wrote %x, canonical (zig-zag) form is %x", fn, v, enc, want)
		}
		r := codec.NewReader(enc)
		got, err := r.ReadInt(fn, strict)
		if err == nil && !r.HasUnreadBytes() && minInt64Known(v, got) {
			continue
		}
		if err != nil || got != v || r.HasUnreadBytes() {
			t.Fatalf("C08(b) ReadInt(strict=%v) of WriteInt(%d,%d)=%x: got %d err %v unread=%v", strict, fn, v, enc, got, err, r.HasUnreadBytes())
		}
	}
}

func checkInt32(t failer, fn int, v int32) {
	for _, strict := range []bool{false, true} {
		w := codec.NewWriter()
		w.WriteInt32(fn, v)
		enc := w.Result()
		if want := append(keyBytes(fn, 0), leb(zigzag(int64(v)))...); !bytes.Equal(enc, want) {
			t.Fatalf("C08(b) WriteInt32(%d,%d) wrote %x, canonical (zig-zag) form is %x", fn, v, enc, want)
		}
		r := codec.NewReader(enc)
		got, err := r.ReadInt32(fn, strict)
		if err != nil || got != v || r.HasUnreadBytes() {
			t.Fatalf("C08(b) ReadInt32(strict=%v) of WriteInt32(%d,%d)=%x: got %d err %v unread=%v", strict, fn, v, enc, got, err, r.HasUnreadBytes())
		}
	}
}

func checkBool(t failer, fn int, v bool) {
	for _, strict := range []bool{false, true} {
		w := codec.NewWriter()
		w.WriteBool(fn, v)
		enc := w.Result()
		r := codec.NewReader(enc)
		got, err := r.ReadBool(fn, strict)
		if err != nil || got != v || r.HasUnreadBytes() {
			t.Fatalf("C08(b) ReadBool(strict=%v) of WriteBool(%d,%v)=%x: got %v err %v", strict, fn, v, enc, got, err)
		}
	}
}

// Exhaustive over the boundary sets x field numbers (seed independent).
func TestIntsBoundaryExhaustive(t *testing.T) {
	initKnown()
	for _, fn := range fieldNumbers {
		for _, v := range u64Boundaries {
			checkUInt(t, fn, v)
			evid.R.Case(fmt.Sprintf("u64|%d|%d", fn, v), v >= 128, nil, "ints_boundary", "ints:uint64")
		}
		for _, v := range u32Boundaries {
			checkUInt32(t, fn, v)
			evid.R.Case(fmt.Sprintf("u32|%d|%d", fn, v), v >= 128, nil, "ints_boundary", "ints:uint32")
		}
		for _, v := range i64Boundaries {
			checkInt(t, fn, v)
			evid.R.Case(fmt.Sprintf("i64|%d|%d", fn, v), v >= 64 || v < -64, nil, "ints_boundary", "ints:int64")
			if v == math.MinInt64 {
				evid.R.Label("ints:int64_MinInt64", 1)
			}
		}
		for _, v := range i32Boundaries {
			checkInt32(t, fn, v)
			evid.R.Case(fmt.Sprintf("i32|%d|%d", fn, v), v >= 64 || v < -64, nil, "ints_boundary", "ints:int32")
		}
		checkBool(t, fn, false)
		checkBool(t, fn, true)
		evid.R.Count(2, "ints_boundary", "ints:bool")
	}
	// every uint64 with a single bit set or a run of low bits set; every int64 +-2^k, +-(2^k-1)
	for k := 0; k < 64; k++ {
		checkUInt(t, 1, uint64(1)<<k)
		checkUInt(t, 1, uint64(1)<<k-1)
		checkInt(t, 1, int64(1)<<k) // k=63: MinInt64
		checkInt(t, 1, -(int64(1) << k))
		checkInt(t, 1, int64(1)<<k-1)
		checkInt(t, 1, -(int64(1)<<k - 1))
		if k < 32 {
			checkUInt32(t, 1, uint32(1)<<k)
			checkUInt32(t, 1, uint32(1)<<k-1)
			checkInt32(t, 1, int32(1)<<k)
			checkInt32(t, 1, -(int32(1) << k))
			checkInt32(t, 1, int32(1)<<k-1)
		}
		evid.R.Count(6, "ints_boundary", "ints:powers_of_two")
	}
}

// A boolean is exactly the byte 0 or 1: every other byte value after a bool key is rejected (the "0/1 booleans" clause).
func TestBoolByteExhaustive(t *testing.T) {
	for b := 0; b < 256; b++ {
		for _, strict := range []bool{false, true} {
			data := append(keyBytes(1, 0), byte(b))
			r := codec.NewReader(data)
			got, err := r.ReadBool(1, strict)
			if b <= 1 {
				if err != nil || got != (b == 1) {
					t.Fatalf("C08(b) ReadBool of byte %d: got %v err %v", b, got, err)
				}
			} else if err == nil {
				t.Fatalf("C08(b) ReadBool accepted byte 0x%02x as %v (only 0/1 are booleans)", b, got)
			}
		}
		evid.R.Case(fmt.Sprintf("boolbyte|%d", b), b > 1, nil, "bool_byte")
	}
}

func intsCase(t *rapid.T) {
	initKnown()
	fn := rapid.SampledFrom(fieldNumbers).Draw(t, "fieldNumber")
	kind := rapid.SampledFrom([]string{"uint64", "uint32", "int64", "int32", "uint64s", "uint32s", "int64s", "int32s", "bools"}).Draw(t, "kind")
	key := kind
	nt := false
	switch kind {
	case "uint64":
		v := genU64(t, "v")
		checkUInt(t, fn, v)
		key, nt = fmt.Sprintf("u64|%d|%d", fn, v), v >= 128
	case "uint32":
		v := genU32(t, "v")
		checkUInt32(t, fn, v)
		key, nt = fmt.Sprintf("u32|%d|%d", fn, v), v >= 128
	case "int64":
		v := genI64(t, "v")
		checkInt(t, fn, v)
		key, nt = fmt.Sprintf("i64|%d|%d", fn, v), v >= 64 || v < -64
	case "int32":
		v := genI32(t, "v")
		checkInt32(t, fn, v)
		key, nt = fmt.Sprintf("i32|%d|%d", fn, v), v >= 64 || v < -64
	case "uint64s":
		n := rapid.IntRange(0, 6).Draw(t, "n")
		vs := make([]uint64, n)
		for i := range vs {
			vs[i] = genU64(t, fmt.Sprintf("v%d", i))
		}
		w := codec.NewWriter()
		w.WriteUInts(fn, vs)
		r := codec.NewReader(w.Result())
		got, err := r.ReadUInts(fn)
		if err != nil || len(got) != n || r.HasUnreadBytes() {
			t.Fatalf("C08(b) ReadUInts of WriteUInts(%d,%v)=%x: got %v err %v", fn, vs, w.Result(), got, err)
		}
		for i := range vs {
			if got[i] != vs[i] {
				t.Fatalf("C08(b) ReadUInts of WriteUInts(%d,%v)=%x: got %v", fn, vs, w.Result(), got)
			}
		}
		key, nt = fmt.Sprintf("u64s|%d|%v", fn, vs), n > 0
	case "uint32s":
		n := rapid.IntRange(0, 6).Draw(t, "n")
		vs := make([]uint32, n)
		for i := range vs {
			vs[i] = genU32(t, fmt.Sprintf("v%d", i))
		}
		w := codec.NewWriter()
		w.WriteUInt32s(fn, vs)
		r := codec.NewReader(w.Result())
		got, err := r.ReadUInt32s(fn)
		if err != nil || len(got) != n || r.HasUnreadBytes() {
			t.Fatalf("C08(b) ReadUInt32s of WriteUInt32s(%d,%v)=%x: got %v err %v", fn, vs, w.Result(), got, err)
		}
		for i := range vs {
			if got[i] != vs[i] {
				t.Fatalf("C08(b) ReadUInt32s of WriteUInt32s(%d,%v)=%x: got %v", fn, vs, w.Result(), got)
			}
		}
		key, nt = fmt.Sprintf("u32s|%d|%v", fn, vs), n > 0
	case "int64s", "int32s":
		n := rapid.IntRange(0, 6).Draw(t, "n")
		vs := make([]int64, n)
		w := codec.NewWriter()
		if kind == "int64s" {
			for i := range vs {
				vs[i] = genI64(t, fmt.Sprintf("v%d", i))
			}
			w.WriteInts(fn, vs)
		} else {
			v32 := make([]int32, n)
			for i := range vs {
				v32[i] = genI32(t, fmt.Sprintf("v%d", i))
				vs[i] = int64(v32[i])
			}
			w.WriteInt32s(fn, v32)
		}
		r := codec.NewReader(w.Result())
		got, err := r.ReadInts(fn)
		if err != nil || len(got) != n || r.HasUnreadBytes() {
			t.Fatalf("C08(b) ReadInts of %s(%d,%v)=%x: got %v err %v", kind, fn, vs, w.Result(), got, err)
		}
		for i := range vs {
			if got[i] != vs[i] && !minInt64Known(vs[i], got[i]) {
				t.Fatalf("C08(b) ReadInts of %s(%d,%v)=%x: got %v", kind, fn, vs, w.Result(), got)
			}
		}
		key, nt = fmt.Sprintf("%s|%d|%v", kind, fn, vs), n > 0
	case "bools":
		n := rapid.IntRange(0, 6).Draw(t, "n")
		vs := rapid.SliceOfN(rapid.Bool(), n, n).Draw(t, "v")
		w := codec.NewWriter()
		w.WriteBools(fn, vs)
		r := codec.NewReader(w.Result())
		got, err := r.ReadBools(fn)
		if err != nil || len(got) != n || r.HasUnreadBytes() {
			t.Fatalf("C08(b) ReadBools of WriteBools(%d,%v)=%x: got %v err %v", fn, vs, w.Result(), got, err)
		}
		for i := range vs {
			if got[i] != vs[i] {
				t.Fatalf("C08(b) ReadBools of WriteBools(%d,%v)=%x: got %v", fn, vs, w.Result(), got)
			}
		}
		key, nt = fmt.Sprintf("bools|%d|%v", fn, vs), n > 0
	}
	evid.R.Case(key, nt, func() any { return map[string]any{"part": "b", "case": key} }, "ints_random", "ints:"+kind)
}

func TestIntsRandom(t *testing.T) { checkScaled(t, 0.5, intsCase) }

// Regression for C08-F1 (S6): zig-zag decoding of math.MinInt64 (wire value 0xffffffffffffffff).
func TestRegressReadIntMinInt64(t *testing.T) {
	initKnown()
	w := codec.NewWriter()
	w.WriteInt(1, math.MinInt64)
	got, err := codec.NewReader(w.Result()).ReadInt(1, true)
	if err == nil && minInt64Known(math.MinInt64, got) {
		t.Logf("known finding C08-F1 still present: ReadInt(WriteInt(MinInt64)) = %d", got)
		return
	}
	if err != nil || got != math.MinInt64 {
		t.Fatalf("C08(b) ReadInt(WriteInt(math.MinInt64)=%x) = %d, err %v", w.Result(), got, err)
	}
	w = codec.NewWriter()
	w.WriteInts(1, []int64{math.MinInt64, math.MaxInt64, -1})
	gots, err := codec.NewReader(w.Result()).ReadInts(1)
	if err != nil || len(gots) != 3 || gots[0] != math.MinInt64 || gots[1] != math.MaxInt64 || gots[2] != -1 {
		t.Fatalf("C08(b) ReadInts(WriteInts([MinInt64,MaxInt64,-1])) = %v, err %v", gots, err)
	}
}
