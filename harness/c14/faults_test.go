package c14

// Fixed regression scenarios for the extension "collaborator faults and event subscribers" (they run in every tier).

import (
	"testing"
	"time"
)

// TestRegressPublishFails: the connection fails the announcement of an Add that passed every check, in each situation in which Add
// has bookkeeping to finish: replacement, first transaction of a sender, eviction at a full pool (unprocessable and processable
// victim), eviction from a full sender list, and through the gossip handler. Whatever Add answers, the transaction must be pooled
// everywhere or nowhere (I1), the replaced / evicted one gone everywhere, the limits kept; promotion passes, getters and removals
// afterwards must agree with that.
// (Seeded change "announce before the transaction is registered": the sender list keeps a transaction the other indexes never see.)
func TestRegressPublishFails(t *testing.T) {
	rf := &recFailer{}
	m := newMachine(rf, cfgT{Max: 4, PerAcc: 2, Diff: 10}, 6, nil)
	m.subscribe([]subKind{{Topic: "both", CB: "drain"}})
	a := m.rec(sp(0, 0, 1000))
	m.doAdd(a)
	m.doAddF(m.rec(sp(0, 0, 3000)), true) // replacement, Publish fails
	m.doAddF(m.rec(sp(1, 0, 1000)), true) // first transaction of a sender, Publish fails
	m.doReorg()                           // whatever is in the lists gets promoted: GetProcessable and Get must agree
	m.doAddF(m.rec(sp(1, 1, 1000)), true) // fresh slot of an existing sender
	m.doAdd(m.rec(sp(2, 0, 1000)))
	m.doAdd(m.rec(sp(2, 1, 1000))) // pool full (if everything was kept) or nearly so
	m.doAdd(m.rec(sp(3, 0, 1000)))
	m.doAddF(m.rec(sp(4, 0, 27000)), true) // into a full pool: evicts an unprocessable one, Publish fails
	m.doReorg()
	m.doAddF(m.rec(sp(5, 0, 27000)), true)                         // into a full pool once more
	m.doAnnounce(m.rec(sp(5, 1, 27000)), true, "", nil)            // through the gossip handler
	m.doAddF(m.rec(sp(0, 5, 27000)), true)                         // higher nonce for sender 0 ...
	m.doAddF(m.rec(sp(0, 3, 27000)), true)                         // ... and a lower one into the (possibly full) list
	m.doAddF(m.rec(txSpec{Sender: 0, Nonce: 3, Fee: 27009}), true) // replacement attempt below the required increase
	m.doAddF(m.rec(txSpec{Sender: 0, Nonce: 3, Fee: 27010}), true) // just enough
	m.doReorg()
	for _, r := range append([]*txRec{}, m.order...) { // block applied: everything seen so far
		m.doRemove(r)
	}
	m.doReorg()
	if n := len(m.prev.raw.All); n != 0 && len(rf.msgs) == 0 {
		// (not a statement of C14 in itself: every transaction was removed by ID, so anything left is unreachable by ID)
		t.Logf("pool still holds %d transactions after removing every transaction ever added", n)
	}
	m.flags["regress:publish-fails"] = true
	m.register("regress:publish-fails")
	failIfRecorded(t, "publish-fails", rf)
}

// TestRegressSubscriberCallsBack: subscribers of EventTransactionNew that look the reported transaction up in the pool (one after a
// short pause, one at once, one removing it again, plus the engine's own drain-only subscriber of both topics), while transactions
// are announced back to back, added directly, a block is reverted and promotion passes run. Every call has to return.
// (Seeded change "event emitted inside Add under the write lock": the next Add waits in the event send for the subscriber, which
// waits for the pool's lock.)
func TestRegressSubscriberCallsBack(t *testing.T) {
	for _, sc := range []struct {
		name string
		subs []subKind
	}{
		{"get-after-pause", []subKind{{Topic: "both", CB: "drain"}, {Topic: "new", CB: "get", Delay: 3 * time.Millisecond}}},
		{"get-at-once+getall", []subKind{{Topic: "new", CB: "get"}, {Topic: "new", CB: "getall", Delay: time.Millisecond}, {Topic: "announcement", CB: "drain"}}},
		{"remove", []subKind{{Topic: "new", CB: "remove", Delay: time.Millisecond}, {Topic: "new", CB: "getprocessable"}}},
	} {
		rf := &recFailer{}
		m := newMachine(rf, cfgT{Max: 64, PerAcc: 4, Diff: 1}, 12, nil)
		m.subscribe(sc.subs)
		var first, second []*txRec
		var noFault []bool
		for sd := 0; sd < 6; sd++ {
			first = append(first, m.rec(sp(sd, 0, 1000)))
			second = append(second, m.rec(sp(sd, 1, 1000)))
			noFault = append(noFault, false)
		}
		m.doBurst(first, noFault) // six announcements back to back
		m.doReorg()
		for _, r := range second[:3] { // direct Adds (API / block revert): consecutive accepted Adds
			m.doAdd(r)
		}
		m.doBurst(second[3:], noFault[3:])
		m.doAnnounce(m.rec(sp(6, 0, 1000)), false, "", nil)
		m.doAnnounce(m.rec(sp(7, 0, 1000)), false, "", nil)
		m.doRemove(first[0])
		m.doAdd(first[0])
		m.doReorg()
		m.doRPC("no-body", nil)
		m.flags["regress:subscriber-calls-back"] = true
		m.register("regress:subscriber-calls-back:" + sc.name)
		failIfRecorded(t, "subscriber-calls-back/"+sc.name, rf)
	}
}
