package c14

// Concurrent phase: 4–8 goroutines run pre-drawn operation lists against one pool (one goroutine runs promotion passes like the
// pool's ticker loop, the others Add, Remove, block applied/reverted, getters). The seed fixes the workload, not the schedule; the oracle therefore only uses facts that hold under every
// schedule of a correct pool: all calls return (deadlock only on goroutine-dump evidence), no panic, and at quiescence the
// history-independent invariants I1–I4 hold and every processable transaction is one the (fixed) verifier script answers "ok".
// Built with -race in the thorough tier: a race report inside pkg/txpool fails the run.

import (
	"fmt"
	"runtime"
	"strings"
	"sync"
	"testing"
	"time"

	"github.com/LiskHQ/lisk-engine/pkg/txpool"
	"pgregory.net/rapid"

	"verifharness/evid"
)

type cop struct {
	kind  string // add | announce (gossip handler) | remove | reorg | get | block | rpc
	rec   *txRec
	blk   []*txRec
	fault bool // add / announce: the connection is told to fail its next Publish (whichever Add reaches it first)
}

func (o cop) String() string {
	switch o.kind {
	case "add", "remove", "announce":
		f := ""
		if o.fault {
			f = "!"
		}
		return o.kind + "(" + o.rec.spec.String() + ")" + f
	case "block":
		var s []string
		for _, r := range o.blk {
			s = append(s, r.spec.String())
		}
		return "block-applied-then-reverted(" + strings.Join(s, ",") + ")"
	}
	return o.kind
}

func TestPoolConcurrent(t *testing.T) {
	avoid := avoidance()
	restricted := avoid[sigReorgGap] || avoid[sigStaleRepl] || avoid[sigStaleEvict] || avoid[sigDeadlock] || avoid[sigBound]
	rapid.Check(t, func(t *rapid.T) {
		c := drawCfg(t)
		if avoid[sigDeadlock] || avoid[sigBound] || avoid[sigReorgGap] {
			c.Max = 1000 // the pool never fills: no capacity eviction
		}
		if avoid[sigStaleEvict] || avoid[sigReorgGap] {
			c.PerAcc = 9 // nonces are 0..8: no per-sender eviction
		}
		uniqueSlots := avoid[sigStaleRepl] || avoid[sigReorgGap] // one transaction per (sender, nonce): no replacement
		noRemove := avoid[sigReorgGap]                           // nothing that demotes while a pass is running
		noPending := avoid[sigPending]
		if restricted {
			evid.R.Excluded(1)
		}
		nS := rapid.IntRange(2, 4).Draw(t, "senders")
		ver := newVerifier()
		recs := map[txSpec]*txRec{}
		slow := map[string]bool{}
		var order []*txRec
		mk := func() *txRec {
			sp := txSpec{
				Sender: rapid.IntRange(0, nS-1).Draw(t, "sender"),
				Nonce:  uint64(rapid.IntRange(0, 8).Draw(t, "nonce")),
			}
			if nb := rapid.IntRange(0, 2).Draw(t, "lowNonceBias"); nb > 0 {
				sp.Nonce %= 4
			}
			if uniqueSlots {
				sp.Fee = fees[2+(sp.Sender+int(sp.Nonce))%4]
			} else {
				sp.Fee = rapid.SampledFrom(fees).Draw(t, "fee")
				sp.PSize = rapid.SampledFrom(psizes).Draw(t, "psize")
				sp.Variant = rapid.IntRange(0, 1).Draw(t, "variant")
			}
			if r, ok := recs[sp]; ok {
				return r
			}
			r := buildTx(sp)
			recs[sp] = r
			order = append(order, r)
			answers := []int{ansOK, ansOK, ansOK, ansOK, ansOK, ansOK, ansInvalid, ansErr, ansPending, ansPending}
			if noPending {
				answers = answers[:8]
			}
			ver.set(r.id, rapid.SampledFrom(answers).Draw(t, "answer"))
			if rapid.IntRange(0, 3).Draw(t, "slowVerify") == 0 {
				slow[r.id] = true
			}
			return r
		}
		// schedule points: the verifier is where the pool calls out without holding its write lock in a promotion pass; yielding
		// (or pausing 100 µs for the transactions drawn as slow) there lets other goroutines land inside the pass
		ver.setHook(func(id string) {
			if slow[id] {
				time.Sleep(100 * time.Microsecond)
			} else {
				runtime.Gosched()
			}
		})
		G := rapid.IntRange(4, 8).Draw(t, "goroutines")
		work := make([][]cop, G)
		for g := range work {
			n := rapid.IntRange(6, 20).Draw(t, "ops")
			for i := 0; i < n; i++ {
				// goroutine 0 plays the pool's ticker loop: it is the only one that runs promotion passes (the engine never
				// runs two passes at the same time: TransactionPool.Start is the only caller of reorg)
				k := "reorg"
				if g > 0 {
					k = rapid.SampledFrom([]string{"add", "add", "add", "add", "add", "remove", "remove", "get", "block", "announce", "announce", "rpc"}).Draw(t, "op")
				}
				if len(avoid) > 0 && (k == "announce" || k == "rpc") {
					k = "add"
				}
				if noRemove && (k == "remove" || k == "block") {
					k = "add"
				}
				o := cop{kind: k}
				switch k {
				case "add", "announce":
					o.rec = mk()
					o.fault = len(avoid) == 0 && rapid.IntRange(0, 7).Draw(t, "publishFails") == 0
				case "remove":
					if len(order) > 0 && rapid.IntRange(0, 3).Draw(t, "known") > 0 {
						o.rec = order[rapid.IntRange(0, len(order)-1).Draw(t, "target")]
					} else {
						o.rec = mk()
					}
				case "block":
					for j := rapid.IntRange(1, 3).Draw(t, "blockSize"); j > 0; j-- {
						if len(order) > 0 && rapid.IntRange(0, 2).Draw(t, "known") > 0 {
							o.blk = append(o.blk, order[rapid.IntRange(0, len(order)-1).Draw(t, "target")])
						} else {
							o.blk = append(o.blk, mk())
						}
					}
				}
				work[g] = append(work[g], o)
			}
		}

		pool, conn := newPoolConn(c, ver)
		// event subscribers (0-2): their callbacks run concurrently with everything else
		resetSubRegistry()
		subs := &subGroup{}
		var subNames []string
		if len(avoid) == 0 {
			for _, k := range drawSubs(t, []int{0, 0, 1, 1, 2}, []time.Duration{0, 0, 0, 100 * time.Microsecond}) {
				subs.subs = append(subs.subs, startSubscriber(pool, k))
				subNames = append(subNames, k.String())
			}
		}
		var mu sync.Mutex
		var panics []string
		sawFull := false
		var wg sync.WaitGroup
		start := make(chan struct{})
		worker := func(ops []cop) {
			defer wg.Done()
			cur := "start"
			defer func() {
				if r := recover(); r != nil {
					mu.Lock()
					panics = append(panics, fmt.Sprintf("panic in %s: %v", cur, r))
					mu.Unlock()
				}
			}()
			<-start
			for _, o := range ops {
				cur = o.String()
				switch o.kind {
				case "add":
					if o.fault {
						conn.armFailures(1)
					}
					pool.Add(o.rec.tx)
				case "announce":
					if o.fault {
						conn.armFailures(1)
					}
					conn.announce(o.rec.tx.Bytes())
				case "rpc":
					conn.getTransactions(nil)
				case "remove":
					pool.Remove(o.rec.tx.ID)
				case "reorg":
					pool.VerifReorg()
				case "get":
					all := pool.GetAll()
					pool.GetProcessable()
					if len(all) > 0 {
						pool.Get(all[0].ID)
					}
					if s := pool.VerifSnapshot(); len(s.All) >= c.Max {
						mu.Lock()
						sawFull = true
						mu.Unlock()
					}
				case "block":
					for _, r := range o.blk {
						pool.Remove(r.tx.ID)
					}
					for _, r := range o.blk {
						pool.Add(r.tx)
					}
				}
			}
		}
		describe := func() string {
			var b strings.Builder
			fmt.Fprintf(&b, "%s senders=%d subscribers=%v (! = the connection fails its next Publish)\n", c, nS, subNames)
			for _, r := range order {
				fmt.Fprintf(&b, "  verifier[%s]=%s\n", r.spec, ansNames[ver.get(r.id)])
			}
			for g, ops := range work {
				fmt.Fprintf(&b, "  goroutine %d:", g)
				for _, o := range ops {
					b.WriteString(" " + o.String())
				}
				b.WriteString("\n")
			}
			return b.String()
		}
		st, dump := guard(func() {
			wg.Add(len(work))
			for _, ops := range work {
				go worker(ops)
			}
			close(start)
			wg.Wait()
			pool.End() // closes the subscribers' channels; they finish what they are doing and leave
			subs.waitExit()
		})
		unregisterSubs(subs.subs)
		panics = append(panics, subs.takePanics()...)
		switch st {
		case callDeadlock:
			if restricted || !listedKnown(sigDeadlock, true) || !strings.Contains(dump, "(*TransactionPool).evict") {
				t.Fatalf("C14 violated: concurrent workload deadlocked; every goroutine inside the pool is parked on its locks:\n%s\nworkload:\n%s", dump, describe())
			}
			return
		case callTimeout:
			evid.R.Inconclusive("concurrent workload did not finish within %s, no deadlock evidence", wdLimit)
			return
		case callPanic:
			t.Fatalf("harness panic: %s", dump)
		}
		if len(panics) > 0 {
			t.Fatalf("C14 violated: %s\nworkload:\n%s", strings.Join(panics, "\n"), describe())
		}
		// quiescence
		var ids []string
		for _, r := range order {
			ids = append(ids, r.id)
		}
		o, st2, dump2 := observe(pool, ids)
		if st2 == callDeadlock || st2 == callPanic {
			t.Fatalf("C14 violated: getters at quiescence: %s\nworkload:\n%s", dump2, describe())
		}
		if st2 == callTimeout {
			evid.R.Inconclusive("getters at quiescence did not finish within %s", wdLimit)
			return
		}
		s, vs := analyze(o.raw, c)
		vs = append(vs, checkGetters(o, s)...)
		for id := range s.proc {
			if a := ver.get(id); a != ansOK {
				vs = append(vs, viol{"I4:unverified:" + ansNames[a], id, fmt.Sprintf("%s is processable although the verifier always answers %q for it", recName(order, id), ansNames[a])})
			}
		}
		if len(vs) > 0 {
			var msg []string
			for _, v := range vs {
				msg = append(msg, v.String())
			}
			t.Fatalf("C14 violated at quiescence after a concurrent workload:\n  %s\nworkload:\n%s", strings.Join(msg, "\n  "), describe())
		}
		limit := sawFull || len(o.raw.All) >= c.Max
		for _, l := range s.listOf {
			if len(l.Transactions) >= c.PerAcc {
				limit = true
			}
		}
		nontrivial := limit || len(s.proc) > 0
		labels := []string{"concurrent"}
		labels = append(labels, fmt.Sprintf("conc:subscribers:%d", len(subs.subs)))
		if subs.events() > 0 {
			labels = append(labels, "conc:events-delivered")
		}
		if _, failed := conn.takeCounts(); failed > 0 {
			labels = append(labels, "conc:publish-failed")
		}
		if limit {
			labels = append(labels, "conc:limit-reached")
		}
		if len(s.proc) > 0 {
			labels = append(labels, "conc:processables-at-end")
		}
		if restricted {
			labels = append(labels, "conc:restricted-workload")
		}
		evid.R.Case(describe(), nontrivial, func() any {
			return map[string]any{"kind": "concurrent", "workload": strings.Split(describe(), "\n")}
		}, labels...)
	})
}

func recName(order []*txRec, id string) string {
	for _, r := range order {
		if r.id == id {
			return r.spec.String()
		}
	}
	return short(id)
}

var _ = txpool.RPCEndpointGetTransactions
