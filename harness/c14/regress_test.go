package c14

// Minimal reproductions of the defects found in pkg/txpool (DESIGN §6 S19 and two more). They run once per process:
//   - as probes: a defect that is present AND listed as known switches on the generator avoidance for its trigger
//     (so the state machine keeps exploring behind it) and prints its KNOWN-FINDING line;
//   - as TestRegress… cases: a defect that is present and NOT listed as known (i.e. after the entry was flipped to fixed, or never
//     listed) fails the test.

import (
	"os"
	"strings"
	"sync"
	"testing"

	"verifharness/evid"
)

type probeDef struct {
	name     string
	sig      string
	cfg      cfgT
	tolerate []string
	script   func(m *machine)
}

func sp(sender int, nonce, fee uint64) txSpec { return txSpec{Sender: sender, Nonce: nonce, Fee: fee} }

var probeDefs = []probeDef{
	{
		// pool of capacity 1 takes a second transaction of the same fee priority
		name: "pool-size-max-plus-one", sig: sigBound, cfg: cfgT{Max: 1, PerAcc: 4, Diff: 1},
		script: func(m *machine) {
			m.doAdd(m.rec(sp(0, 0, 1000)))
			m.doAdd(m.rec(sp(1, 0, 1000)))
		},
	},
	{
		// the first Add that has to evict (pool above its limit, incoming fee priority higher than the lowest) never returns
		name: "deadlock-pool-full", sig: sigDeadlock, cfg: cfgT{Max: 1, PerAcc: 4, Diff: 1}, tolerate: []string{sigBound},
		script: func(m *machine) {
			m.doAdd(m.rec(sp(0, 0, 1000)))
			m.doAdd(m.rec(sp(1, 0, 1000)))
			m.doAdd(m.rec(sp(2, 0, 9000)))
			m.doAdd(m.rec(sp(3, 0, 9000)))
		},
	},
	{
		// replacement with sufficient fee: the old transaction stays in allTransactions / fee heap / Get / GetAll
		name: "stale-after-replacement", sig: sigStaleRepl, cfg: cfgT{Max: 6, PerAcc: 4, Diff: 10},
		script: func(m *machine) {
			m.doAdd(m.rec(sp(0, 0, 1000)))
			m.doAdd(m.rec(sp(0, 0, 1009))) // increase too small: rejected
			m.doAdd(m.rec(sp(0, 0, 1010))) // just enough: replaces
		},
	},
	{
		// sender list full, lower nonce arrives: the highest-nonce transaction leaves the list but stays in the other indexes
		name: "stale-after-account-eviction", sig: sigStaleEvict, cfg: cfgT{Max: 6, PerAcc: 1, Diff: 1},
		script: func(m *machine) {
			m.doAdd(m.rec(sp(0, 5, 1000)))
			m.doAdd(m.rec(sp(0, 2, 1000)))
		},
	},
	{
		// verifier answers "pending": the promotion pass must not make the transaction processable
		name: "pending-promoted", sig: sigPending, cfg: cfgT{Max: 6, PerAcc: 4, Diff: 1},
		script: func(m *machine) {
			a := m.rec(sp(0, 0, 1000))
			m.setAnswer(a, ansPending)
			m.doAdd(a)
			m.doReorg()
		},
	},
	{
		// processables {0,1}, promotable {2}; while the pass verifies, nonce 1 is removed; the pass then promotes 2: {0,2}
		name: "gap-after-remove-during-promotion", sig: sigReorgGap, cfg: cfgT{Max: 6, PerAcc: 4, Diff: 1},
		script: func(m *machine) {
			a0, a1, a2 := m.rec(sp(0, 0, 1000)), m.rec(sp(0, 1, 1000)), m.rec(sp(0, 2, 1000))
			m.doAdd(a0)
			m.doAdd(a1)
			m.doReorg()
			m.doAdd(a2)
			m.doReorgMid(&midOp{trigger: a0.id, tx: a1})
		},
	},
	{
		// same window, replacement of a processable transaction instead of a removal
		name: "gap-after-replace-during-promotion", sig: sigReorgGap, cfg: cfgT{Max: 6, PerAcc: 4, Diff: 1},
		script: func(m *machine) {
			a0, a1, a2 := m.rec(sp(0, 0, 1000)), m.rec(sp(0, 1, 1000)), m.rec(sp(0, 2, 1000))
			m.doAdd(a0)
			m.doAdd(a1)
			m.doReorg()
			m.doAdd(a2)
			m.doReorgMid(&midOp{trigger: a0.id, add: true, tx: m.rec(sp(0, 1, 3000))})
		},
	},
	{
		// eviction paths on a full pool, all three kinds in one history (only reachable once Add can evict at all):
		// unprocessable victim, processable victim, and a replacement arriving at a full pool
		name: "full-pool-evictions", sig: "", cfg: cfgT{Max: 2, PerAcc: 2, Diff: 1}, tolerate: []string{sigBound},
		script: func(m *machine) {
			m.doAdd(m.rec(sp(0, 0, 1000)))
			m.doAdd(m.rec(sp(0, 1, 1000)))
			m.doReorg()
			m.doAdd(m.rec(sp(1, 0, 3000))) // evicts a processable one
			m.doAdd(m.rec(sp(1, 3, 3000))) // evicts something
			m.doAdd(m.rec(sp(1, 3, 9000))) // replacement at a full pool
			m.doAdd(m.rec(sp(1, 1, 9000))) // sender list full: lower nonce pushes the highest out
			m.doReorg()
			m.doRemove(m.rec(sp(1, 0, 3000)))
		},
	},
}

type probeResult struct {
	def     probeDef
	present map[string]bool
	unknown []string
	hist    []string
	nontriv bool
}

var (
	probeOnce sync.Once
	probeRes  map[string]*probeResult
)

func runProbes() map[string]*probeResult {
	probeOnce.Do(func() {
		probeRes = map[string]*probeResult{}
		for _, d := range probeDefs {
			rf := &recFailer{}
			// a probe avoids the triggers of the defects found by earlier probes, except its own and those it has to pass through
			av := map[string]bool{}
			for _, r := range probeRes {
				for sig := range r.present {
					av[sig] = true
				}
			}
			delete(av, d.sig)
			m := newMachine(rf, d.cfg, 4, av)
			m.tolerate = map[string]bool{}
			for _, s := range d.tolerate {
				m.tolerate[s] = true
				delete(av, s)
			}
			d.script(m)
			m.register("regress:" + d.name)
			probeRes[d.name] = &probeResult{def: d, present: m.present, unknown: rf.msgs, hist: m.hist, nontriv: m.nontrivial()}
		}
	})
	return probeRes
}

// listedKnown: is the signature listed as a known (unrepaired) finding? VERIF_C14_ASSUME_FIXED is a diagnostic switch that emulates
// all entries having been flipped to "fixed" (used for mutation testing on top of the proposed fixes).
func listedKnown(sig string, report bool) bool {
	if os.Getenv("VERIF_C14_ASSUME_FIXED") != "" {
		return false
	}
	if report {
		return evid.R.KnownFinding(sig)
	}
	return evid.R.IsKnown(sig)
}

// avoidance: triggers the state machine must not pull = defects that the probes found present and that are listed as known.
func avoidance() map[string]bool {
	av := map[string]bool{}
	if os.Getenv("VERIF_C14_NOAVOID") != "" { // diagnostic switch: show what the search finds when nothing is avoided
		return av
	}
	for _, r := range runProbes() {
		for sig := range r.present {
			if listedKnown(sig, false) {
				av[sig] = true
			}
		}
	}
	var on []string
	for _, s := range allSigs {
		if av[s] {
			on = append(on, s)
		}
	}
	if len(on) > 0 {
		evid.R.Note("generator avoids the triggers of known findings present in this tree: %s", strings.Join(on, ", "))
	}
	return av
}

func regress(t *testing.T, name string) {
	r := runProbes()[name]
	if r == nil {
		t.Fatalf("no such probe %s", name)
	}
	if len(r.unknown) > 0 {
		t.Fatalf("regression %s:\n%s", name, strings.Join(r.unknown, "\n"))
	}
	for sig := range r.present {
		t.Logf("%s: known finding %s still present", name, sig)
	}
}

func TestRegressPoolSizeMaxPlusOne(t *testing.T)        { regress(t, "pool-size-max-plus-one") }
func TestRegressDeadlockPoolFull(t *testing.T)          { regress(t, "deadlock-pool-full") }
func TestRegressStaleAfterReplacement(t *testing.T)     { regress(t, "stale-after-replacement") }
func TestRegressStaleAfterAccountEviction(t *testing.T) { regress(t, "stale-after-account-eviction") }
func TestRegressPendingPromoted(t *testing.T)           { regress(t, "pending-promoted") }
func TestRegressGapRemoveDuringPromotion(t *testing.T) {
	regress(t, "gap-after-remove-during-promotion")
}
func TestRegressGapReplaceDuringPromotion(t *testing.T) {
	regress(t, "gap-after-replace-during-promotion")
}
func TestRegressFullPoolEvictions(t *testing.T) { regress(t, "full-pool-evictions") }
