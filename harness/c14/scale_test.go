package c14

// Large-scale histories for C14.
//
// The state machine of c14_test.go uses 3-4 senders, pools of 1-6 transactions and nonces 0-8. Nothing in the engine imposes such
// sizes (defaults: 4096 transactions, 64 per account), and some defects only exist above a size threshold (e.g. a promotion pass
// that limits its goroutines with a 32-slot semaphore taken under the pool read lock hangs as soon as more than 32 senders have an
// invalid promotable transaction in one pass). This file adds a second class of generated histories:
//
//   - 10-150 senders (exactly 32 / 33 / 64 / 65 drawn often), pool limits 1-400 and the engine default 4096, per-account limits
//     1-80 (63 / 64 / 65 drawn often), per-sender base nonces 0-300, runs with gaps, runs up to the per-account limit and one beyond;
//   - bulk phases: fill (runs for many senders), burst (first-nonce transactions of fresh accounts, also into a full pool, with
//     equal / distinct / higher fee priorities), promotion pass with scripted answers for MANY senders at once (all ok / all pending /
//     all invalid / all error / mixed / exactly k invalid with k around 32 and 64; the non-ok answer at the first / middle / last
//     promotable nonce, at a processable nonce or on the whole run), block applied (processable prefixes of many senders, random
//     subsets, whole pool) and reverted, replacements for many slots, lower nonces into full sender lists, removals, duplicates.
//
// Oracle = the one of the small histories (machine.step / analyze / contextChecks / checkGetters, watchdog with goroutine-dump
// evidence). Promotion passes and all phase boundaries are evaluated in full; inside a bulk phase on a big pool the single Add /
// Remove calls are "light" steps (watchdog + Get(id) before/after for I5 and the Remove result) with a full evaluation at least
// every 48 calls and at the end of the phase (machine.sync), to keep a case with hundreds of pooled transactions affordable.

import (
	"fmt"
	"sort"
	"strings"
	"testing"
	"time"

	"github.com/LiskHQ/lisk-engine/pkg/txpool"
	"pgregory.net/rapid"

	"verifharness/evid"
)

type scaleM struct {
	*machine
	rt        *rapid.T
	base      []uint64 // per sender: first nonce of its run
	next      []uint64 // per sender: highest nonce added so far + 1
	started   []bool
	variants  map[slotKey]int
	budget    int // remaining pool calls
	phaseCap  int // remaining pool calls of the running phase
	passes    int
	touched   []string
	nonOK     map[string]*txRec // transactions whose scripted answer is not ok
	lightFrom int               // pool size from which Add/Remove inside a bulk phase are light steps (0 = never)
	syncEvery int
	feeSeq    uint64
	unit      uint64 // size of a transaction without parameters: fee = p*unit + unit/2 has fee priority p
	sflags    map[string]bool
	peakPool  int
	peakList  int
	maxNonce  uint64
	// collaborator faults and the gossip entry point, drawn per phase: share of the Adds of the phase whose Publish fails, share
	// that arrives as a gossip announcement (validator + onTransactionAnnoucement) instead of a direct Add
	faultPct int
	annPct   int
}

var unitSize = uint64(buildTx(txSpec{Sender: 1, Nonce: 100, Fee: 100000}).tx.Size())

func newScaleM(t *rapid.T, c cfgT, nS int, avoid map[string]bool) *scaleM {
	s := &scaleM{machine: newMachine(t, c, nS, avoid), rt: t, base: make([]uint64, nS), next: make([]uint64, nS), started: make([]bool, nS),
		variants: map[slotKey]int{}, nonOK: map[string]*txRec{}, sflags: map[string]bool{}, unit: unitSize}
	s.probeFn = func() []string {
		ids := append(s.touched, "unknown-id")
		s.touched = nil
		return ids
	}
	return s
}

func (s *scaleM) addr(sender int) string { return string(buildAddr(sender)) }

func (s *scaleM) list(sender int) *txpool.VerifSenderList { return s.prev.listOf[s.addr(sender)] }

func (s *scaleM) touch(r *txRec) {
	if len(s.touched) < 512 {
		s.touched = append(s.touched, r.id)
	}
}

// after: bookkeeping after every call wrapper (peaks are read from the last fully evaluated state).
func (s *scaleM) after() {
	if s.light && s.dirty.bulkAdds+s.dirty.bulkRemoves >= s.syncEvery {
		s.sync()
	}
	if s.light {
		return
	}
	s.peaks()
}

func (s *scaleM) peaks() {
	if n := len(s.prev.raw.All); n > s.peakPool {
		s.peakPool = n
	}
	for _, l := range s.prev.listOf {
		if n := len(l.Transactions); n > s.peakList {
			s.peakList = n
		}
	}
}

func (s *scaleM) endPhase() {
	s.sync()
	s.light = false
	s.peaks()
}

// bulk decides whether the following Add/Remove calls of a phase are light steps.
func (s *scaleM) bulk() {
	s.light = s.lightFrom > 0 && len(s.avoid) == 0 && len(s.prev.raw.All)+s.dirty.bulkAdds >= s.lightFrom
}

// begin opens a phase: it may use at most half of the remaining calls (at least 24), so that one big fill does not eat the history.
func (s *scaleM) begin() {
	s.sync()
	s.phaseCap = s.budget / 2
	if s.phaseCap < 24 {
		s.phaseCap = 24
	}
	s.faultPct = rapid.SampledFrom([]int{0, 0, 0, 0, 0, 0, 10, 50, 100}).Draw(s.rt, "publishFaultPct")
	s.annPct = rapid.SampledFrom([]int{0, 0, 0, 0, 0, 30, 100, 100}).Draw(s.rt, "announcePct")
	if len(s.avoid) > 0 { // known findings present: plain Adds only (the avoidance rules are written for them)
		s.faultPct, s.annPct = 0, 0
	}
	if s.faultPct > 0 || s.annPct > 0 {
		s.hist = append(s.hist, fmt.Sprintf("-- next phase: Publish fails for %d%% of the Adds, %d%% arrive as gossip announcements", s.faultPct, s.annPct))
	}
}

func (s *scaleM) pct(p int, label string) bool {
	switch {
	case p <= 0:
		return false
	case p >= 100:
		return true
	}
	return rapid.IntRange(0, 99).Draw(s.rt, label) < p
}

func (s *scaleM) add(r *txRec) {
	if s.budget <= 0 || s.phaseCap <= 0 || s.stopped {
		return
	}
	s.budget--
	s.phaseCap--
	s.touch(r)
	s.bulk()
	fault := s.pct(s.faultPct, "publishFails")
	if fault {
		s.classifyFault(r)
	}
	if s.pct(s.annPct, "asAnnouncement") {
		s.doAnnounce(r, fault, "", nil)
	} else {
		s.doAddF(r, fault)
	}
	if n := r.tx.Nonce; n > s.maxNonce {
		s.maxNonce = n
	}
	if sd := r.spec.Sender; r.tx.Nonce+1 > s.next[sd] {
		s.next[sd] = r.tx.Nonce + 1
	}
	s.started[r.spec.Sender] = true
	s.after()
}

func (s *scaleM) remove(r *txRec) {
	if s.budget <= 0 || s.phaseCap <= 0 || s.stopped {
		return
	}
	s.budget--
	s.phaseCap--
	s.touch(r)
	s.bulk()
	s.doRemove(r)
	s.after()
}

func (s *scaleM) pass() {
	if s.stopped {
		return
	}
	s.budget--
	s.passes++
	s.light = false
	s.doReorg()
	s.peaks()
}

// classifyFault labels the situation of an Add whose Publish is about to fail by the phase it belongs to (inside a bulk phase the
// last fully evaluated state is out of date, so the phase is the better witness than machine.noteFault).
func (s *scaleM) classifyFault(r *txRec) {
	if s.started[r.spec.Sender] {
		s.sflags["scale:fault:publish:known-sender"] = true
	} else {
		s.sflags["scale:fault:publish:first-tx-of-sender"] = true
	}
	if len(s.prev.raw.All)+s.dirty.bulkAdds >= s.cfg.Max {
		s.sflags["scale:fault:publish:pool-full-or-nearly"] = true
	}
}

// phaseAnnounceBurst: many announcements in ONE watched call (what a gossip round delivers): next nonces of many senders or first
// transactions of fresh accounts; the subscribers are still busy with one event when the next is published.
func (s *scaleM) phaseAnnounceBurst() {
	t := s.rt
	s.begin()
	if len(s.avoid) > 0 {
		return
	}
	who := s.pickSenders("annBurst")
	k := rapid.SampledFrom([]int{8, 33, 16, 65, 4, 40, 100}).Draw(t, "annBurstSize")
	if k > len(who) {
		k = len(who)
	}
	if k > s.phaseCap {
		k = s.phaseCap
	}
	fm := s.drawFeeMode("annBurstFee")
	var rs []*txRec
	var fl []bool
	for _, sd := range who[:k] {
		n := s.next[sd]
		if !s.started[sd] {
			n = s.base[sd]
		}
		r := s.fresh(sd, n, s.drawFee(fm))
		rs = append(rs, r)
		fl = append(fl, s.pct(s.faultPct, "publishFails"))
		s.touch(r)
		s.next[sd], s.started[sd] = n+1, true
		if n > s.maxNonce {
			s.maxNonce = n
		}
	}
	if len(rs) == 0 {
		return
	}
	s.budget -= len(rs)
	s.light = false
	s.hist = append(s.hist, fmt.Sprintf("-- announcement burst: %d transactions in one call, fees %s", len(rs), feeModeNames[fm]))
	s.sflags["scale:announce-burst:"+countClass(len(rs))] = true
	s.doBurst(rs, fl)
	s.peaks()
}

// phaseRPC: a peer asks for the processable transactions (the handler caps its answer at 100).
func (s *scaleM) phaseRPC() {
	s.sync()
	s.budget--
	n := 0
	for _, l := range s.prev.listOf {
		n += len(l.Processables)
	}
	if n > 100 {
		s.sflags["scale:rpc:>100-processable"] = true
	}
	s.doRPC("no-body", nil)
}

// fresh builds a transaction with a new ID for (sender, nonce).
func (s *scaleM) fresh(sender int, nonce, fee uint64) *txRec {
	k := slotKey{s.addr(sender), nonce}
	v := s.variants[k]
	s.variants[k] = (v + 1) % 250
	return s.rec(txSpec{Sender: sender, Nonce: nonce, Fee: fee, Variant: v})
}

// fee priorities
const (
	feeEqual = iota
	feeDistinct
	feeHigh
	feeLow
	feeRandom
	feeZero
)

var feeModeNames = []string{"equal", "distinct", "high", "low", "random", "zero"}

func (s *scaleM) prioFee(p uint64) uint64 { return p*s.unit + s.unit/2 }

func (s *scaleM) drawFee(mode int) uint64 {
	s.feeSeq++
	switch mode {
	case feeEqual:
		return s.prioFee(20)
	case feeDistinct:
		return s.prioFee(21 + s.feeSeq%400)
	case feeHigh:
		return s.prioFee(500 + s.feeSeq)
	case feeLow:
		return s.prioFee(6)
	case feeZero:
		return 0
	}
	return rapid.SampledFrom(fees).Draw(s.rt, "fee") * 3
}

func (s *scaleM) drawFeeMode(label string) int {
	return rapid.SampledFrom([]int{feeEqual, feeEqual, feeDistinct, feeDistinct, feeHigh, feeLow, feeRandom, feeRandom, feeZero}).Draw(s.rt, label)
}

var edgeCounts = []int{33, 32, 65, 64, 34, 66, 31, 63, 17, 16, 100, 128}

// pickSenders draws a subset of the senders: all, the first k (k at the thresholds), or a random half.
func (s *scaleM) pickSenders(label string) []int {
	t := s.rt
	all := make([]int, s.nS)
	for i := range all {
		all[i] = i
	}
	switch rapid.IntRange(0, 5).Draw(t, label+"Mode") {
	case 0, 1, 2:
		return all
	case 3:
		k := rapid.SampledFrom(edgeCounts).Draw(t, label+"EdgeCount")
		if k > s.nS {
			k = s.nS
		}
		return all[:k]
	case 4:
		k := rapid.IntRange(1, s.nS).Draw(t, label+"Count")
		return all[s.nS-k:]
	}
	var out []int
	for _, i := range all {
		if rapid.Bool().Draw(t, label+"In") {
			out = append(out, i)
		}
	}
	if len(out) == 0 {
		return all
	}
	return out
}

// ---------------------------------------------------------------------------------------------------------------
// phases

// phaseFill: runs of consecutive nonces (optionally with gaps) for many senders.
func (s *scaleM) phaseFill() {
	t := s.rt
	s.begin()
	who := s.pickSenders("fill")
	lenMode := rapid.IntRange(0, 6).Draw(t, "runLen")
	gapPct := rapid.SampledFrom([]int{0, 0, 0, 10, 30}).Draw(t, "gapPct")
	roundRobin := rapid.Bool().Draw(t, "roundRobin")
	fm := s.drawFeeMode("fillFee")
	heavy := map[int]int{}
	if s.cfg.PerAcc > 4 {
		lo := 0
		if s.cfg.PerAcc >= 32 {
			lo = 1
		}
		for i := rapid.IntRange(lo, 3).Draw(t, "heavySenders"); i > 0; i-- {
			h := who[rapid.IntRange(0, len(who)-1).Draw(t, "heavy")]
			heavy[h] = s.cfg.PerAcc + rapid.IntRange(-1, 1).Draw(t, "heavyLen")
		}
	}
	if len(s.prev.raw.All) >= s.cfg.Max {
		s.evictionClass()
	}
	s.hist = append(s.hist, fmt.Sprintf("-- fill: %d senders, run length mode %d, gaps %d%%, fees %s, %d heavy, round robin %v", len(who), lenMode, gapPct, feeModeNames[fm], len(heavy), roundRobin))
	runs := make([][]uint64, len(who))
	for i, sd := range who {
		var n int
		switch lenMode {
		case 0:
			n = 1
		case 1, 2:
			n = rapid.IntRange(1, 3).Draw(t, "len")
		case 3:
			n = rapid.IntRange(2, 8).Draw(t, "len")
		case 4:
			n = s.cfg.PerAcc
			if n > 12 {
				n = 12
			}
		case 5:
			n = s.cfg.PerAcc + 1
			if n > 12 {
				n = 12
			}
		default:
			n = rapid.IntRange(9, 20).Draw(t, "len")
		}
		if h, ok := heavy[sd]; ok {
			n = h
		}
		nonce := s.next[sd]
		if !s.started[sd] {
			nonce = s.base[sd]
		}
		for j := 0; j < n; j++ {
			if gapPct > 0 && rapid.IntRange(0, 99).Draw(t, "gap") < gapPct {
				nonce += uint64(rapid.IntRange(1, 3).Draw(t, "gapWidth"))
			}
			runs[i] = append(runs[i], nonce)
			nonce++
		}
	}
	if roundRobin && len(heavy) == 0 {
		for j := 0; ; j++ {
			more := false
			for i, sd := range who {
				if j < len(runs[i]) {
					more = true
					s.add(s.fresh(sd, runs[i][j], s.drawFee(fm)))
				}
			}
			if !more || s.budget <= 0 {
				break
			}
		}
	} else {
		// heavy senders first, so that the budget does not cut their runs
		order := append([]int{}, who...)
		sort.SliceStable(order, func(a, b int) bool { return heavy[order[a]] > heavy[order[b]] })
		idx := map[int]int{}
		for i, sd := range who {
			idx[sd] = i
		}
		for _, sd := range order {
			for _, n := range runs[idx[sd]] {
				s.add(s.fresh(sd, n, s.drawFee(fm)))
			}
		}
	}
	s.endPhase()
}

// phaseBurst: first-nonce transactions of fresh accounts, in one go (also into a full pool).
func (s *scaleM) phaseBurst() {
	t := s.rt
	s.begin()
	var freshS []int
	for i := 0; i < s.nS; i++ {
		if s.list(i) == nil {
			freshS = append(freshS, i)
		}
	}
	if len(freshS) == 0 {
		s.phaseFill()
		return
	}
	if rapid.IntRange(0, 2).Draw(t, "burstAll") == 0 {
		k := rapid.SampledFrom(edgeCounts).Draw(t, "burstCount")
		if k < len(freshS) {
			freshS = freshS[:k]
		}
	}
	fm := rapid.SampledFrom([]int{feeEqual, feeDistinct, feeHigh, feeHigh, feeHigh, feeRandom}).Draw(t, "burstFee")
	full := len(s.prev.raw.All) >= s.cfg.Max
	s.hist = append(s.hist, fmt.Sprintf("-- burst: %d fresh accounts, fees %s, pool full: %v", len(freshS), feeModeNames[fm], full))
	if full {
		s.sflags["scale:burst-into-full-pool"] = true
		s.evictionClass()
	}
	if len(freshS) > 32 {
		s.sflags["scale:burst:>32"] = true
	}
	for _, sd := range freshS {
		n := s.base[sd]
		if s.started[sd] {
			n = s.next[sd]
		}
		s.add(s.fresh(sd, n, s.drawFee(fm)))
	}
	s.endPhase()
}

// evictionClass labels what the eviction scan of a full pool has to choose from.
func (s *scaleM) evictionClass() {
	prios := map[uint64]int{}
	cands := 0
	for _, l := range s.prev.listOf {
		isProc := map[uint64]bool{}
		for _, n := range l.Processables {
			isProc[n] = true
		}
		for n, tx := range l.Transactions {
			if !isProc[n] {
				prios[tx.FeePriority]++
				cands++
			}
		}
	}
	switch {
	case cands == 0:
		s.sflags["scale:evict-candidates:processable-only"] = true
	case len(prios) == 1 && cands > 1:
		s.sflags["scale:evict-candidates:equal-priority"] = true
	case len(prios) > 1:
		s.sflags["scale:evict-candidates:distinct-priorities"] = true
	}
	switch {
	case cands > 64:
		s.sflags["scale:evict-candidates:>64"] = true
	case cands > 32:
		s.sflags["scale:evict-candidates:33-64"] = true
	case cands > 16:
		s.sflags["scale:evict-candidates:17-32"] = true
	}
}

type passCand struct {
	sender int
	proc   []*txRec
	promo  []*txRec
}

// promotable computes what the next promotion pass will look at for one sender list (processables, then the run of consecutive
// nonces that follows them).
func (s *scaleM) promotable(l *txpool.VerifSenderList) (proc, promo []*txRec) {
	ns := make([]uint64, 0, len(l.Transactions))
	for n := range l.Transactions {
		ns = append(ns, n)
	}
	ns = sortedU64(ns)
	rec := func(n uint64) *txRec { return s.byID[string(l.Transactions[n].ID)] }
	k := len(l.Processables)
	for _, n := range l.Processables {
		if r := rec(n); r != nil {
			proc = append(proc, r)
		}
	}
	if k >= len(ns) {
		return
	}
	rest := ns[k:]
	if k > 0 && rest[0] != l.Processables[k-1]+1 {
		return
	}
	for i, n := range rest {
		if i > 0 && n != rest[i-1]+1 {
			break
		}
		if r := rec(n); r != nil {
			promo = append(promo, r)
		}
	}
	return
}

func (s *scaleM) setAns(r *txRec, a int) {
	s.ver.set(r.id, a)
	if a == ansOK {
		delete(s.nonOK, r.id)
	} else {
		s.nonOK[r.id] = r
	}
}

var posNames = []string{"first-promotable", "middle-promotable", "last-promotable", "processable", "whole-run"}

// phasePass: scripted answers for many senders at once, then one promotion pass.
func (s *scaleM) phasePass() {
	t := s.rt
	s.sync()
	var cands []passCand
	for i := 0; i < s.nS; i++ {
		l := s.list(i)
		if l == nil {
			continue
		}
		proc, promo := s.promotable(l)
		if len(promo) > 0 {
			cands = append(cands, passCand{i, proc, promo})
		}
	}
	mode := rapid.SampledFrom([]string{"all-invalid", "all-ok", "k-invalid", "mixed", "all-pending", "k-invalid", "all-ok", "all-err", "mixed", "all-invalid", "k-invalid", "keep"}).Draw(t, "passMode")
	pos := rapid.IntRange(0, 4).Draw(t, "passPos")
	perSenderPos := rapid.IntRange(0, 3).Draw(t, "passPosPerSender") == 3
	k := 0
	rest := ansOK
	if mode == "k-invalid" {
		k = rapid.SampledFrom([]int{33, 32, 65, 34, 64, 48, 31, 66, 63, 100, 16, 1}).Draw(t, "passK")
		rest = rapid.SampledFrom([]int{ansOK, ansOK, ansPending}).Draw(t, "passRest")
	}
	cnt := map[int]int{}
	var script []string
	for i, c := range cands {
		a := ansOK
		switch mode {
		case "keep":
			continue
		case "all-pending":
			a = ansPending
		case "all-invalid":
			a = ansInvalid
		case "all-err":
			a = ansErr
		case "mixed":
			a = rapid.SampledFrom([]int{ansOK, ansOK, ansPending, ansInvalid, ansInvalid, ansErr}).Draw(t, "passAnswer")
		case "k-invalid":
			a = rest
			if i < k {
				a = ansInvalid
			}
		}
		for _, r := range c.proc {
			s.setAns(r, ansOK)
		}
		for _, r := range c.promo {
			s.setAns(r, ansOK)
		}
		cnt[a]++
		if a == ansOK {
			continue
		}
		p := pos
		if perSenderPos {
			p = rapid.IntRange(0, 4).Draw(t, "pos")
		}
		var target []*txRec
		switch p {
		case 0:
			target = c.promo[:1]
		case 1:
			target = c.promo[len(c.promo)/2 : len(c.promo)/2+1]
		case 2:
			target = c.promo[len(c.promo)-1:]
		case 3:
			if len(c.proc) > 0 {
				j := rapid.IntRange(0, len(c.proc)-1).Draw(t, "procPos")
				target = c.proc[j : j+1]
			} else {
				target = c.promo[:1]
			}
		default:
			target = append(append([]*txRec{}, c.proc...), c.promo...)
		}
		for _, r := range target {
			s.setAns(r, a)
		}
		s.sflags["scale:pass-pos:"+posNames[p]] = true
		if len(script) < 400 {
			script = append(script, fmt.Sprintf("%s%s=%s", target[0].spec, map[bool]string{true: "..", false: ""}[len(target) > 1], ansNames[a]))
		}
	}
	s.hist = append(s.hist, fmt.Sprintf("-- pass: %d senders with promotable transactions, mode %s (%s): ok %d pending %d invalid %d err %d; verifier{%s}",
		len(cands), mode, posNames[pos], cnt[ansOK], cnt[ansPending], cnt[ansInvalid], cnt[ansErr], strings.Join(script, " ")))
	// classification by what the pass will really meet (answers left over from earlier phases included)
	bad, pend := 0, 0
	for _, c := range cands {
		st := ansOK
		for _, r := range append(append([]*txRec{}, c.proc...), c.promo...) {
			if a := s.ver.get(r.id); a != ansOK {
				st = a
				break
			}
		}
		switch st {
		case ansInvalid, ansErr:
			bad++
		case ansPending:
			pend++
		}
	}
	s.sflags["scale:pass:promotable-senders:"+countClass(len(cands))] = true
	s.sflags["scale:pass:invalid-senders:"+countClass(bad)] = true
	s.sflags["scale:pass:pending-senders:"+countClass(pend)] = true
	if len(cands) > 0 {
		switch {
		case bad == len(cands):
			s.sflags["scale:pass:all-invalid"] = true
		case pend == len(cands):
			s.sflags["scale:pass:all-pending"] = true
		case bad == 0 && pend == 0:
			s.sflags["scale:pass:all-ok"] = true
		default:
			s.sflags["scale:pass:mixed"] = true
		}
	}
	s.pass()
	// afterwards: usually forget the non-ok answers so that later passes promote again; sometimes a second pass right away
	switch rapid.IntRange(0, 3).Draw(t, "heal") {
	case 3:
	default:
		ids := make([]string, 0, len(s.nonOK))
		for id := range s.nonOK {
			ids = append(ids, id)
		}
		sort.Strings(ids)
		for _, id := range ids {
			s.setAns(s.nonOK[id], ansOK)
		}
		s.hist = append(s.hist, fmt.Sprintf("-- verifier: %d answers back to ok", len(ids)))
		if rapid.Bool().Draw(t, "secondPass") {
			s.pass()
		}
	}
}

func countClass(n int) string {
	switch {
	case n == 0:
		return "0"
	case n < 32:
		return "1-31"
	case n == 32:
		return "32"
	case n == 33:
		return "33"
	case n < 64:
		return "34-63"
	case n == 64:
		return "64"
	case n == 65:
		return "65"
	case n <= 100:
		return "66-100"
	}
	return ">100"
}

func (s *scaleM) sortedLists() []int {
	var out []int
	for i := 0; i < s.nS; i++ {
		if s.list(i) != nil {
			out = append(out, i)
		}
	}
	return out
}

// phaseBlock: block applied = Remove of every transaction of the block (generator.onNewBlock).
func (s *scaleM) phaseBlock() {
	t := s.rt
	s.begin()
	s.sync()
	var blk []*txRec
	mode := rapid.IntRange(0, 3).Draw(t, "blockMode")
	switch mode {
	case 0, 1: // what a block really holds: the lowest nonces of many senders
		depth := rapid.IntRange(1, 4).Draw(t, "blockDepth")
		if mode == 1 {
			depth = 1 << 20 // all processables
		}
		who := s.pickSenders("block")
		for _, sd := range who {
			l := s.list(sd)
			if l == nil {
				continue
			}
			ns := l.Processables
			if mode == 0 || len(ns) == 0 {
				all := make([]uint64, 0, len(l.Transactions))
				for n := range l.Transactions {
					all = append(all, n)
				}
				ns = sortedU64(all)
			}
			for j, n := range ns {
				if j >= depth {
					break
				}
				if r := s.byID[string(l.Transactions[n].ID)]; r != nil {
					blk = append(blk, r)
				}
			}
		}
	case 2: // random subset
		pooled := s.pooled()
		pct := rapid.SampledFrom([]int{10, 50, 90}).Draw(t, "blockPct")
		for _, r := range pooled {
			if rapid.IntRange(0, 99).Draw(t, "inBlock") < pct {
				blk = append(blk, r)
			}
		}
	default: // everything
		blk = s.pooled()
	}
	// a few transactions this node never had
	for i := rapid.IntRange(0, 2).Draw(t, "blockUnknown"); i > 0; i-- {
		sd := rapid.IntRange(0, s.nS-1).Draw(t, "unknownSender")
		blk = append(blk, s.fresh(sd, s.base[sd]+uint64(rapid.IntRange(0, 5).Draw(t, "unknownNonce")), s.prioFee(30)))
	}
	if len(blk) > s.phaseCap {
		blk = blk[:s.phaseCap]
	}
	if len(blk) == 0 {
		return
	}
	s.hist = append(s.hist, fmt.Sprintf("-- block applied (%d txs, mode %d):", len(blk), mode))
	s.sflags["scale:block-size:"+countClass(len(blk))] = true
	for _, r := range blk {
		s.remove(r)
	}
	s.blk = append(s.blk, blk)
	s.flags["block:applied"] = true
	s.endPhase()
}

// phaseRevert: block reverted = Add of every transaction of the block (generator.onDeleteBlock).
func (s *scaleM) phaseRevert() {
	if len(s.blk) == 0 {
		s.phaseBlock()
		return
	}
	s.begin()
	blk := s.blk[len(s.blk)-1]
	s.blk = s.blk[:len(s.blk)-1]
	s.hist = append(s.hist, fmt.Sprintf("-- block reverted (%d txs):", len(blk)))
	for _, r := range blk {
		s.add(r)
	}
	s.flags["block:reverted"] = true
	s.endPhase()
}

// phaseReplace: replacement attempts for many occupied slots (fee just below / just enough / far above the required increase).
func (s *scaleM) phaseReplace() {
	t := s.rt
	s.begin()
	s.sync()
	pooled := s.pooled()
	if len(pooled) == 0 {
		return
	}
	pct := rapid.SampledFrom([]int{5, 25, 100}).Draw(t, "replacePct")
	how := rapid.IntRange(0, 3).Draw(t, "replaceHow")
	s.hist = append(s.hist, fmt.Sprintf("-- replacements: %d%% of %d pooled, mode %d", pct, len(pooled), how))
	for _, r := range pooled {
		if rapid.IntRange(0, 99).Draw(t, "replace") >= pct {
			continue
		}
		h := how
		if h == 3 {
			h = rapid.IntRange(0, 2).Draw(t, "how")
		}
		fee := r.tx.Fee + s.cfg.Diff
		switch h {
		case 0:
			fee--
		case 2:
			fee += 5000
		}
		s.add(s.fresh(r.spec.Sender, r.tx.Nonce, fee))
	}
	s.endPhase()
}

// phaseLowNonce: nonces below the lowest / inside a gap / above the highest one, preferably for senders whose list is full.
func (s *scaleM) phaseLowNonce() {
	t := s.rt
	s.begin()
	s.sync()
	var full, other []int
	for _, sd := range s.sortedLists() {
		if len(s.list(sd).Transactions) >= s.cfg.PerAcc {
			full = append(full, sd)
		} else {
			other = append(other, sd)
		}
	}
	who := full
	if len(who) == 0 || rapid.IntRange(0, 3).Draw(t, "lowAny") == 0 {
		who = append(append([]int{}, full...), other...)
	}
	if len(who) == 0 {
		return
	}
	fm := s.drawFeeMode("lowFee")
	s.hist = append(s.hist, fmt.Sprintf("-- lower / gap / higher nonces for %d senders (%d with a full list)", len(who), len(full)))
	for _, sd := range who {
		l := s.list(sd) // state of the last full evaluation; an earlier Add of this phase may have evicted the whole list
		if l == nil || len(l.Transactions) == 0 {
			continue
		}
		all := make([]uint64, 0, len(l.Transactions))
		for n := range l.Transactions {
			all = append(all, n)
		}
		all = sortedU64(all)
		lo, hi := all[0], all[len(all)-1]
		var n uint64
		switch rapid.IntRange(0, 3).Draw(t, "lowWhere") {
		case 0, 1:
			if lo == 0 {
				n = hi + 1
			} else {
				n = lo - 1
			}
		case 2:
			n = hi + 1
		default:
			n = lo + uint64(rapid.IntRange(0, int(hi-lo)).Draw(t, "inside"))
		}
		s.add(s.fresh(sd, n, s.drawFee(fm)))
	}
	s.endPhase()
}

// phaseRemove: removals of pooled and of unknown transactions.
func (s *scaleM) phaseRemove() {
	t := s.rt
	s.begin()
	s.sync()
	pooled := s.pooled()
	k := rapid.IntRange(1, 40).Draw(t, "removeCount")
	s.hist = append(s.hist, fmt.Sprintf("-- %d removals", k))
	for i := 0; i < k; i++ {
		var r *txRec
		if len(pooled) > 0 && rapid.IntRange(0, 5).Draw(t, "removeKnown") > 0 {
			r = pooled[rapid.IntRange(0, len(pooled)-1).Draw(t, "removeTarget")]
		} else if len(s.order) > 0 {
			r = s.order[rapid.IntRange(0, len(s.order)-1).Draw(t, "removeAny")]
		}
		if r != nil {
			s.remove(r)
		}
	}
	s.endPhase()
}

// phaseKnown: transactions seen earlier again (exact duplicates of pooled ones, removed / rejected / evicted ones).
func (s *scaleM) phaseKnown() {
	t := s.rt
	s.begin()
	if len(s.order) == 0 {
		return
	}
	k := rapid.IntRange(1, 40).Draw(t, "knownCount")
	s.hist = append(s.hist, fmt.Sprintf("-- %d known transactions again", k))
	for i := 0; i < k; i++ {
		s.add(s.order[rapid.IntRange(0, len(s.order)-1).Draw(t, "known")])
	}
	s.endPhase()
}

// ---------------------------------------------------------------------------------------------------------------
// configuration and registration

func drawScaleCfg(t *rapid.T) (cfgT, int) {
	var nS int
	switch rapid.IntRange(0, 9).Draw(t, "senderClass") {
	case 0, 1, 2:
		nS = rapid.SampledFrom([]int{32, 33, 64, 65}).Draw(t, "senders")
	case 3, 4:
		nS = rapid.IntRange(34, 63).Draw(t, "senders")
	case 5, 6:
		nS = rapid.IntRange(66, 100).Draw(t, "senders")
	case 7:
		nS = rapid.IntRange(101, 150).Draw(t, "senders")
	default:
		nS = rapid.IntRange(10, 31).Draw(t, "senders")
	}
	c := cfgT{
		PerAcc: rapid.SampledFrom([]int{64, 8, 4, 65, 16, 2, 63, 1, 3, 32, 80}).Draw(t, "perAccount"),
		Diff:   rapid.SampledFrom([]uint64{1, 10}).Draw(t, "replaceDiff"),
		MinP:   rapid.SampledFrom([]uint64{0, 0, 5}).Draw(t, "minPriority"),
	}
	// (rapid favours the low end of a range: the frequent classes come first)
	mc := rapid.IntRange(0, 19).Draw(t, "maxClass")
	if c.PerAcc >= 32 && mc >= 8 && mc%4 != 0 {
		mc = 5 // long sender lists need room
	}
	switch {
	case mc <= 3:
		c.Max = rapid.IntRange(2*nS, 4*nS).Draw(t, "max")
		if c.Max > 400 {
			c.Max = 400
		}
	case mc <= 6:
		c.Max = rapid.IntRange(129, 400).Draw(t, "max")
	case mc <= 9:
		c.Max = nS + rapid.IntRange(-1, 1).Draw(t, "max")
	case mc <= 12:
		c.Max = nS/2 + rapid.IntRange(-1, 1).Draw(t, "max") // full while fresh accounts remain
	case mc <= 14:
		c.Max = rapid.SampledFrom([]int{32, 33, 64, 65, 31, 63, 128}).Draw(t, "max")
	case mc <= 16 && c.PerAcc >= 8:
		c.Max = c.PerAcc + rapid.IntRange(-1, 1).Draw(t, "max")
	case mc <= 18:
		c.Max = 4096 // engine default: never full
	default:
		c.Max = rapid.IntRange(1, 6).Draw(t, "max")
	}
	return c, nS
}

// sizeClass names the class of n: one of the exact values, or the range between two bounds (exact values inside a range are
// not part of it).
func sizeClass(n int, exact []int, bounds []int) string {
	for _, e := range exact {
		if n == e {
			return fmt.Sprint(e)
		}
	}
	isExact := func(v int) bool {
		for _, e := range exact {
			if v == e {
				return true
			}
		}
		return false
	}
	lo := 1
	for _, b := range bounds {
		if n <= b {
			for isExact(lo) {
				lo++
			}
			for isExact(b) {
				b--
			}
			return fmt.Sprintf("%d-%d", lo, b)
		}
		lo = b + 1
	}
	return fmt.Sprintf(">%d", bounds[len(bounds)-1])
}

func (s *scaleM) registerScale(kind string) {
	s.endPhase()
	s.finish()
	fl := map[string]bool{}
	for f := range s.flags {
		fl[f] = true
	}
	for f := range s.sflags {
		fl[f] = true
	}
	fl["scale:senders:"+sizeClass(s.nS, []int{32, 33, 64, 65}, []int{31, 63, 100, 150})] = true
	fl["scale:max:"+sizeClass(s.cfg.Max, []int{4096}, []int{6, 32, 64, 128, 400})] = true
	fl["scale:per-account:"+sizeClass(s.cfg.PerAcc, []int{63, 64, 65}, []int{4, 16, 62, 80})] = true
	fl["scale:peak-pooled:"+sizeClass(s.peakPool, nil, []int{16, 32, 64, 128, 256, 400})] = true
	fl["scale:peak-sender-list:"+sizeClass(s.peakList, []int{64, 65}, []int{4, 8, 31, 63, 81})] = true
	switch {
	case s.maxNonce > 64:
		fl["scale:nonce:>64"] = true
	case s.maxNonce > 8:
		fl["scale:nonce:9-64"] = true
	default:
		fl["scale:nonce:0-8"] = true
	}
	if s.lightFrom > 0 {
		fl["scale:light-bulk-steps"] = true
	}
	var labels []string
	for f := range fl {
		labels = append(labels, f)
	}
	sort.Strings(labels)
	nt := s.nontrivial()
	if nt {
		labels = append(labels, "nontrivial")
	}
	if s.abandoned > 0 {
		labels = append(labels, "pool-abandoned")
	}
	key := strings.Join(s.hist, ";")
	evid.R.Case(key, nt, func() any {
		h := s.hist
		if len(h) > 80 {
			h = append(append([]string{}, h[:60]...), fmt.Sprintf("… %d more lines …", len(h)-60))
		}
		return map[string]any{"kind": kind, "config": s.cfg.String(), "senders": s.nS, "pool-calls": s.steps, "history": h, "reached": labels}
	}, append([]string{kind}, labels...)...)
	evid.R.Label("pool-calls", int64(s.steps))
}

// TestPoolScale: the large-scale search.
func TestPoolScale(t *testing.T) {
	avoid := avoidance()
	maxBudget := 440
	if evid.Thorough() {
		maxBudget = 900
	}
	rapid.Check(t, func(t *rapid.T) {
		c, nS := drawScaleCfg(t)
		s := newScaleM(t, c, nS, avoid)
		s.subscribe(drawSubs(t, scaleSubCounts, scaleSubDelays))
		s.budget = rapid.SampledFrom([]int{maxBudget, maxBudget / 2, 3 * maxBudget / 4, maxBudget / 4, 60}).Draw(t, "poolCalls")
		s.lightFrom = rapid.SampledFrom([]int{0, 24, 24, 64}).Draw(t, "lightFrom")
		s.syncEvery = rapid.SampledFrom([]int{8, 48}).Draw(t, "syncEvery")
		switch rapid.IntRange(0, 3).Draw(t, "baseNonces") {
		case 0: // all start at 0
		case 1:
			b := uint64(rapid.IntRange(1, 300).Draw(t, "base"))
			for i := range s.base {
				s.base[i] = b
			}
		default:
			for i := range s.base {
				s.base[i] = uint64(rapid.IntRange(0, 300).Draw(t, "base"))
			}
		}
		s.hist = append(s.hist, fmt.Sprintf("senders=%d budget=%d lightFrom=%d syncEvery=%d base=%v", nS, s.budget, s.lightFrom, s.syncEvery, s.base))
		phases := []func(){s.phasePass, s.phaseBurst, s.phaseBlock, s.phasePass, s.phaseFill, s.phasePass, s.phaseBurst, s.phaseReplace, s.phasePass,
			s.phaseRevert, s.phaseLowNonce, s.phaseBlock, s.phasePass, s.phaseFill, s.phaseRemove, s.phaseKnown, s.phasePass,
			s.phaseAnnounceBurst, s.phaseRPC, s.phaseAnnounceBurst}
		// every history starts by pooling something for many senders, usually followed by a promotion pass
		if rapid.IntRange(0, 3).Draw(t, "firstPhase") == 3 {
			s.phaseBurst()
		} else {
			s.phaseFill()
		}
		if rapid.IntRange(0, 3).Draw(t, "earlyPass") < 3 {
			s.phasePass()
		}
		n := rapid.IntRange(2, 10).Draw(t, "phases")
		for i := 0; i < n && s.budget > 0 && !s.stopped; i++ {
			phases[rapid.IntRange(0, len(phases)-1).Draw(t, "phase")]()
		}
		if s.passes == 0 && !s.stopped { // no history without a promotion pass
			s.phasePass()
		}
		s.machine.t = t
		s.registerScale("scale-history")
	})
}

var (
	scaleSubCounts = []int{0, 0, 0, 0, 0, 1, 1, 2, 3}
	scaleSubDelays = []time.Duration{0, 0, 0, 0, 0, 0, 0, 0, 0, 0, 100 * time.Microsecond, 300 * time.Microsecond}
)

// TestRegressManyInvalidSendersInOnePass: 48 senders with two pooled transactions each, the verifier turns to "invalid" for all of
// them (a block spent the balances), one promotion pass. The pass and every later call must return, the indexes must agree.
// (Seeded change "32-slot semaphore taken under the pool read lock": the pass never returns with more than 32 such senders.)
func TestRegressManyInvalidSendersInOnePass(t *testing.T) {
	rf := &recFailer{}
	m := newMachine(rf, cfgT{Max: 1024, PerAcc: 8, Diff: 1}, 48, nil)
	m.probeFn = func() []string { return []string{"unknown-id"} }
	var all []*txRec
	for sd := 0; sd < 48; sd++ {
		for n := uint64(0); n < 2; n++ {
			r := m.rec(sp(sd, n, 100000))
			all = append(all, r)
			m.doAdd(r)
		}
	}
	for _, r := range all {
		m.ver.set(r.id, ansInvalid)
	}
	m.hist = append(m.hist, "verifier[every pooled transaction]=invalid")
	m.doReorg()
	m.doAdd(m.rec(sp(0, 2, 100000)))
	m.doReorg()
	m.flags["scale:pass:invalid-senders:34-63"] = true
	m.register("regress:many-invalid-senders-in-one-pass")
	if len(rf.msgs) > 0 {
		t.Fatalf("regression many-invalid-senders-in-one-pass:\n%s", strings.Join(rf.msgs, "\n"))
	}
}
