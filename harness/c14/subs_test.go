package c14

// Event subscribers of the pool (extension "collaborator faults and event subscribers").
//
// The engine subscribes to both topics of the pool (pkg/engine handleEvents: one goroutine, select over the channels, never calls the
// pool). Other consumers (an RPC / websocket layer) look the reported transaction up before they forward it. A history has 0-3
// subscribers; each drains only or calls back into the pool for every event (Get / GetAll / GetProcessable / Remove), with or without
// a small pause before the call. pkg/event sends on UNBUFFERED channels while it holds its own lock: a publication made while a pool
// lock is held therefore blocks the pool until every subscriber has taken the message - and forever if a subscriber is waiting for
// the pool at that moment.
//
// Liveness evidence (see deadlockEvidence): the subscriber goroutines are registered here by goroutine ID, so that a goroutine dump
// can tell "the pool is blocked in an event send and every possible receiver is itself parked inside the pool".

import (
	"fmt"
	"runtime"
	"sync"
	"time"

	"github.com/LiskHQ/lisk-engine/pkg/txpool"
)

type subKind struct {
	Topic string // new | announcement | both (engine-like: one goroutine selecting over both topics)
	CB    string // drain | get | getall | getprocessable | remove | mixed
	Delay time.Duration
}

func (k subKind) String() string {
	d := ""
	if k.Delay > 0 {
		d = "+" + k.Delay.String()
	}
	return k.Topic + ":" + k.CB + d
}

func (k subKind) mutating() bool { return k.CB == "remove" || k.CB == "mixed" }

type subscriber struct {
	kind subKind
	pool *txpool.TransactionPool
	done chan struct{} // closed when the goroutine left its loop (channels closed by End)

	mu       sync.Mutex
	received int
	handled  int
	// Remove callbacks: the ID is noted BEFORE the pool is called (intent), completion afterwards. Whoever sees the effect of such a
	// Remove in the pool therefore also sees the intent (happens-before through the pool's lock), see machine.evaluate.
	intents   map[string]bool
	nIntent   int
	nRemoveOK int
	nDone     int
	panics    []string
}

// live subscribers with their goroutine ID (0 = goroutine started but has not run yet). Tests run one pool at a time; the registry is
// reset with every new machine.
var (
	subRegMu sync.Mutex
	subReg   = map[*subscriber]int64{}
)

func resetSubRegistry() {
	subRegMu.Lock()
	subReg = map[*subscriber]int64{}
	subRegMu.Unlock()
}

func unregisterSubs(subs []*subscriber) {
	subRegMu.Lock()
	for _, s := range subs {
		delete(subReg, s)
	}
	subRegMu.Unlock()
}

// liveSubGIDs: goroutine IDs of the live subscribers; allKnown = false while one of them has not reported its ID yet.
func liveSubGIDs() (ids map[int64]bool, allKnown bool) {
	subRegMu.Lock()
	defer subRegMu.Unlock()
	ids, allKnown = make(map[int64]bool, len(subReg)), true
	for _, id := range subReg {
		if id == 0 {
			allKnown = false
			continue
		}
		ids[id] = true
	}
	return
}

// startSubscriber subscribes (in the calling goroutine, so the subscription exists when this returns) and starts the consumer.
// It does not wait for the consumer to run (a scheduling round trip costs milliseconds on a loaded machine).
func startSubscriber(p *txpool.TransactionPool, k subKind) *subscriber {
	s := &subscriber{kind: k, pool: p, done: make(chan struct{}), intents: map[string]bool{}}
	var chNew, chAnn <-chan interface{}
	if k.Topic == "new" || k.Topic == "both" {
		chNew = p.Subscribe(txpool.EventTransactionNew)
	}
	if k.Topic == "announcement" || k.Topic == "both" {
		chAnn = p.Subscribe(txpool.EventTransactionAnnouncement)
	}
	subRegMu.Lock()
	subReg[s] = 0
	subRegMu.Unlock()
	go func() {
		defer close(s.done)
		gid := curGID()
		subRegMu.Lock()
		if _, live := subReg[s]; live {
			subReg[s] = gid
		}
		subRegMu.Unlock()
		s.loop(chNew, chAnn)
	}()
	return s
}

// loop: the only blocking receive of a subscriber goroutine is the one on its subscription channel(s) - the liveness evidence
// relies on that (a subscriber seen in "chan receive" / "select" is ready to take a message).
//
//go:noinline
func (s *subscriber) loop(chNew, chAnn <-chan interface{}) {
	if chAnn == nil || chNew == nil {
		ch := chNew
		if ch == nil {
			ch = chAnn
		}
		for msg := range ch {
			s.handle(msg)
		}
		return
	}
	for chNew != nil || chAnn != nil {
		select {
		case msg, ok := <-chNew:
			if !ok {
				chNew = nil
				continue
			}
			s.handle(msg)
		case msg, ok := <-chAnn:
			if !ok {
				chAnn = nil
				continue
			}
			s.handle(msg)
		}
	}
}

func (s *subscriber) handle(msg interface{}) {
	s.mu.Lock()
	s.received++
	n := s.received
	s.mu.Unlock()
	defer func() {
		if r := recover(); r != nil {
			buf := make([]byte, 8192)
			s.mu.Lock()
			s.panics = append(s.panics, fmt.Sprintf("panic in subscriber %s: %v\n%s", s.kind, r, buf[:runtime.Stack(buf, false)]))
			s.mu.Unlock()
		}
		s.mu.Lock()
		s.handled++
		s.mu.Unlock()
	}()
	var id []byte
	if m, ok := msg.(*txpool.EventNewTransactionMessage); ok && m != nil && m.Transaction != nil {
		id = m.Transaction.ID
	}
	if s.kind.CB == "drain" {
		return
	}
	if s.kind.Delay > 0 {
		time.Sleep(s.kind.Delay) // a little work of its own (encoding, forwarding) before it looks at the pool
	}
	cb := s.kind.CB
	if cb == "mixed" {
		cb = []string{"get", "getall", "getprocessable", "remove"}[n%4]
	}
	switch cb {
	case "get":
		s.pool.Get(id)
	case "getall":
		s.pool.GetAll()
	case "getprocessable":
		s.pool.GetProcessable()
	case "remove":
		if id == nil {
			return
		}
		s.mu.Lock()
		s.intents[string(id)] = true
		s.nIntent++
		s.mu.Unlock()
		ok := false
		defer func() { // (also when Remove panics: the observation must not wait for it for ever)
			s.mu.Lock()
			s.nDone++
			if ok {
				s.nRemoveOK++
			}
			s.mu.Unlock()
		}()
		ok = s.pool.Remove(id)
	}
}

func (s *subscriber) counts() (received, handled int) {
	s.mu.Lock()
	defer s.mu.Unlock()
	return s.received, s.handled
}

// subGroup = the subscribers of one pool.
type subGroup struct {
	subs []*subscriber
}

func (g *subGroup) mutating() bool {
	for _, s := range g.subs {
		if s.kind.mutating() {
			return true
		}
	}
	return false
}

// busy: some subscriber has taken a message it has not finished with (cheap and not exact: a subscriber that was descheduled
// between taking the message and counting it looks idle; nothing that is asserted relies on this).
func (g *subGroup) busy() bool {
	for _, s := range g.subs {
		if r, h := s.counts(); r != h {
			return true
		}
	}
	return false
}

// removalState: Remove callbacks announced / completed so far.
func (g *subGroup) removalState() (intents, dones int) {
	for _, s := range g.subs {
		s.mu.Lock()
		intents += s.nIntent
		dones += s.nDone
		s.mu.Unlock()
	}
	return
}

// takeIntents: IDs some subscriber has set out to remove since the last call of this function.
func (g *subGroup) takeIntents() map[string]bool {
	var out map[string]bool
	for _, s := range g.subs {
		s.mu.Lock()
		for id := range s.intents {
			if out == nil {
				out = map[string]bool{}
			}
			out[id] = true
		}
		if len(s.intents) > 0 {
			s.intents = map[string]bool{}
		}
		s.mu.Unlock()
	}
	return out
}

func (g *subGroup) removedOK() (n int) {
	for _, s := range g.subs {
		s.mu.Lock()
		n += s.nRemoveOK
		s.mu.Unlock()
	}
	return
}

func (g *subGroup) takePanics() []string {
	var out []string
	for _, s := range g.subs {
		s.mu.Lock()
		out = append(out, s.panics...)
		s.panics = nil
		s.mu.Unlock()
	}
	return out
}

func (g *subGroup) events() (received int) {
	for _, s := range g.subs {
		r, _ := s.counts()
		received += r
	}
	return
}

// waitExit: after End() closed the channels every subscriber leaves its loop.
func (g *subGroup) waitExit() {
	for _, s := range g.subs {
		<-s.done
	}
}

// ---------------------------------------------------------------------------------------------------------------
// fixed regression scenarios (every tier)

func failIfRecorded(t interface {
	Fatalf(string, ...any)
}, name string, rf *recFailer) {
	if len(rf.msgs) > 0 {
		msg := rf.msgs[0]
		for _, m := range rf.msgs[1:] {
			msg += "\n" + m
		}
		t.Fatalf("regression %s:\n%s", name, msg)
	}
}
