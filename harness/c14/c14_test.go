// Package c14 checks property C14 of lisk-engine: the transaction pool keeps its indexes consistent, bounded and live.
//
// A rapid state machine drives a real txpool.TransactionPool (mock connection, scripted verifier) through histories of
// Add / Remove / block-applied / block-reverted / promotion passes (optionally with an operation interleaved into the pass) /
// verifier answer changes, and evaluates invariants I1–I5 (DESIGN §4 C14) after every single pool call; every call runs under a
// watchdog that reports a deadlock only on positive evidence from a goroutine dump.
package c14

import (
	"fmt"
	"sort"
	"strings"
	"sync"
	"testing"
	"time"

	"github.com/LiskHQ/lisk-engine/pkg/txpool"
	"pgregory.net/rapid"

	"verifharness/evid"
)

func TestMain(m *testing.M) { evid.Main(m, "C14") }

// signatures of the known findings (narrow: each names the operation and the shape of the state it needs)
const (
	sigDeadlock   = "deadlock:Add:pool-full"
	sigBound      = "bound:pool-size:max+1"
	sigStaleRepl  = "stale:allTransactions:after-replacement"
	sigStaleEvict = "stale:allTransactions:after-account-eviction"
	sigPending    = "promote:pending-as-ok"
	sigReorgGap   = "gap:processables:change-during-promotion"
)

var allSigs = []string{sigDeadlock, sigBound, sigStaleRepl, sigStaleEvict, sigPending, sigReorgGap}

type failer interface {
	Fatalf(format string, args ...any)
}

// recFailer records instead of failing (used by the defect probes).
type recFailer struct{ msgs []string }

func (r *recFailer) Fatalf(f string, a ...any) { r.msgs = append(r.msgs, fmt.Sprintf(f, a...)) }

type midOp struct {
	add     bool
	tx      *txRec
	trigger string // fire when the verifier is asked about this transaction during the pass
	fired   bool
	blocked bool
	ret     bool
	h       *guardH
}

type stepCtx struct {
	kind string // add | remove | reorg | reorgmid | bulk (= full evaluation after a run of light steps, large-scale histories)
	tx   *txRec
	ret  bool
	mid  *midOp
	// light steps only: Get(id) immediately before / after the call (same watched call)
	lb, la bool
	// bulk only: what the light steps since the last full evaluation did
	bulkAdds, bulkRemoves int
}

func (c *stepCtx) String() string {
	switch c.kind {
	case "add":
		return fmt.Sprintf("Add(%s)=%v", c.tx.spec, c.ret)
	case "remove":
		return fmt.Sprintf("Remove(%s)=%v", c.tx.spec, c.ret)
	case "bulk":
		return fmt.Sprintf("state after the last %d Add and %d Remove calls", c.bulkAdds, c.bulkRemoves)
	case "reorgmid":
		op := "Remove"
		if c.mid.add {
			op = "Add"
		}
		return fmt.Sprintf("Reorg{when verifying %s: %s(%s)=%v fired=%v blocked=%v}", short(c.mid.trigger), op, c.mid.tx.spec, c.mid.ret, c.mid.fired, c.mid.blocked)
	}
	return "Reorg()"
}

// addInfo: the Add performed in this step (directly or interleaved), if any.
func (c *stepCtx) addInfo() (*txRec, bool, bool) {
	if c.kind == "add" {
		return c.tx, c.ret, true
	}
	if c.kind == "reorgmid" && c.mid.add && c.mid.fired {
		return c.mid.tx, c.mid.ret, true
	}
	return nil, false, false
}

type machine struct {
	t     failer
	cfg   cfgT
	nS    int
	pool  *txpool.TransactionPool
	ver   *verifier
	prev  *snap
	recs  map[txSpec]*txRec
	byID  map[string]*txRec
	order []*txRec // universe in creation order
	blk   [][]*txRec
	hist  []string
	avoid map[string]bool
	// tolerate: signatures whose violations are recorded but do not end the pool's life (probes that must get past one defect
	// to reach another)
	tolerate map[string]bool

	stopped   bool
	present   map[string]bool // signatures of violations seen (known or not)
	abandoned int
	flags     map[string]bool // classification of the history
	steps     int

	// large-scale histories (scale_test.go)
	probeFn func() []string // IDs to probe with Get after a call (nil: every transaction ever built)
	light   bool            // Add/Remove steps are evaluated by Get before/after only; sync() does the full evaluation
	dirty   stepCtx         // light steps since the last full evaluation
}

func newMachine(t failer, c cfgT, nS int, avoid map[string]bool) *machine {
	m := &machine{t: t, cfg: c, nS: nS, ver: newVerifier(), recs: map[txSpec]*txRec{}, byID: map[string]*txRec{}, avoid: avoid,
		present: map[string]bool{}, flags: map[string]bool{}}
	if m.avoid == nil {
		m.avoid = map[string]bool{}
	}
	m.pool = newPool(c, m.ver)
	m.prev = emptySnap()
	m.hist = append(m.hist, c.String())
	return m
}

func (m *machine) rec(sp txSpec) *txRec {
	if r, ok := m.recs[sp]; ok {
		return r
	}
	r := buildTx(sp)
	m.recs[sp] = r
	m.byID[r.id] = r
	m.order = append(m.order, r)
	return r
}

func (m *machine) freshPool(why string) {
	m.abandoned++
	m.hist = append(m.hist, "-- pool abandoned ("+why+"), fresh pool --")
	m.pool = newPool(m.cfg, m.ver)
	m.prev = emptySnap()
}

func (m *machine) probeIDs() []string {
	if m.probeFn != nil {
		return m.probeFn()
	}
	ids := make([]string, 0, len(m.order)+1)
	for _, r := range m.order {
		ids = append(ids, r.id)
	}
	ids = append(ids, "unknown-id")
	return ids
}

func (m *machine) pooled() []*txRec {
	var out []*txRec
	for _, r := range m.order {
		if _, ok := m.prev.raw.All[r.id]; ok {
			out = append(out, r)
		}
	}
	return out
}

func maxNonce(l *txpool.VerifSenderList) (uint64, bool) {
	var mx uint64
	ok := false
	for n := range l.Transactions {
		if !ok || n > mx {
			mx, ok = n, true
		}
	}
	return mx, ok
}

// avoidAdd: does adding r in the current state pull the trigger of a known finding? (generator avoidance, DESIGN §1.6)
func (m *machine) avoidAdd(r *txRec) string {
	p := m.prev
	if _, dup := p.raw.All[r.id]; dup {
		return ""
	}
	if (m.avoid[sigDeadlock] || m.avoid[sigBound]) && len(p.raw.All) >= m.cfg.Max {
		return "pool-full"
	}
	if x, ok := p.slot[slotKey{r.addr, r.tx.Nonce}]; ok {
		if m.avoid[sigStaleRepl] && x != r.id && r.tx.Fee >= p.raw.All[x].Fee+m.cfg.Diff {
			return "replacement"
		}
		return ""
	}
	if l := p.listOf[r.addr]; l != nil && m.avoid[sigStaleEvict] && len(l.Transactions) >= m.cfg.PerAcc {
		if mx, ok := maxNonce(l); ok && r.tx.Nonce < mx {
			return "account-eviction"
		}
	}
	return ""
}

// avoidMid: with the promotion-pass finding present an interleaved operation must not touch nonces at or below the highest
// processable nonce of its sender.
func (m *machine) avoidMid(mid *midOp) string {
	if mid.add {
		if why := m.avoidAdd(mid.tx); why != "" {
			return why
		}
	}
	if !m.avoid[sigReorgGap] {
		return ""
	}
	if l := m.prev.listOf[mid.tx.addr]; l != nil && len(l.Processables) > 0 {
		hi := l.Processables[len(l.Processables)-1]
		if mid.tx.tx.Nonce <= hi {
			return "touches-processable"
		}
		if mid.add && len(l.Transactions) >= m.cfg.PerAcc {
			return "touches-processable"
		}
	}
	if mid.add && len(m.prev.raw.All) >= m.cfg.Max {
		return "touches-processable"
	}
	return ""
}

func (m *machine) anyPendingPooled() bool {
	for id := range m.prev.raw.All {
		if m.ver.get(id) == ansPending {
			return true
		}
	}
	return false
}

// ---------------------------------------------------------------------------------------------------------------
// operations (each = one watched pool call followed by the full invariant evaluation)

func (m *machine) doAdd(r *txRec) {
	if m.stopped {
		return
	}
	if why := m.avoidAdd(r); why != "" {
		evid.R.Excluded(1)
		evid.R.Label("avoided:add:"+why, 1)
		return
	}
	ctx := &stepCtx{kind: "add", tx: r}
	if m.light {
		m.lightStep(ctx, func() {
			_, ctx.lb = m.pool.Get(r.tx.ID)
			ctx.ret = m.pool.Add(r.tx)
			_, ctx.la = m.pool.Get(r.tx.ID)
		})
		return
	}
	m.step(ctx, func() { ctx.ret = m.pool.Add(r.tx) })
}

func (m *machine) doRemove(r *txRec) {
	if m.stopped {
		return
	}
	ctx := &stepCtx{kind: "remove", tx: r}
	if m.light {
		m.lightStep(ctx, func() {
			_, ctx.lb = m.pool.Get(r.tx.ID)
			ctx.ret = m.pool.Remove(r.tx.ID)
			_, ctx.la = m.pool.Get(r.tx.ID)
		})
		return
	}
	m.step(ctx, func() { ctx.ret = m.pool.Remove(r.tx.ID) })
}

// lightStep: one watched Add / Remove whose result is judged by Get(id) immediately before and after it (I5 / Remove result);
// everything else (I1-I4, getters) is evaluated by the next sync(). Used by the bulk phases of the large-scale histories only, and
// only on a tree without known findings (the avoidance rules need the exact state before every call).
func (m *machine) lightStep(ctx *stepCtx, call func()) {
	m.steps++
	if m.dirty.bulkAdds+m.dirty.bulkRemoves == 0 {
		m.ver.resetCalls()
	}
	st, dump := guard(call)
	m.hist = append(m.hist, ctx.String())
	var vs []viol
	switch st {
	case callDeadlock:
		vs = append(vs, viol{"live:deadlock", "", "the call never returns; goroutines inside the pool (all parked on its locks):\n" + dump})
	case callPanic:
		vs = append(vs, viol{"panic", "", dump})
	case callTimeout:
		evid.R.Inconclusive("call %s did not return within %s without deadlock evidence; pool abandoned", ctx, wdLimit)
		m.dirty = stepCtx{}
		m.freshPool("timeout without evidence")
		return
	default:
		r := ctx.tx
		if ctx.kind == "add" {
			m.dirty.bulkAdds++
			if ctx.ret && !ctx.la {
				vs = append(vs, viol{"I5:add-true-absent", r.id, fmt.Sprintf("Add returned true but Get does not find %s", r.spec)})
			}
			if !ctx.ret && !ctx.lb && ctx.la {
				vs = append(vs, viol{"I5:add-false-present", r.id, fmt.Sprintf("Add returned false but %s is pooled now", r.spec)})
			}
			if ctx.ret {
				m.flags["add:accepted"] = true
			} else {
				m.flags["add:rejected"] = true
			}
		} else {
			m.dirty.bulkRemoves++
			if ctx.la {
				vs = append(vs, viol{"op:remove-still-pooled", r.id, fmt.Sprintf("%s is still pooled after Remove (returned %v)", r.spec, ctx.ret)})
			}
			if ctx.ret != ctx.lb {
				vs = append(vs, viol{"op:remove-result", r.id, fmt.Sprintf("Remove(%s) returned %v, pooled before: %v", r.spec, ctx.ret, ctx.lb)})
			}
			if ctx.ret {
				m.flags["remove:hit"] = true
			} else {
				m.flags["remove:miss"] = true
			}
		}
	}
	if len(vs) > 0 {
		m.dirty = stepCtx{}
		m.handle(vs, ctx, nil)
	}
}

// sync evaluates the full invariant set on the state reached by the light steps since the last full evaluation.
func (m *machine) sync() {
	if m.stopped || m.dirty.bulkAdds+m.dirty.bulkRemoves == 0 {
		return
	}
	ctx := &stepCtx{kind: "bulk", bulkAdds: m.dirty.bulkAdds, bulkRemoves: m.dirty.bulkRemoves}
	m.dirty = stepCtx{}
	m.evaluate(ctx, callOK, "")
}

func (m *machine) doReorg() {
	if m.stopped {
		return
	}
	if m.avoid[sigPending] && m.anyPendingPooled() {
		evid.R.Excluded(1)
		evid.R.Label("avoided:reorg:pending-answer", 1)
		return
	}
	ctx := &stepCtx{kind: "reorg"}
	m.step(ctx, func() { m.pool.VerifReorg() })
}

// doReorgMid runs a promotion pass and, at the moment the pass asks the verifier about mid.trigger, performs mid (Add or Remove)
// from another goroutine; the verifier answers only after that operation returned (or after 150 ms if the pool makes it wait).
func (m *machine) doReorgMid(mid *midOp) {
	if m.stopped {
		return
	}
	if m.avoid[sigPending] && (m.anyPendingPooled() || (mid.add && m.ver.get(mid.tx.id) == ansPending)) {
		evid.R.Excluded(1)
		evid.R.Label("avoided:reorg:pending-answer", 1)
		return
	}
	if why := m.avoidMid(mid); why != "" {
		evid.R.Excluded(1)
		evid.R.Label("avoided:mid:"+why, 1)
		return
	}
	ctx := &stepCtx{kind: "reorgmid", mid: mid}
	var once sync.Once
	pool := m.pool
	m.ver.setHook(func(id string) {
		if id != mid.trigger {
			return
		}
		once.Do(func() {
			mid.fired = true
			mid.h = startGuard(func() {
				if mid.add {
					mid.ret = pool.Add(mid.tx.tx)
				} else {
					mid.ret = pool.Remove(mid.tx.tx.ID)
				}
			})
			select {
			case <-mid.h.done:
			case <-time.After(150 * time.Millisecond):
				mid.blocked = true
			}
		})
	})
	m.step(ctx, func() { pool.VerifReorg() })
}

func (m *machine) setAnswer(r *txRec, a int) {
	if m.stopped {
		return
	}
	m.ver.set(r.id, a)
	m.hist = append(m.hist, fmt.Sprintf("verifier[%s]=%s", r.spec, ansNames[a]))
}

func (m *machine) step(ctx *stepCtx, call func()) {
	m.sync()
	if m.stopped {
		return
	}
	m.steps++
	m.ver.resetCalls()
	st, dump := guard(call)
	m.ver.setHook(nil)
	if ctx.mid != nil && ctx.mid.h != nil && st == callOK {
		st, dump = ctx.mid.h.wait()
	}
	m.hist = append(m.hist, ctx.String())
	m.evaluate(ctx, st, dump)
}

// evaluate: the full invariant evaluation after a call that ended with watchdog status st.
func (m *machine) evaluate(ctx *stepCtx, st int, dump string) {
	var vs []viol
	switch st {
	case callDeadlock:
		vs = append(vs, viol{"live:deadlock", "", "the call never returns; goroutines inside the pool (all parked on its locks):\n" + dump})
	case callPanic:
		vs = append(vs, viol{"panic", "", dump})
	case callTimeout:
		evid.R.Inconclusive("call %s did not return within %s without deadlock evidence; pool abandoned", ctx, wdLimit)
		m.freshPool("timeout without evidence")
		return
	}
	var s *snap
	if st == callOK {
		o, st2, dump2 := observe(m.pool, m.probeIDs())
		switch st2 {
		case callDeadlock:
			vs = append(vs, viol{"live:deadlock-getters", "", "after " + ctx.String() + " the getters never return:\n" + dump2})
		case callPanic:
			vs = append(vs, viol{"panic-getters", "", dump2})
		case callTimeout:
			evid.R.Inconclusive("getters after %s did not return within %s without deadlock evidence; pool abandoned", ctx, wdLimit)
			m.freshPool("timeout without evidence")
			return
		default:
			var v1 []viol
			s, v1 = analyze(o.raw, m.cfg)
			vs = append(vs, v1...)
			vs = append(vs, checkGetters(o, s)...)
			vs = append(vs, m.contextChecks(ctx, s)...)
		}
	}
	if len(vs) > 0 {
		m.handle(vs, ctx, s)
		return
	}
	m.track(ctx, s)
	m.prev = s
}

// contextChecks: the history-dependent parts of I3, I4, I5.
func (m *machine) contextChecks(ctx *stepCtx, s *snap) []viol {
	var vs []viol
	add := func(kind, id, f string, a ...any) { vs = append(vs, viol{kind, id, fmt.Sprintf(f, a...)}) }
	p := m.prev
	// I4: whoever became processable in this step was answered "ok" by the verifier in this step
	last := map[string]int{}
	asked := map[string]bool{}
	for _, c := range m.ver.takeCalls() {
		last[c.id] = c.ans
		asked[c.id] = true
	}
	var newProc []string
	for id := range s.proc {
		if !p.proc[id] {
			newProc = append(newProc, id)
		}
	}
	sort.Strings(newProc)
	for _, id := range newProc {
		if !asked[id] {
			add("I4:unverified:not-asked", id, "%s became processable without the verifier being asked about it", m.name(id))
		} else if last[id] != ansOK {
			add("I4:unverified:"+ansNames[last[id]], id, "%s became processable although the verifier answered %q", m.name(id), ansNames[last[id]])
		}
	}
	switch ctx.kind {
	case "add":
		r := ctx.tx
		_, before := p.raw.All[r.id]
		_, after := s.raw.All[r.id]
		if ctx.ret && !after {
			add("I5:add-true-absent", r.id, "Add returned true but %s is not pooled", r.spec)
		}
		if !ctx.ret && !before && after {
			add("I5:add-false-present", r.id, "Add returned false but %s is pooled now", r.spec)
		}
		// I3: replacement rule. Only judged when the pool was not full before (else the old one may have been evicted for room).
		if x, ok := p.slot[slotKey{r.addr, r.tx.Nonce}]; ok && x != r.id && after && len(p.raw.All) < m.cfg.Max {
			if _, still := s.raw.All[x]; !still {
				old := p.raw.All[x]
				if r.tx.Fee < old.Fee+m.cfg.Diff {
					add("I3:replacement-fee", r.id, "%s (fee %d) replaced %s (fee %d) although the required increase is %d", r.spec, r.tx.Fee, m.name(x), old.Fee, m.cfg.Diff)
				}
			}
		}
	case "remove":
		r := ctx.tx
		_, before := p.raw.All[r.id]
		_, after := s.raw.All[r.id]
		if after {
			add("op:remove-still-pooled", r.id, "%s is still pooled after Remove (returned %v)", r.spec, ctx.ret)
		}
		if ctx.ret != before {
			add("op:remove-result", r.id, "Remove(%s) returned %v, pooled before: %v", r.spec, ctx.ret, before)
		}
	}
	return vs
}

func (m *machine) name(id string) string {
	if r, ok := m.byID[id]; ok {
		return r.spec.String()
	}
	return short(id)
}

// signature maps one violation (with the step that produced it) to a known-finding signature, "" if it has none.
func (m *machine) signature(v viol, ctx *stepCtx, s *snap) string {
	p := m.prev
	atx, aret, isAdd := ctx.addInfo()
	switch v.kind {
	case "live:deadlock":
		if isAdd && len(p.raw.All) >= m.cfg.Max && strings.Contains(v.msg, "(*TransactionPool).Add") &&
			(strings.Contains(v.msg, "(*TransactionPool).evict") || strings.Contains(v.msg, "(*TransactionPool).remove")) {
			return sigDeadlock
		}
	case "I2:pool-size":
		if isAdd && aret && s != nil && len(p.raw.All) == m.cfg.Max && len(s.raw.All) == m.cfg.Max+1 {
			return sigBound
		}
	case "I1:stale":
		if !isAdd || !aret {
			return ""
		}
		if x, ok := p.slot[slotKey{atx.addr, atx.tx.Nonce}]; ok {
			if x == v.id && x != atx.id {
				return sigStaleRepl
			}
			return ""
		}
		if l := p.listOf[atx.addr]; l != nil && len(l.Transactions) >= m.cfg.PerAcc {
			if mx, ok := maxNonce(l); ok && atx.tx.Nonce < mx && string(l.Transactions[mx].ID) == v.id {
				return sigStaleEvict
			}
		}
	case "I4:unverified:pending":
		if ctx.kind == "reorg" || ctx.kind == "reorgmid" {
			return sigPending
		}
	case "I4:gap":
		if ctx.kind == "reorgmid" && ctx.mid.fired {
			return sigReorgGap
		}
	}
	return ""
}

func (m *machine) handle(vs []viol, ctx *stepCtx, s *snap) {
	var unknown []string
	known := map[string]bool{}
	for _, v := range vs {
		sig := m.signature(v, ctx, s)
		if sig != "" {
			m.present[sig] = true
		}
		if sig != "" && listedKnown(sig, true) {
			known[sig] = true
			continue
		}
		if sig != "" {
			unknown = append(unknown, v.String()+"   [signature "+sig+"]")
		} else {
			unknown = append(unknown, v.String())
		}
	}
	if len(unknown) > 0 {
		m.stopped = true
		// the first line of the violation again after the history: the driver shows the tail of the output
		first := strings.SplitN(unknown[0], "\n", 2)[0]
		m.t.Fatalf("C14 violated by %s:\n  %s\nhistory (%d steps):\n  %s\nC14 violated by the last call of this history (%s): %s", ctx, strings.Join(unknown, "\n  "), m.steps,
			strings.Join(m.hist, "\n  "), ctx, first)
		return
	}
	tolerated := s != nil
	for sig := range known {
		evid.R.Label("known-hit:"+sig, 1)
		if !m.tolerate[sig] {
			tolerated = false
		}
	}
	if tolerated {
		m.hist = append(m.hist, "-- known finding tolerated, same pool continues --")
		m.prev = s
		return
	}
	m.freshPool("known finding")
}

// track classifies what the history reached (non-trivial rule and label histogram).
func (m *machine) track(ctx *stepCtx, s *snap) {
	p := m.prev
	if len(s.raw.All) >= m.cfg.Max {
		m.flags["limit:pool"] = true
	}
	for _, l := range s.listOf {
		if len(l.Transactions) >= m.cfg.PerAcc {
			m.flags["limit:sender"] = true
		}
	}
	for id := range p.proc {
		if _, pooled := s.raw.All[id]; pooled && !s.proc[id] {
			m.flags["demotion"] = true
		}
	}
	for id := range s.proc {
		if !p.proc[id] {
			m.flags["promotion"] = true
			break
		}
	}
	lost := 0
	for id := range p.raw.All {
		if _, ok := s.raw.All[id]; !ok {
			lost++
		}
	}
	if atx, aret, isAdd := ctx.addInfo(); isAdd {
		if aret {
			m.flags["add:accepted"] = true
			if x, ok := p.slot[slotKey{atx.addr, atx.tx.Nonce}]; ok && x != atx.id && s.slot[slotKey{atx.addr, atx.tx.Nonce}] == atx.id {
				m.flags["replacement"] = true
				lost--
			} else if l := p.listOf[atx.addr]; l != nil && len(l.Transactions) >= m.cfg.PerAcc && lost > 0 {
				m.flags["evict:sender"] = true
			}
			if len(p.raw.All) >= m.cfg.Max && lost > 0 {
				m.flags["evict:pool"] = true
			}
		} else {
			m.flags["add:rejected"] = true
		}
		if m.ver.get(atx.id) == ansPending && aret {
			m.flags["add:pending-accepted"] = true
		}
	}
	switch ctx.kind {
	case "remove":
		if ctx.ret {
			m.flags["remove:hit"] = true
		} else {
			m.flags["remove:miss"] = true
		}
	case "bulk": // approximate classification of a run of light steps (labels only)
		if ctx.bulkAdds > 0 && ctx.bulkRemoves == 0 && lost > 0 && m.flags["add:accepted"] {
			if len(p.raw.All) >= m.cfg.Max || len(s.raw.All) >= m.cfg.Max {
				m.flags["evict:pool"] = true
			} else {
				m.flags["evict:sender-or-replacement"] = true
			}
		}
	case "reorg", "reorgmid":
		if lost > 0 {
			m.flags["reorg:dropped-invalid"] = true
		}
		if ctx.mid != nil {
			if ctx.mid.fired {
				m.flags["mid:fired"] = true
			}
			if ctx.mid.blocked {
				m.flags["mid:blocked"] = true
			}
		}
	}
}

func (m *machine) nontrivial() bool {
	return m.flags["limit:pool"] || m.flags["limit:sender"] || m.flags["replacement"] || (m.flags["promotion"] && m.flags["demotion"])
}

func (m *machine) register(kind string) {
	labels := []string{kind}
	var fl []string
	for f := range m.flags {
		fl = append(fl, f)
	}
	sort.Strings(fl)
	labels = append(labels, fl...)
	if m.nontrivial() {
		labels = append(labels, "nontrivial")
	}
	if m.abandoned > 0 {
		labels = append(labels, "pool-abandoned")
	}
	key := strings.Join(m.hist, ";")
	evid.R.Case(key, m.nontrivial(), func() any {
		return map[string]any{"kind": kind, "config": m.cfg.String(), "senders": m.nS, "history": m.hist, "reached": fl}
	}, labels...)
	evid.R.Label("pool-calls", int64(m.steps))
}

// ---------------------------------------------------------------------------------------------------------------
// generators

var fees = []uint64{0, 500, 1000, 1001, 1009, 1010, 1011, 3000, 3010, 9000}
var psizes = []int{0, 0, 40, 300}

func (m *machine) drawSpec(t *rapid.T, sender int) txSpec {
	if sender < 0 {
		sender = rapid.IntRange(0, m.nS-1).Draw(t, "sender")
	}
	addr := string(buildAddr(sender))
	var nonce uint64
	mode := rapid.IntRange(0, 4).Draw(t, "nonceMode")
	l := m.prev.listOf[addr]
	switch {
	case mode <= 1: // continue the sender's run
		if l != nil {
			if mx, ok := maxNonce(l); ok && mx < 8 {
				nonce = mx + 1
			}
		}
	case mode == 2 && l != nil && len(l.Transactions) > 0: // hit an occupied slot (duplicate / replacement attempt)
		ns := make([]uint64, 0, len(l.Transactions))
		for n := range l.Transactions {
			ns = append(ns, n)
		}
		ns = sortedU64(ns)
		nonce = ns[rapid.IntRange(0, len(ns)-1).Draw(t, "slot")]
	default:
		nonce = uint64(rapid.IntRange(0, 8).Draw(t, "nonce"))
	}
	return txSpec{
		Sender:  sender,
		Nonce:   nonce,
		Fee:     rapid.SampledFrom(fees).Draw(t, "fee"),
		PSize:   rapid.SampledFrom(psizes).Draw(t, "psize"),
		Variant: rapid.IntRange(0, 2).Draw(t, "variant"),
	}
}

var addrCache sync.Map

func buildAddr(sender int) []byte {
	if a, ok := addrCache.Load(sender); ok {
		return a.([]byte)
	}
	a := []byte(buildTx(txSpec{Sender: sender}).addr)
	addrCache.Store(sender, a)
	return a
}

func drawCfg(t *rapid.T) cfgT {
	return cfgT{
		Max:    rapid.IntRange(1, 6).Draw(t, "max"),
		PerAcc: rapid.IntRange(1, 4).Draw(t, "perAccount"),
		Diff:   rapid.SampledFrom([]uint64{1, 10}).Draw(t, "replaceDiff"),
		MinP:   rapid.SampledFrom([]uint64{0, 0, 5}).Draw(t, "minPriority"),
	}
}

func (m *machine) pick(t *rapid.T, from []*txRec, label string) *txRec {
	if len(from) == 0 {
		return nil
	}
	return from[rapid.IntRange(0, len(from)-1).Draw(t, label)]
}

func (m *machine) actions() map[string]func(*rapid.T) {
	addNew := func(t *rapid.T) {
		m.t = t
		m.doAdd(m.rec(m.drawSpec(t, -1)))
	}
	reorg := func(t *rapid.T) {
		m.t = t
		m.doReorg()
	}
	return map[string]func(*rapid.T){
		"add1": addNew, "add2": addNew, "add3": addNew, "add4": addNew,
		"addKnown": func(t *rapid.T) { // exact duplicate of a pooled one, or a transaction seen earlier (removed / rejected / evicted)
			m.t = t
			r := m.pick(t, m.order, "known")
			if r == nil {
				t.Skip("nothing known yet")
			}
			m.doAdd(r)
		},
		"remove": func(t *rapid.T) {
			m.t = t
			from := m.pooled()
			if len(from) == 0 || rapid.IntRange(0, 4).Draw(t, "missMode") == 0 {
				from = m.order
			}
			r := m.pick(t, from, "target")
			if r == nil {
				r = m.rec(m.drawSpec(t, -1)) // never added
			}
			m.doRemove(r)
		},
		"blockApplied": func(t *rapid.T) { // generator.onNewBlock: Remove every transaction of the block
			m.t = t
			n := rapid.IntRange(1, 3).Draw(t, "blockSize")
			var blk []*txRec
			pooled := m.pooled()
			for i := 0; i < n; i++ {
				var r *txRec
				switch rapid.IntRange(0, 5).Draw(t, "blockTxMode") {
				case 0: // a transaction this node never had
					r = m.rec(m.drawSpec(t, -1))
				case 1: // something seen earlier
					r = m.pick(t, m.order, "blockKnown")
				default:
					r = m.pick(t, pooled, "blockPooled")
				}
				if r == nil {
					r = m.rec(m.drawSpec(t, -1))
				}
				blk = append(blk, r)
			}
			m.hist = append(m.hist, fmt.Sprintf("block applied (%d txs):", len(blk)))
			for _, r := range blk {
				m.doRemove(r)
			}
			m.blk = append(m.blk, blk)
			m.flags["block:applied"] = true
		},
		"blockReverted": func(t *rapid.T) { // generator.onDeleteBlock: Add every transaction of the block back
			m.t = t
			if len(m.blk) == 0 {
				t.Skip("no block to revert")
			}
			blk := m.blk[len(m.blk)-1]
			m.blk = m.blk[:len(m.blk)-1]
			m.hist = append(m.hist, fmt.Sprintf("block reverted (%d txs):", len(blk)))
			for _, r := range blk {
				m.doAdd(r)
			}
			m.flags["block:reverted"] = true
		},
		"reorg1": reorg, "reorg2": reorg, "reorg3": reorg,
		"reorgMid": func(t *rapid.T) {
			m.t = t
			pooled := m.pooled()
			if len(pooled) == 0 {
				t.Skip("empty pool")
			}
			// prefer senders whose pass will do something: some processable and some unprocessable transactions
			var busy []*txRec
			for _, r := range pooled {
				if l := m.prev.listOf[r.addr]; l != nil && len(l.Processables) > 0 && len(l.Processables) < len(l.Transactions) {
					busy = append(busy, r)
				}
			}
			from := pooled
			if len(busy) > 0 && rapid.IntRange(0, 3).Draw(t, "busySender") > 0 {
				from = busy
			}
			trig := m.pick(t, from, "trigger")
			mid := &midOp{trigger: trig.id}
			var same []*txRec
			for _, r := range pooled {
				if r.addr == trig.addr {
					same = append(same, r)
				}
			}
			if rapid.IntRange(0, 2).Draw(t, "midKind") == 0 {
				mid.add = true
				mid.tx = m.rec(m.drawSpec(t, trig.spec.Sender))
			} else {
				mid.tx = m.pick(t, same, "midTarget")
			}
			m.doReorgMid(mid)
		},
		"setAnswer": func(t *rapid.T) {
			m.t = t
			from := m.pooled()
			if len(from) == 0 || rapid.IntRange(0, 3).Draw(t, "anyTx") == 0 {
				from = m.order
			}
			r := m.pick(t, from, "answerFor")
			if r == nil {
				r = m.rec(m.drawSpec(t, -1))
			}
			a := rapid.SampledFrom([]int{ansOK, ansOK, ansPending, ansPending, ansInvalid, ansInvalid, ansErr}).Draw(t, "answer")
			m.setAnswer(r, a)
		},
	}
}

// TestPoolStateMachine: the main search.
func TestPoolStateMachine(t *testing.T) {
	avoid := avoidance()
	rapid.Check(t, func(t *rapid.T) {
		c := drawCfg(t)
		nS := rapid.IntRange(3, 4).Draw(t, "senders")
		m := newMachine(t, c, nS, avoid)
		t.Repeat(m.actions())
		m.register("history")
	})
}
