// Package c14 checks property C14 of lisk-engine: the transaction pool keeps its indexes consistent, bounded and live.
//
// A rapid state machine drives a real txpool.TransactionPool (mock connection, scripted verifier) through histories of
// Add / Remove / block-applied / block-reverted / promotion passes (optionally with an operation interleaved into the pass) /
// verifier answer changes, and evaluates invariants I1–I5 (DESIGN §4 C14) after every single pool call; every call runs under a
// watchdog that reports a deadlock only on positive evidence from a goroutine dump.
//
// Extension "collaborator faults and event subscribers" (faults_test.go, subs_test.go, mockConn in support_test.go): the connection
// fails Publish for drawn Adds, the verifier answers slowly or changes its answer between consultations, histories have 0-3
// subscribers of the pool's events that drain only or call back into the pool (Get / GetAll / GetProcessable / Remove), transactions
// also arrive through the gossip validator + handler the pool registered (single and several per watched call, malformed payloads),
// peers send getTransactions requests through the registered RPC handler, and every history ends with End().
package c14

import (
	"fmt"
	"runtime"
	"sort"
	"strings"
	"sync"
	"testing"
	"time"

	"github.com/LiskHQ/lisk-engine/pkg/txpool"
	"pgregory.net/rapid"

	"verifharness/evid"
)

func TestMain(m *testing.M) { evid.Main(m, "C14") }

// signatures of the known findings (narrow: each names the operation and the shape of the state it needs)
const (
	sigDeadlock   = "deadlock:Add:pool-full"
	sigBound      = "bound:pool-size:max+1"
	sigStaleRepl  = "stale:allTransactions:after-replacement"
	sigStaleEvict = "stale:allTransactions:after-account-eviction"
	sigPending    = "promote:pending-as-ok"
	sigReorgGap   = "gap:processables:change-during-promotion"
)

var allSigs = []string{sigDeadlock, sigBound, sigStaleRepl, sigStaleEvict, sigPending, sigReorgGap}

type failer interface {
	Fatalf(format string, args ...any)
}

// recFailer records instead of failing (used by the defect probes).
type recFailer struct{ msgs []string }

func (r *recFailer) Fatalf(f string, a ...any) { r.msgs = append(r.msgs, fmt.Sprintf(f, a...)) }

type midOp struct {
	add     bool
	tx      *txRec
	trigger string // fire when the verifier is asked about this transaction during the pass
	fired   bool
	blocked bool
	ret     bool
	h       *guardH
}

type stepCtx struct {
	// add | remove | reorg | reorgmid | bulk (= full evaluation after a run of light steps, large-scale histories)
	// announce (one gossip announcement through the registered validator + handler) | burst (several announcements in one watched
	// call) | rpc (getTransactions request through the registered RPC handler)
	kind string
	tx   *txRec
	ret  bool
	mid  *midOp
	// collaborator faults: fault = the connection was told to fail the Publish of this call; pubFailed / published = Publish calls
	// that really happened during the call (an Add rejected earlier never reaches Publish)
	fault     bool
	pubFailed int
	published int
	// announce / burst / rpc
	txs       []*txRec
	faults    []bool
	malformed string // announce: kind of malformed payload ("" = the encoding of tx)
	payload   []byte
	delivered bool // announce: the validator accepted the message, the handler ran
	rpcDesc   string
	rpcOut    *rpcWriter
	// light steps only: Get(id) immediately before / after the call (same watched call)
	lb, la bool
	// bulk only: what the light steps since the last full evaluation did
	bulkAdds, bulkRemoves int
}

func (c *stepCtx) faultNote() string {
	switch {
	case c.fault && c.pubFailed > 0:
		return " [Publish failed]"
	case c.fault:
		return " [Publish armed to fail, not reached]"
	}
	return ""
}

func (c *stepCtx) String() string {
	switch c.kind {
	case "add":
		return fmt.Sprintf("Add(%s)=%v%s", c.tx.spec, c.ret, c.faultNote())
	case "announce":
		if c.malformed != "" {
			return fmt.Sprintf("Announce(malformed %s, %d bytes) delivered=%v", c.malformed, len(c.payload), c.delivered)
		}
		return fmt.Sprintf("Announce(%s)%s", c.tx.spec, c.faultNote())
	case "burst":
		var l []string
		for i, r := range c.txs {
			f := ""
			if c.faults[i] {
				f = "!"
			}
			l = append(l, r.spec.String()+f)
		}
		return fmt.Sprintf("AnnounceBurst(%s) [! = Publish armed to fail; %d Publish calls failed, %d succeeded]", strings.Join(l, ", "), c.pubFailed, c.published)
	case "rpc":
		if c.rpcOut != nil {
			return fmt.Sprintf("GetTransactionsRPC(%s) -> %d writes, %d bytes", c.rpcDesc, c.rpcOut.writes, len(c.rpcOut.data))
		}
		return fmt.Sprintf("GetTransactionsRPC(%s)", c.rpcDesc)
	case "remove":
		return fmt.Sprintf("Remove(%s)=%v", c.tx.spec, c.ret)
	case "bulk":
		return fmt.Sprintf("state after the last %d Add and %d Remove calls", c.bulkAdds, c.bulkRemoves)
	case "end":
		return "End()"
	case "reorgmid":
		op := "Remove"
		if c.mid.add {
			op = "Add"
		}
		return fmt.Sprintf("Reorg{when verifying %s: %s(%s)=%v fired=%v blocked=%v}", short(c.mid.trigger), op, c.mid.tx.spec, c.mid.ret, c.mid.fired, c.mid.blocked)
	}
	return "Reorg()"
}

// addInfo: the Add performed in this step (directly or interleaved), if any.
func (c *stepCtx) addInfo() (*txRec, bool, bool) {
	if c.kind == "add" {
		return c.tx, c.ret, true
	}
	if c.kind == "reorgmid" && c.mid.add && c.mid.fired {
		return c.mid.tx, c.mid.ret, true
	}
	return nil, false, false
}

type machine struct {
	t    failer
	cfg  cfgT
	nS   int
	pool *txpool.TransactionPool
	conn *mockConn
	ver  *verifier
	prev *snap
	// event subscribers of the current pool (kinds are fixed per history; a fresh pool gets new subscribers of the same kinds)
	subKinds []subKind
	subs     *subGroup
	// unc: IDs a Remove-subscriber has set out to remove since the last full evaluation. Such a transaction may leave the pool at any
	// moment, independently of the calls of the history: what the recorded state says about it is not relied upon.
	unc   map[string]bool
	fresh map[string]bool // intents taken during the evaluation in progress (carried into the next one, see evaluate)
	ended bool
	recs  map[txSpec]*txRec
	byID  map[string]*txRec
	order []*txRec // universe in creation order
	blk   [][]*txRec
	hist  []string
	avoid map[string]bool
	// tolerate: signatures whose violations are recorded but do not end the pool's life (probes that must get past one defect
	// to reach another)
	tolerate map[string]bool

	stopped   bool
	present   map[string]bool // signatures of violations seen (known or not)
	abandoned int
	flags     map[string]bool // classification of the history
	steps     int

	// large-scale histories (scale_test.go)
	probeFn func() []string // IDs to probe with Get after a call (nil: every transaction ever built)
	light   bool            // Add/Remove steps are evaluated by Get before/after only; sync() does the full evaluation
	dirty   stepCtx         // light steps since the last full evaluation
}

func newMachine(t failer, c cfgT, nS int, avoid map[string]bool) *machine {
	m := &machine{t: t, cfg: c, nS: nS, ver: newVerifier(), recs: map[txSpec]*txRec{}, byID: map[string]*txRec{}, avoid: avoid,
		present: map[string]bool{}, flags: map[string]bool{}}
	if m.avoid == nil {
		m.avoid = map[string]bool{}
	}
	resetSubRegistry()
	m.pool, m.conn = newPoolConn(c, m.ver)
	m.subs = &subGroup{}
	m.prev = emptySnap()
	m.hist = append(m.hist, c.String())
	return m
}

// subscribe gives the pool its event subscribers (call before the first operation).
func (m *machine) subscribe(kinds []subKind) {
	m.subKinds = kinds
	m.subs = &subGroup{}
	var names []string
	for _, k := range kinds {
		m.subs.subs = append(m.subs.subs, startSubscriber(m.pool, k))
		names = append(names, k.String())
		m.flags["sub:topic:"+k.Topic] = true
		m.flags["sub:callback:"+k.CB] = true
		if k.Delay > 0 {
			m.flags["sub:with-delay"] = true
		}
	}
	m.flags[fmt.Sprintf("subscribers:%d", len(kinds))] = true
	if len(kinds) > 0 {
		m.hist = append(m.hist, "subscribers: "+strings.Join(names, " "))
	}
}

// finish ends the history: the subscribers finish what they are doing, End() closes their channels, they leave their loops.
// All of it under the watchdog (End takes the event emitter's lock, which a blocked publication would hold).
func (m *machine) finish() {
	if m.stopped || m.ended {
		return
	}
	m.ended = true
	m.sync()
	if m.stopped {
		return
	}
	pool, subs := m.pool, m.subs
	// The subscribers are only waited for when one of them changes the pool or visibly holds an unfinished message (waiting costs a
	// scheduling round trip per history, milliseconds on a loaded machine); otherwise they leave on their own once End() has closed
	// their channels. A subscriber stuck in the pool shows in the calls of the history itself (it holds or awaits the pool's lock).
	wait := subs.mutating() || subs.busy()
	st, dump := guard(func() {
		pool.End()
		if wait {
			subs.waitExit()
		}
	})
	ctx := &stepCtx{kind: "end"}
	m.hist = append(m.hist, ctx.String())
	var vs []viol
	switch st {
	case callDeadlock:
		vs = append(vs, viol{"live:deadlock", "", "End() / the subscribers never finish; goroutines inside the pool (all parked):\n" + dump})
	case callPanic:
		vs = append(vs, viol{"panic", "", dump})
	case callTimeout:
		evid.R.Inconclusive("end of history (subscribers idle, End, subscribers gone) did not finish within %s without deadlock evidence", wdLimit)
	}
	for _, p := range subs.takePanics() {
		vs = append(vs, viol{"panic-subscriber", "", p})
	}
	unregisterSubs(subs.subs)
	if n := subs.events(); n > 0 {
		m.flags["sub:events-delivered"] = true
		evid.R.Label("events-delivered", int64(n))
	}
	if subs.removedOK() > 0 {
		m.flags["sub:removed-by-subscriber"] = true
	}
	if len(vs) > 0 {
		m.handle(vs, ctx, nil)
	}
}

func (m *machine) rec(sp txSpec) *txRec {
	if r, ok := m.recs[sp]; ok {
		return r
	}
	r := buildTx(sp)
	m.recs[sp] = r
	m.byID[r.id] = r
	m.order = append(m.order, r)
	return r
}

func (m *machine) freshPool(why string) {
	m.abandoned++
	m.hist = append(m.hist, "-- pool abandoned ("+why+"), fresh pool --")
	unregisterSubs(m.subs.subs) // leaked with their pool
	m.unc = nil
	m.fresh = nil
	m.pool, m.conn = newPoolConn(m.cfg, m.ver)
	m.subs = &subGroup{}
	for _, k := range m.subKinds {
		m.subs.subs = append(m.subs.subs, startSubscriber(m.pool, k))
	}
	m.prev = emptySnap()
}

func (m *machine) probeIDs() []string {
	if m.probeFn != nil {
		return m.probeFn()
	}
	ids := make([]string, 0, len(m.order)+1)
	for _, r := range m.order {
		ids = append(ids, r.id)
	}
	ids = append(ids, "unknown-id")
	return ids
}

func (m *machine) pooled() []*txRec {
	var out []*txRec
	for _, r := range m.order {
		if _, ok := m.prev.raw.All[r.id]; ok {
			out = append(out, r)
		}
	}
	return out
}

func maxNonce(l *txpool.VerifSenderList) (uint64, bool) {
	var mx uint64
	ok := false
	for n := range l.Transactions {
		if !ok || n > mx {
			mx, ok = n, true
		}
	}
	return mx, ok
}

// avoidAdd: does adding r in the current state pull the trigger of a known finding? (generator avoidance, DESIGN §1.6)
func (m *machine) avoidAdd(r *txRec) string {
	p := m.prev
	if _, dup := p.raw.All[r.id]; dup {
		return ""
	}
	if (m.avoid[sigDeadlock] || m.avoid[sigBound]) && len(p.raw.All) >= m.cfg.Max {
		return "pool-full"
	}
	if x, ok := p.slot[slotKey{r.addr, r.tx.Nonce}]; ok {
		if m.avoid[sigStaleRepl] && x != r.id && r.tx.Fee >= p.raw.All[x].Fee+m.cfg.Diff {
			return "replacement"
		}
		return ""
	}
	if l := p.listOf[r.addr]; l != nil && m.avoid[sigStaleEvict] && len(l.Transactions) >= m.cfg.PerAcc {
		if mx, ok := maxNonce(l); ok && r.tx.Nonce < mx {
			return "account-eviction"
		}
	}
	return ""
}

// avoidMid: with the promotion-pass finding present an interleaved operation must not touch nonces at or below the highest
// processable nonce of its sender.
func (m *machine) avoidMid(mid *midOp) string {
	if mid.add {
		if why := m.avoidAdd(mid.tx); why != "" {
			return why
		}
	}
	if !m.avoid[sigReorgGap] {
		return ""
	}
	if l := m.prev.listOf[mid.tx.addr]; l != nil && len(l.Processables) > 0 {
		hi := l.Processables[len(l.Processables)-1]
		if mid.tx.tx.Nonce <= hi {
			return "touches-processable"
		}
		if mid.add && len(l.Transactions) >= m.cfg.PerAcc {
			return "touches-processable"
		}
	}
	if mid.add && len(m.prev.raw.All) >= m.cfg.Max {
		return "touches-processable"
	}
	return ""
}

func (m *machine) anyPendingPooled() bool {
	for id := range m.prev.raw.All {
		if m.ver.get(id) == ansPending {
			return true
		}
	}
	return false
}

// ---------------------------------------------------------------------------------------------------------------
// operations (each = one watched pool call followed by the full invariant evaluation)

func (m *machine) doAdd(r *txRec) { m.doAddF(r, false) }

// doAddF: Add; with fault the connection fails the Publish of this call (if the Add gets that far).
func (m *machine) doAddF(r *txRec, fault bool) {
	if m.stopped {
		return
	}
	if why := m.avoidAdd(r); why != "" {
		evid.R.Excluded(1)
		evid.R.Label("avoided:add:"+why, 1)
		return
	}
	ctx := &stepCtx{kind: "add", tx: r, fault: fault}
	pool, conn := m.pool, m.conn
	arm := func() {
		if fault {
			conn.armFailures(1)
		} else {
			conn.armFailures(0)
		}
	}
	if m.light {
		m.lightStep(ctx, func() {
			arm()
			_, ctx.lb = pool.Get(r.tx.ID)
			ctx.ret = pool.Add(r.tx)
			_, ctx.la = pool.Get(r.tx.ID)
		})
		return
	}
	m.step(ctx, func() {
		arm()
		ctx.ret = pool.Add(r.tx)
	})
}

// doAnnounce: the transaction arrives as a gossip announcement (validator, then onTransactionAnnoucement: verifier, Add, event for
// the subscribers). malformed != "" sends payload instead of the encoding of r (r may be nil then).
func (m *machine) doAnnounce(r *txRec, fault bool, malformed string, payload []byte) {
	if m.stopped {
		return
	}
	if r != nil && malformed == "" {
		if why := m.avoidAdd(r); why != "" {
			evid.R.Excluded(1)
			evid.R.Label("avoided:add:"+why, 1)
			return
		}
		payload = r.tx.Bytes()
	}
	ctx := &stepCtx{kind: "announce", tx: r, fault: fault, malformed: malformed, payload: payload}
	pool, conn := m.pool, m.conn
	call := func() {
		if fault {
			conn.armFailures(1)
		} else {
			conn.armFailures(0)
		}
		ctx.delivered = conn.announce(payload)
	}
	if m.light && r != nil && malformed == "" {
		m.lightStep(ctx, func() {
			_, ctx.lb = pool.Get(r.tx.ID)
			call()
			_, ctx.la = pool.Get(r.tx.ID)
		})
		return
	}
	m.step(ctx, call)
}

// doBurst: several announcements back to back in one watched call (gossip delivers them like that); the subscribers are still busy
// with the previous event when the next one is published.
func (m *machine) doBurst(rs []*txRec, faults []bool) {
	if m.stopped {
		return
	}
	var txs []*txRec
	var fl []bool
	for i, r := range rs {
		if why := m.avoidAdd(r); why != "" || len(m.avoid) > 0 { // (known findings present: the avoidance rules need the state before every call)
			evid.R.Excluded(1)
			evid.R.Label("avoided:add:burst", 1)
			continue
		}
		txs = append(txs, r)
		fl = append(fl, faults[i])
	}
	if len(txs) == 0 {
		return
	}
	ctx := &stepCtx{kind: "burst", txs: txs, faults: fl}
	conn := m.conn
	payloads := make([][]byte, len(txs))
	for i, r := range txs {
		payloads[i] = r.tx.Bytes()
	}
	m.step(ctx, func() {
		for i := range txs {
			if fl[i] {
				conn.armFailures(1)
			} else {
				conn.armFailures(0)
			}
			conn.announce(payloads[i])
		}
	})
}

// doRPC: a peer's getTransactions request through the handler the pool registered.
func (m *machine) doRPC(desc string, data []byte) {
	if m.stopped {
		return
	}
	ctx := &stepCtx{kind: "rpc", rpcDesc: desc}
	conn := m.conn
	m.step(ctx, func() { ctx.rpcOut = conn.getTransactions(data) })
}

func (m *machine) doRemove(r *txRec) {
	if m.stopped {
		return
	}
	ctx := &stepCtx{kind: "remove", tx: r}
	if m.light {
		m.lightStep(ctx, func() {
			_, ctx.lb = m.pool.Get(r.tx.ID)
			ctx.ret = m.pool.Remove(r.tx.ID)
			_, ctx.la = m.pool.Get(r.tx.ID)
		})
		return
	}
	m.step(ctx, func() { ctx.ret = m.pool.Remove(r.tx.ID) })
}

// lightStep: one watched Add / Remove whose result is judged by Get(id) immediately before and after it (I5 / Remove result);
// everything else (I1-I4, getters) is evaluated by the next sync(). Used by the bulk phases of the large-scale histories only, and
// only on a tree without known findings (the avoidance rules need the exact state before every call).
func (m *machine) lightStep(ctx *stepCtx, call func()) {
	m.steps++
	if m.dirty.bulkAdds+m.dirty.bulkRemoves == 0 {
		m.ver.resetCalls()
	}
	st, dump := guard(call)
	ctx.published, ctx.pubFailed = m.conn.takeCounts()
	m.pullIntents()
	removedBySub := m.unc
	m.hist = append(m.hist, ctx.String())
	var vs []viol
	switch st {
	case callDeadlock:
		vs = append(vs, viol{"live:deadlock", "", "the call never returns; goroutines inside the pool (all parked: on its locks, or in an event send that no subscriber can take):\n" + dump})
	case callPanic:
		vs = append(vs, viol{"panic", "", dump})
	case callTimeout:
		evid.R.Inconclusive("call %s did not return within %s without deadlock evidence; pool abandoned", ctx, wdLimit)
		m.dirty = stepCtx{}
		m.freshPool("timeout without evidence")
		return
	default:
		r := ctx.tx
		if ctx.kind == "announce" {
			m.dirty.bulkAdds++
			m.noteFault(ctx, nil)
			m.flags["announce:handled"] = true
		} else if ctx.kind == "add" {
			m.dirty.bulkAdds++
			// (a transaction a Remove-subscriber took out again is not expected to be found)
			if ctx.ret && !ctx.la && !removedBySub[r.id] {
				vs = append(vs, viol{"I5:add-true-absent", r.id, fmt.Sprintf("Add returned true but Get does not find %s", r.spec)})
			}
			// (after a failed Publish the statement does not fix the return value: pooled with "false" is the unchanged tree's answer)
			if !ctx.ret && !ctx.lb && ctx.la && ctx.pubFailed == 0 {
				vs = append(vs, viol{"I5:add-false-present", r.id, fmt.Sprintf("Add returned false but %s is pooled now", r.spec)})
			}
			m.noteFault(ctx, nil)
			if ctx.ret {
				m.flags["add:accepted"] = true
			} else {
				m.flags["add:rejected"] = true
			}
		} else {
			m.dirty.bulkRemoves++
			if ctx.la {
				vs = append(vs, viol{"op:remove-still-pooled", r.id, fmt.Sprintf("%s is still pooled after Remove (returned %v)", r.spec, ctx.ret)})
			}
			if ctx.ret != ctx.lb && !removedBySub[r.id] { // (a Remove-subscriber may have been faster)
				vs = append(vs, viol{"op:remove-result", r.id, fmt.Sprintf("Remove(%s) returned %v, pooled before: %v", r.spec, ctx.ret, ctx.lb)})
			}
			if ctx.ret {
				m.flags["remove:hit"] = true
			} else {
				m.flags["remove:miss"] = true
			}
		}
	}
	if len(vs) > 0 {
		m.dirty = stepCtx{}
		m.handle(vs, ctx, nil)
	}
}

// sync evaluates the full invariant set on the state reached by the light steps since the last full evaluation.
func (m *machine) sync() {
	if m.stopped || m.dirty.bulkAdds+m.dirty.bulkRemoves == 0 {
		return
	}
	ctx := &stepCtx{kind: "bulk", bulkAdds: m.dirty.bulkAdds, bulkRemoves: m.dirty.bulkRemoves}
	m.dirty = stepCtx{}
	m.evaluate(ctx, callOK, "")
}

func (m *machine) doReorg() {
	if m.stopped {
		return
	}
	if m.avoid[sigPending] && m.anyPendingPooled() {
		evid.R.Excluded(1)
		evid.R.Label("avoided:reorg:pending-answer", 1)
		return
	}
	ctx := &stepCtx{kind: "reorg"}
	m.step(ctx, func() { m.pool.VerifReorg() })
}

// doReorgMid runs a promotion pass and, at the moment the pass asks the verifier about mid.trigger, performs mid (Add or Remove)
// from another goroutine; the verifier answers only after that operation returned (or after 150 ms if the pool makes it wait).
func (m *machine) doReorgMid(mid *midOp) {
	if m.stopped {
		return
	}
	if m.avoid[sigPending] && (m.anyPendingPooled() || (mid.add && m.ver.get(mid.tx.id) == ansPending)) {
		evid.R.Excluded(1)
		evid.R.Label("avoided:reorg:pending-answer", 1)
		return
	}
	if why := m.avoidMid(mid); why != "" {
		evid.R.Excluded(1)
		evid.R.Label("avoided:mid:"+why, 1)
		return
	}
	ctx := &stepCtx{kind: "reorgmid", mid: mid}
	var once sync.Once
	pool := m.pool
	m.ver.setHook(func(id string) {
		if id != mid.trigger {
			return
		}
		once.Do(func() {
			mid.fired = true
			mid.h = startGuard(func() {
				if mid.add {
					mid.ret = pool.Add(mid.tx.tx)
				} else {
					mid.ret = pool.Remove(mid.tx.tx.ID)
				}
			})
			select {
			case <-mid.h.done:
			case <-time.After(150 * time.Millisecond):
				mid.blocked = true
			}
		})
	})
	m.step(ctx, func() { pool.VerifReorg() })
}

func (m *machine) setAnswer(r *txRec, a int) {
	if m.stopped {
		return
	}
	m.ver.set(r.id, a)
	m.hist = append(m.hist, fmt.Sprintf("verifier[%s]=%s", r.spec, ansNames[a]))
}

func (m *machine) step(ctx *stepCtx, call func()) {
	m.sync()
	if m.stopped {
		return
	}
	m.steps++
	m.ver.resetCalls()
	st, dump := guard(call)
	m.ver.setHook(nil)
	if ctx.mid != nil && ctx.mid.h != nil && st == callOK {
		st, dump = ctx.mid.h.wait()
	}
	ctx.published, ctx.pubFailed = m.conn.takeCounts()
	m.hist = append(m.hist, ctx.String())
	m.evaluate(ctx, st, dump)
}

// pullIntents merges what the Remove-subscribers have set out to remove into m.unc.
func (m *machine) pullIntents() {
	for id := range m.subs.takeIntents() {
		if m.unc == nil {
			m.unc = map[string]bool{}
		}
		m.unc[id] = true
		if m.fresh == nil {
			m.fresh = map[string]bool{}
		}
		m.fresh[id] = true
	}
}

// noteFault classifies a failed Publish by the situation of the Add it hit (labels; judged on the last evaluated state).
func (m *machine) noteFault(ctx *stepCtx, s *snap) {
	if !ctx.fault {
		return
	}
	if ctx.pubFailed == 0 {
		m.flags["fault:publish:armed-not-reached"] = true
		return
	}
	m.flags["fault:publish:failed"] = true
	if ctx.kind == "announce" || ctx.kind == "burst" {
		m.flags["fault:publish:via-announcement"] = true
	}
	p := m.prev
	for i, r := range append([]*txRec{ctx.tx}, ctx.txs...) {
		if r == nil || (i > 0 && !ctx.faults[i-1]) {
			continue
		}
		l := p.listOf[r.addr]
		x, occupied := p.slot[slotKey{r.addr, r.tx.Nonce}]
		switch {
		case l == nil:
			m.flags["fault:publish:first-tx-of-sender"] = true
		case occupied && x != r.id:
			m.flags["fault:publish:replacement"] = true
		case !occupied && len(l.Transactions) >= m.cfg.PerAcc:
			m.flags["fault:publish:sender-list-full"] = true
		default:
			m.flags["fault:publish:fresh-slot"] = true
		}
		if len(p.raw.All) >= m.cfg.Max {
			m.flags["fault:publish:into-full-pool"] = true
		}
		if s != nil {
			if _, in := s.raw.All[r.id]; in {
				m.flags["fault:publish:pooled-afterwards"] = true
			} else {
				m.flags["fault:publish:not-pooled-afterwards"] = true
			}
		}
	}
}

// evaluate: the full invariant evaluation after a call that ended with watchdog status st.
func (m *machine) evaluate(ctx *stepCtx, st int, dump string) {
	var vs []viol
	switch st {
	case callDeadlock:
		vs = append(vs, viol{"live:deadlock", "", "the call never returns; goroutines inside the pool (all parked: on its locks, or in an event send that no subscriber can take):\n" + dump})
	case callPanic:
		vs = append(vs, viol{"panic", "", dump})
	case callTimeout:
		evid.R.Inconclusive("call %s did not return within %s without deadlock evidence; pool abandoned", ctx, wdLimit)
		m.freshPool("timeout without evidence")
		return
	}
	for _, p := range m.subs.takePanics() {
		vs = append(vs, viol{"panic-subscriber", "", p})
	}
	var s *snap
	if st == callOK {
		// With Remove-subscribers the observation (snapshot + getters, several pool calls) is only used if no such Remove was under
		// way while it was taken; otherwise it is taken again. (Subscribers that only read are never waited for.)
		var o *observation
		var st2 int
		var dump2 string
		probe := m.probeIDs()
		forced := false
		for t0 := time.Now(); ; {
			i0, d0 := m.subs.removalState()
			// a subscriber's Remove that does not come back for 200 ms: observe all the same - if the pool is deadlocked the watched
			// getters hang too and the goroutine dump decides; if they return the Remove is merely slow and the loop goes on
			force := i0 != d0 && !forced && time.Since(t0) > 200*time.Millisecond
			if i0 == d0 || force {
				forced = forced || force
				o, st2, dump2 = observe(m.pool, probe)
				i1, _ := m.subs.removalState()
				if st2 != callOK || (i0 == d0 && i1 == i0) {
					break
				}
				evid.R.Label("observation-repeated:subscriber-remove-under-way", 1)
			}
			switch el := time.Since(t0); {
			case el > wdLimit:
				evid.R.Inconclusive("no observation without a subscriber's Remove under way within %s after %s", wdLimit, ctx)
				m.freshPool("no quiet observation")
				return
			case el > 2*time.Millisecond:
				time.Sleep(200 * time.Microsecond)
			default:
				runtime.Gosched()
			}
		}
		m.pullIntents()
		switch st2 {
		case callDeadlock:
			vs = append(vs, viol{"live:deadlock-getters", "", "after " + ctx.String() + " the getters never return:\n" + dump2})
		case callPanic:
			vs = append(vs, viol{"panic-getters", "", dump2})
		case callTimeout:
			evid.R.Inconclusive("getters after %s did not return within %s without deadlock evidence; pool abandoned", ctx, wdLimit)
			m.freshPool("timeout without evidence")
			return
		default:
			var v1 []viol
			s, v1 = analyze(o.raw, m.cfg)
			vs = append(vs, v1...)
			vs = append(vs, checkGetters(o, s)...)
			vs = append(vs, m.contextChecks(ctx, s)...)
		}
	}
	if len(vs) > 0 {
		m.handle(vs, ctx, s)
		return
	}
	m.track(ctx, s)
	m.prev = s
	// An intent taken in THIS evaluation may have been registered after the observation above was made (the subscriber was
	// descheduled or still busy with its own work when the pool looked quiet): its Remove is then not reflected in s, the
	// recorded state is out of date about that transaction, and the NEXT call's result must still be judged with the transaction
	// marked uncertain. The next evaluation's observation waits for that Remove to finish, so one more step is enough.
	// (False alarm found by `vp check` at VERIF_SEED=1 on a cold, oversubscribed machine - "Remove(..)=false, pooled before: true" -
	// reproduced 1 in 40 runs with 40 copies of the shard running at once; see DESIGN 9.4.)
	m.unc = m.fresh
	m.fresh = nil
}

// contextChecks: the history-dependent parts of I3, I4, I5.
func (m *machine) contextChecks(ctx *stepCtx, s *snap) []viol {
	var vs []viol
	add := func(kind, id, f string, a ...any) { vs = append(vs, viol{kind, id, fmt.Sprintf(f, a...)}) }
	p := m.prev
	// I4: whoever became processable in this step was answered "ok" by the verifier in this step
	last := map[string]int{}
	asked := map[string]bool{}
	for _, c := range m.ver.takeCalls() {
		last[c.id] = c.ans
		asked[c.id] = true
	}
	var newProc []string
	for id := range s.proc {
		if !p.proc[id] {
			newProc = append(newProc, id)
		}
	}
	sort.Strings(newProc)
	for _, id := range newProc {
		if !asked[id] {
			add("I4:unverified:not-asked", id, "%s became processable without the verifier being asked about it", m.name(id))
		} else if last[id] != ansOK {
			add("I4:unverified:"+ansNames[last[id]], id, "%s became processable although the verifier answered %q", m.name(id), ansNames[last[id]])
		}
	}
	switch ctx.kind {
	case "add", "announce":
		r := ctx.tx
		if r == nil || ctx.malformed != "" {
			break
		}
		_, before := p.raw.All[r.id]
		_, after := s.raw.All[r.id]
		if ctx.kind == "add" {
			// (a transaction a Remove-subscriber took out again is not expected to be pooled)
			if ctx.ret && !after && !m.unc[r.id] {
				add("I5:add-true-absent", r.id, "Add returned true but %s is not pooled", r.spec)
			}
			// After a failed Publish the statement does not fix the return value: the unchanged tree keeps the transaction pooled
			// everywhere and answers false. Pooled everywhere or nowhere - that is what I1 decides on the snapshot.
			if !ctx.ret && !before && after && ctx.pubFailed == 0 {
				add("I5:add-false-present", r.id, "Add returned false but %s is pooled now", r.spec)
			}
		}
		// I3: replacement rule. Only judged when the pool was not full before (else the old one may have been evicted for room).
		// (nor when a Remove-subscriber was after the old one: it may have left before this transaction arrived)
		if x, ok := p.slot[slotKey{r.addr, r.tx.Nonce}]; ok && x != r.id && after && len(p.raw.All) < m.cfg.Max && !m.unc[x] {
			if _, still := s.raw.All[x]; !still {
				old := p.raw.All[x]
				if r.tx.Fee < old.Fee+m.cfg.Diff {
					add("I3:replacement-fee", r.id, "%s (fee %d) replaced %s (fee %d) although the required increase is %d", r.spec, r.tx.Fee, m.name(x), old.Fee, m.cfg.Diff)
				}
			}
		}
	case "remove":
		r := ctx.tx
		_, before := p.raw.All[r.id]
		_, after := s.raw.All[r.id]
		if after {
			add("op:remove-still-pooled", r.id, "%s is still pooled after Remove (returned %v)", r.spec, ctx.ret)
		}
		if ctx.ret != before && !m.unc[r.id] { // (a Remove-subscriber may have been faster, or the recorded state is out of date about it)
			add("op:remove-result", r.id, "Remove(%s) returned %v, pooled before: %v", r.spec, ctx.ret, before)
		}
	}
	return vs
}

func (m *machine) name(id string) string {
	if r, ok := m.byID[id]; ok {
		return r.spec.String()
	}
	return short(id)
}

// signature maps one violation (with the step that produced it) to a known-finding signature, "" if it has none.
func (m *machine) signature(v viol, ctx *stepCtx, s *snap) string {
	p := m.prev
	atx, aret, isAdd := ctx.addInfo()
	switch v.kind {
	case "live:deadlock":
		if isAdd && len(p.raw.All) >= m.cfg.Max && strings.Contains(v.msg, "(*TransactionPool).Add") &&
			(strings.Contains(v.msg, "(*TransactionPool).evict") || strings.Contains(v.msg, "(*TransactionPool).remove")) {
			return sigDeadlock
		}
	case "I2:pool-size":
		if isAdd && aret && s != nil && len(p.raw.All) == m.cfg.Max && len(s.raw.All) == m.cfg.Max+1 {
			return sigBound
		}
	case "I1:stale":
		if !isAdd || !aret {
			return ""
		}
		if x, ok := p.slot[slotKey{atx.addr, atx.tx.Nonce}]; ok {
			if x == v.id && x != atx.id {
				return sigStaleRepl
			}
			return ""
		}
		if l := p.listOf[atx.addr]; l != nil && len(l.Transactions) >= m.cfg.PerAcc {
			if mx, ok := maxNonce(l); ok && atx.tx.Nonce < mx && string(l.Transactions[mx].ID) == v.id {
				return sigStaleEvict
			}
		}
	case "I4:unverified:pending":
		if ctx.kind == "reorg" || ctx.kind == "reorgmid" {
			return sigPending
		}
	case "I4:gap":
		if ctx.kind == "reorgmid" && ctx.mid.fired {
			return sigReorgGap
		}
	}
	return ""
}

func (m *machine) handle(vs []viol, ctx *stepCtx, s *snap) {
	var unknown []string
	known := map[string]bool{}
	for _, v := range vs {
		sig := m.signature(v, ctx, s)
		if sig != "" {
			m.present[sig] = true
		}
		if sig != "" && listedKnown(sig, true) {
			known[sig] = true
			continue
		}
		if sig != "" {
			unknown = append(unknown, v.String()+"   [signature "+sig+"]")
		} else {
			unknown = append(unknown, v.String())
		}
	}
	if len(unknown) > 0 {
		m.stopped = true
		// the first line of the violation again after the history: the driver shows the tail of the output
		first := strings.SplitN(unknown[0], "\n", 2)[0]
		m.t.Fatalf("C14 violated by %s:\n  %s\nhistory (%d steps):\n  %s\nC14 violated by the last call of this history (%s): %s", ctx, strings.Join(unknown, "\n  "), m.steps,
			strings.Join(m.hist, "\n  "), ctx, first)
		return
	}
	tolerated := s != nil
	for sig := range known {
		evid.R.Label("known-hit:"+sig, 1)
		if !m.tolerate[sig] {
			tolerated = false
		}
	}
	if tolerated {
		m.hist = append(m.hist, "-- known finding tolerated, same pool continues --")
		m.prev = s
		return
	}
	m.freshPool("known finding")
}

// track classifies what the history reached (non-trivial rule and label histogram).
func (m *machine) track(ctx *stepCtx, s *snap) {
	p := m.prev
	if len(s.raw.All) >= m.cfg.Max {
		m.flags["limit:pool"] = true
	}
	for _, l := range s.listOf {
		if len(l.Transactions) >= m.cfg.PerAcc {
			m.flags["limit:sender"] = true
		}
	}
	for id := range p.proc {
		if _, pooled := s.raw.All[id]; pooled && !s.proc[id] {
			m.flags["demotion"] = true
		}
	}
	for id := range s.proc {
		if !p.proc[id] {
			m.flags["promotion"] = true
			break
		}
	}
	lost := 0
	for id := range p.raw.All {
		if _, ok := s.raw.All[id]; !ok {
			lost++
		}
	}
	if atx, aret, isAdd := ctx.addInfo(); isAdd {
		if aret {
			m.flags["add:accepted"] = true
			if x, ok := p.slot[slotKey{atx.addr, atx.tx.Nonce}]; ok && x != atx.id && s.slot[slotKey{atx.addr, atx.tx.Nonce}] == atx.id {
				m.flags["replacement"] = true
				lost--
			} else if l := p.listOf[atx.addr]; l != nil && len(l.Transactions) >= m.cfg.PerAcc && lost > 0 {
				m.flags["evict:sender"] = true
			}
			if len(p.raw.All) >= m.cfg.Max && lost > 0 {
				m.flags["evict:pool"] = true
			}
		} else {
			m.flags["add:rejected"] = true
		}
		if m.ver.get(atx.id) == ansPending && aret {
			m.flags["add:pending-accepted"] = true
		}
	}
	m.noteFault(ctx, s)
	switch ctx.kind {
	case "announce":
		switch {
		case ctx.malformed != "" && !ctx.delivered:
			m.flags["announce:malformed-rejected-by-validator"] = true
		case ctx.malformed != "":
			m.flags["announce:malformed-delivered"] = true
		default:
			_, before := p.raw.All[ctx.tx.id]
			_, after := s.raw.All[ctx.tx.id]
			switch {
			case before:
				m.flags["announce:already-pooled"] = true
			case after:
				m.flags["announce:pooled"] = true
			case m.unc[ctx.tx.id]:
				m.flags["announce:pooled-then-removed-by-subscriber"] = true
			default:
				m.flags["announce:not-pooled"] = true
			}
			if x, ok := p.slot[slotKey{ctx.tx.addr, ctx.tx.tx.Nonce}]; ok && x != ctx.tx.id && s.slot[slotKey{ctx.tx.addr, ctx.tx.tx.Nonce}] == ctx.tx.id {
				m.flags["replacement"] = true
			}
		}
	case "burst":
		m.flags["announce:burst"] = true
		got := 0
		for _, r := range ctx.txs {
			if _, in := s.raw.All[r.id]; in {
				got++
			}
		}
		if got >= 2 {
			m.flags["announce:burst:2+pooled"] = true
		}
	case "rpc":
		m.flags["rpc:"+ctx.rpcDesc] = true
		if ctx.rpcOut != nil && ctx.rpcOut.writes > 0 {
			m.flags["rpc:answered"] = true
		}
	case "remove":
		if ctx.ret {
			m.flags["remove:hit"] = true
		} else {
			m.flags["remove:miss"] = true
		}
	case "bulk": // approximate classification of a run of light steps (labels only)
		if ctx.bulkAdds > 0 && ctx.bulkRemoves == 0 && lost > 0 && m.flags["add:accepted"] {
			if len(p.raw.All) >= m.cfg.Max || len(s.raw.All) >= m.cfg.Max {
				m.flags["evict:pool"] = true
			} else {
				m.flags["evict:sender-or-replacement"] = true
			}
		}
	case "reorg", "reorgmid":
		if lost > 0 {
			m.flags["reorg:dropped-invalid"] = true
		}
		if ctx.mid != nil {
			if ctx.mid.fired {
				m.flags["mid:fired"] = true
			}
			if ctx.mid.blocked {
				m.flags["mid:blocked"] = true
			}
		}
	}
}

func (m *machine) nontrivial() bool {
	return m.flags["limit:pool"] || m.flags["limit:sender"] || m.flags["replacement"] || (m.flags["promotion"] && m.flags["demotion"])
}

func (m *machine) register(kind string) {
	m.finish()
	labels := []string{kind}
	var fl []string
	for f := range m.flags {
		fl = append(fl, f)
	}
	sort.Strings(fl)
	labels = append(labels, fl...)
	if m.nontrivial() {
		labels = append(labels, "nontrivial")
	}
	if m.abandoned > 0 {
		labels = append(labels, "pool-abandoned")
	}
	key := strings.Join(m.hist, ";")
	evid.R.Case(key, m.nontrivial(), func() any {
		return map[string]any{"kind": kind, "config": m.cfg.String(), "senders": m.nS, "history": m.hist, "reached": fl}
	}, labels...)
	evid.R.Label("pool-calls", int64(m.steps))
}

// ---------------------------------------------------------------------------------------------------------------
// generators

var fees = []uint64{0, 500, 1000, 1001, 1009, 1010, 1011, 3000, 3010, 9000}
var psizes = []int{0, 0, 40, 300}

func (m *machine) drawSpec(t *rapid.T, sender int) txSpec {
	if sender < 0 {
		sender = rapid.IntRange(0, m.nS-1).Draw(t, "sender")
	}
	addr := string(buildAddr(sender))
	var nonce uint64
	mode := rapid.IntRange(0, 4).Draw(t, "nonceMode")
	l := m.prev.listOf[addr]
	switch {
	case mode <= 1: // continue the sender's run
		if l != nil {
			if mx, ok := maxNonce(l); ok && mx < 8 {
				nonce = mx + 1
			}
		}
	case mode == 2 && l != nil && len(l.Transactions) > 0: // hit an occupied slot (duplicate / replacement attempt)
		ns := make([]uint64, 0, len(l.Transactions))
		for n := range l.Transactions {
			ns = append(ns, n)
		}
		ns = sortedU64(ns)
		nonce = ns[rapid.IntRange(0, len(ns)-1).Draw(t, "slot")]
	default:
		nonce = uint64(rapid.IntRange(0, 8).Draw(t, "nonce"))
	}
	return txSpec{
		Sender:  sender,
		Nonce:   nonce,
		Fee:     rapid.SampledFrom(fees).Draw(t, "fee"),
		PSize:   rapid.SampledFrom(psizes).Draw(t, "psize"),
		Variant: rapid.IntRange(0, 2).Draw(t, "variant"),
	}
}

var addrCache sync.Map

func buildAddr(sender int) []byte {
	if a, ok := addrCache.Load(sender); ok {
		return a.([]byte)
	}
	a := []byte(buildTx(txSpec{Sender: sender}).addr)
	addrCache.Store(sender, a)
	return a
}

func drawCfg(t *rapid.T) cfgT {
	return cfgT{
		Max:    rapid.IntRange(1, 6).Draw(t, "max"),
		PerAcc: rapid.IntRange(1, 4).Draw(t, "perAccount"),
		Diff:   rapid.SampledFrom([]uint64{1, 10}).Draw(t, "replaceDiff"),
		MinP:   rapid.SampledFrom([]uint64{0, 0, 5}).Draw(t, "minPriority"),
	}
}

func (m *machine) pick(t *rapid.T, from []*txRec, label string) *txRec {
	if len(from) == 0 {
		return nil
	}
	return from[rapid.IntRange(0, len(from)-1).Draw(t, label)]
}

func (m *machine) actions() map[string]func(*rapid.T) {
	addNew := func(t *rapid.T) {
		m.t = t
		m.doAdd(m.rec(m.drawSpec(t, -1)))
	}
	reorg := func(t *rapid.T) {
		m.t = t
		m.doReorg()
	}
	return map[string]func(*rapid.T){
		"add1": addNew, "add2": addNew, "add3": addNew, "add4": addNew,
		"addKnown": func(t *rapid.T) { // exact duplicate of a pooled one, or a transaction seen earlier (removed / rejected / evicted)
			m.t = t
			r := m.pick(t, m.order, "known")
			if r == nil {
				t.Skip("nothing known yet")
			}
			m.doAdd(r)
		},
		"remove": func(t *rapid.T) {
			m.t = t
			from := m.pooled()
			if len(from) == 0 || rapid.IntRange(0, 4).Draw(t, "missMode") == 0 {
				from = m.order
			}
			r := m.pick(t, from, "target")
			if r == nil {
				r = m.rec(m.drawSpec(t, -1)) // never added
			}
			m.doRemove(r)
		},
		"blockApplied": func(t *rapid.T) { // generator.onNewBlock: Remove every transaction of the block
			m.t = t
			n := rapid.IntRange(1, 3).Draw(t, "blockSize")
			var blk []*txRec
			pooled := m.pooled()
			for i := 0; i < n; i++ {
				var r *txRec
				switch rapid.IntRange(0, 5).Draw(t, "blockTxMode") {
				case 0: // a transaction this node never had
					r = m.rec(m.drawSpec(t, -1))
				case 1: // something seen earlier
					r = m.pick(t, m.order, "blockKnown")
				default:
					r = m.pick(t, pooled, "blockPooled")
				}
				if r == nil {
					r = m.rec(m.drawSpec(t, -1))
				}
				blk = append(blk, r)
			}
			m.hist = append(m.hist, fmt.Sprintf("block applied (%d txs):", len(blk)))
			for _, r := range blk {
				m.doRemove(r)
			}
			m.blk = append(m.blk, blk)
			m.flags["block:applied"] = true
		},
		"blockReverted": func(t *rapid.T) { // generator.onDeleteBlock: Add every transaction of the block back
			m.t = t
			if len(m.blk) == 0 {
				t.Skip("no block to revert")
			}
			blk := m.blk[len(m.blk)-1]
			m.blk = m.blk[:len(m.blk)-1]
			m.hist = append(m.hist, fmt.Sprintf("block reverted (%d txs):", len(blk)))
			for _, r := range blk {
				m.doAdd(r)
			}
			m.flags["block:reverted"] = true
		},
		"reorg1": reorg, "reorg2": reorg, "reorg3": reorg,
		"reorgMid": func(t *rapid.T) {
			m.t = t
			pooled := m.pooled()
			if len(pooled) == 0 {
				t.Skip("empty pool")
			}
			// prefer senders whose pass will do something: some processable and some unprocessable transactions
			var busy []*txRec
			for _, r := range pooled {
				if l := m.prev.listOf[r.addr]; l != nil && len(l.Processables) > 0 && len(l.Processables) < len(l.Transactions) {
					busy = append(busy, r)
				}
			}
			from := pooled
			if len(busy) > 0 && rapid.IntRange(0, 3).Draw(t, "busySender") > 0 {
				from = busy
			}
			trig := m.pick(t, from, "trigger")
			mid := &midOp{trigger: trig.id}
			var same []*txRec
			for _, r := range pooled {
				if r.addr == trig.addr {
					same = append(same, r)
				}
			}
			if rapid.IntRange(0, 2).Draw(t, "midKind") == 0 {
				mid.add = true
				mid.tx = m.rec(m.drawSpec(t, trig.spec.Sender))
			} else {
				mid.tx = m.pick(t, same, "midTarget")
			}
			m.doReorgMid(mid)
		},
		"setAnswer": func(t *rapid.T) {
			m.t = t
			from := m.pooled()
			if len(from) == 0 || rapid.IntRange(0, 3).Draw(t, "anyTx") == 0 {
				from = m.order
			}
			r := m.pick(t, from, "answerFor")
			if r == nil {
				r = m.rec(m.drawSpec(t, -1))
			}
			a := rapid.SampledFrom([]int{ansOK, ansOK, ansPending, ansPending, ansInvalid, ansInvalid, ansErr, ansOKThenInvalid, ansErrThenOK}).Draw(t, "answer")
			if m.avoid[sigPending] && a > ansErr {
				a = ansErr
			}
			m.setAnswer(r, a)
			if a > ansErr {
				m.flags["verifier:changing-answer"] = true
			}
			// slow application: the answer for this transaction takes a moment (the pool waits for it inside Add with the write
			// lock held, inside a pass without)
			m.ver.setSlow(r.id, 0)
			if rapid.IntRange(0, 7).Draw(t, "slowAnswer") == 0 {
				m.ver.setSlow(r.id, 50*time.Microsecond)
				m.hist = append(m.hist, fmt.Sprintf("verifier[%s] answers after 50us", r.spec))
				m.flags["verifier:slow-answer"] = true
			}
		},
		// ---- collaborator faults and the gossip / RPC entry points
		"addFault": func(t *rapid.T) { // Publish fails for this Add (if it gets that far)
			m.t = t
			r := m.rec(m.drawFaultSpec(t))
			if rapid.IntRange(0, 3).Draw(t, "faultViaAnnouncement") == 0 {
				m.doAnnounce(r, true, "", nil)
			} else {
				m.doAddF(r, true)
			}
		},
		"announce1": func(t *rapid.T) { m.t = t; m.announceOne(t) },
		"announce2": func(t *rapid.T) { m.t = t; m.announceOne(t) },
		"announceBurst": func(t *rapid.T) {
			m.t = t
			n := rapid.IntRange(2, 4).Draw(t, "burstSize")
			var rs []*txRec
			var fl []bool
			seen := map[string]bool{}
			for i := 0; i < n; i++ {
				var r *txRec
				if len(m.order) > 0 && rapid.IntRange(0, 5).Draw(t, "burstKnown") == 0 {
					r = m.pick(t, m.order, "burstTx")
				} else {
					r = m.rec(m.drawSpec(t, -1))
				}
				if seen[r.id] {
					continue
				}
				seen[r.id] = true
				rs = append(rs, r)
				fl = append(fl, rapid.IntRange(0, 5).Draw(t, "burstFault") == 0)
			}
			m.doBurst(rs, fl)
		},
		"rpc": func(t *rapid.T) {
			m.t = t
			switch rapid.IntRange(0, 5).Draw(t, "rpcKind") {
			case 0, 1, 2: // the only request the handler answers: no body = "your processable transactions"
				m.doRPC("no-body", nil)
			case 3:
				var data []byte
				for _, r := range m.pooled() {
					data = append(data, r.id...)
				}
				if len(data) == 0 {
					data = []byte(m.rec(m.drawSpec(t, -1)).id)
				}
				m.doRPC("known-ids", data)
			case 4:
				m.doRPC("unknown-ids", rapid.SliceOfN(rapid.Byte(), 32, 64).Draw(t, "ids"))
			default:
				m.doRPC("malformed", rapid.SliceOfN(rapid.Byte(), 1, 40).Draw(t, "garbage"))
			}
		},
	}
}

func (m *machine) announceOne(t *rapid.T) {
	mode := rapid.IntRange(0, 9).Draw(t, "announceMode")
	switch {
	case mode == 0: // malformed payload: the gossip validator is in front of the handler
		kind, data := m.drawMalformed(t)
		m.doAnnounce(nil, false, kind, data)
	case mode <= 2 && len(m.order) > 0: // something this node has seen before (pooled: duplicate; removed / rejected / evicted)
		m.doAnnounce(m.pick(t, m.order, "announceKnown"), false, "", nil)
	default:
		m.doAnnounce(m.rec(m.drawSpec(t, -1)), false, "", nil)
	}
}

// drawMalformed: payloads the validator of the topic has to keep away from the handler.
func (m *machine) drawMalformed(t *rapid.T) (string, []byte) {
	base := buildTx(m.drawSpec(t, -1))
	enc := base.tx.Bytes()
	switch rapid.IntRange(0, 5).Draw(t, "malformedKind") {
	case 0:
		return "empty", []byte{}
	case 1:
		return "garbage", rapid.SliceOfN(rapid.Byte(), 1, 60).Draw(t, "garbage")
	case 2:
		return "truncated", enc[:rapid.IntRange(1, len(enc)-1).Draw(t, "cut")]
	case 3:
		return "trailing-bytes", append(append([]byte{}, enc...), rapid.SliceOfN(rapid.Byte(), 1, 4).Draw(t, "extra")...)
	case 4:
		tx := base.tx.Copy()
		tx.SenderPublicKey = tx.SenderPublicKey[:31]
		return "short-public-key", tx.Encode()
	}
	tx := base.tx.Copy()
	tx.Signatures = nil
	return "no-signature", tx.Encode()
}

// drawFaultSpec: a transaction for an Add whose Publish will fail, aimed at the situations in which Add has most to keep consistent:
// replacement, first transaction of a sender, eviction at a full pool, eviction from a full sender list; else any new transaction.
func (m *machine) drawFaultSpec(t *rapid.T) txSpec {
	p := m.prev
	pooled := m.pooled()
	switch rapid.IntRange(0, 5).Draw(t, "faultTarget") {
	case 0: // replacement with a sufficient fee
		if len(pooled) > 0 {
			x := m.pick(t, pooled, "faultReplace")
			return txSpec{Sender: x.spec.Sender, Nonce: x.spec.Nonce, Fee: x.tx.Fee + m.cfg.Diff + rapid.SampledFrom([]uint64{0, 0, 2000}).Draw(t, "faultFeeExtra"),
				PSize: x.spec.PSize, Variant: (x.spec.Variant + 1) % 3}
		}
	case 1: // first transaction of a sender
		for sd := 0; sd < m.nS; sd++ {
			if p.listOf[string(buildAddr(sd))] == nil {
				sp := m.drawSpec(t, sd)
				sp.Fee = rapid.SampledFrom([]uint64{1000, 3000, 9000, 27000}).Draw(t, "faultFee")
				return sp
			}
		}
	case 2: // higher fee priority than anything pooled (evicts when the pool is full)
		sp := m.drawSpec(t, -1)
		sp.Fee, sp.PSize = 27000+uint64(rapid.IntRange(0, 3).Draw(t, "faultFeeStep"))*1000, 0
		return sp
	case 3: // lower nonce into a full sender list (the list evicts its highest nonce)
		for sd := 0; sd < m.nS; sd++ {
			l := p.listOf[string(buildAddr(sd))]
			if l == nil || len(l.Transactions) < m.cfg.PerAcc {
				continue
			}
			lo := uint64(1 << 62)
			for n := range l.Transactions {
				if n < lo {
					lo = n
				}
			}
			if lo > 0 {
				sp := m.drawSpec(t, sd)
				sp.Nonce = lo - 1
				return sp
			}
		}
	}
	return m.drawSpec(t, -1)
}

// drawSubs: 0-3 event subscribers for a history.
func drawSubs(t *rapid.T, counts []int, delays []time.Duration) []subKind {
	n := rapid.SampledFrom(counts).Draw(t, "subscribers")
	var out []subKind
	for i := 0; i < n; i++ {
		k := subKind{
			Topic: rapid.SampledFrom([]string{"new", "new", "new", "both", "announcement"}).Draw(t, "subTopic"),
			CB:    rapid.SampledFrom([]string{"get", "drain", "getall", "getprocessable", "remove", "get", "drain", "getall", "mixed", "drain"}).Draw(t, "subCallback"),
		}
		if k.CB != "drain" {
			k.Delay = rapid.SampledFrom(delays).Draw(t, "subDelay")
		}
		out = append(out, k)
	}
	return out
}

var (
	smallSubCounts = []int{0, 0, 0, 0, 0, 0, 1, 1, 2, 3}
	smallSubDelays = []time.Duration{0, 0, 0, 0, 0, 0, 0, 0, 0, 0, 100 * time.Microsecond, 300 * time.Microsecond}
)

// TestPoolStateMachine: the main search.
func TestPoolStateMachine(t *testing.T) {
	avoid := avoidance()
	rapid.Check(t, func(t *rapid.T) {
		c := drawCfg(t)
		nS := rapid.IntRange(3, 4).Draw(t, "senders")
		m := newMachine(t, c, nS, avoid)
		m.subscribe(drawSubs(t, smallSubCounts, smallSubDelays))
		t.Repeat(m.actions())
		m.t = t
		m.register("history")
	})
}
