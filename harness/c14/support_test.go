package c14

// Support code for the C14 check: mock collaborators of the pool, the scripted verifier, the call watchdog with
// goroutine-dump based deadlock evidence, and the structural analysis of a pool snapshot (invariants I1, I2, I3, I4).

import (
	"bytes"
	"context"
	"encoding/hex"
	"fmt"
	"regexp"
	"runtime"
	"sort"
	"strconv"
	"strings"
	"sync"
	"time"

	"github.com/LiskHQ/lisk-engine/pkg/blockchain"
	"github.com/LiskHQ/lisk-engine/pkg/codec"
	"github.com/LiskHQ/lisk-engine/pkg/db"
	"github.com/LiskHQ/lisk-engine/pkg/labi"
	"github.com/LiskHQ/lisk-engine/pkg/log"
	"github.com/LiskHQ/lisk-engine/pkg/p2p"
	"github.com/LiskHQ/lisk-engine/pkg/txpool"
)

// ---------------------------------------------------------------------------------------------------------------
// collaborators

type nopLogger struct{}

func (nopLogger) Debug(string, ...interface{})     {}
func (nopLogger) Info(string, ...interface{})      {}
func (nopLogger) Error(string, ...interface{})     {}
func (nopLogger) Debugf(string, ...interface{})    {}
func (nopLogger) Infof(string, ...interface{})     {}
func (nopLogger) Errorf(string, ...interface{})    {}
func (nopLogger) Warning(string, ...interface{})   {}
func (nopLogger) Warningf(string, ...interface{})  {}
func (l nopLogger) With(...interface{}) log.Logger { return l }

// mockConn is the pool's p2p connection. It keeps the handlers the pool registers in Init (the announcement handler with its
// gossip validator and the getTransactions RPC handler: that is how the harness drives onTransactionAnnoucement and
// HandleRPCEndpointGetTransaction the way pkg/p2p does) and it can be told to FAIL the next Publish calls (fault injection:
// topic not joined, context cancelled, oversized message ...).
type mockConn struct {
	mu        sync.Mutex
	rpc       map[string]p2p.RPCHandler
	evh       map[string]p2p.EventHandler
	val       map[string]p2p.Validator
	failNext  int // the next n Publish calls return an error
	published int // Publish calls answered nil
	failed    int // Publish calls answered with an error
}

var errPublish = fmt.Errorf("scripted publish failure")

func newMockConn() *mockConn {
	return &mockConn{rpc: map[string]p2p.RPCHandler{}, evh: map[string]p2p.EventHandler{}, val: map[string]p2p.Validator{}}
}

func (c *mockConn) Broadcast(context.Context, string, []byte) error { return nil }
func (c *mockConn) RegisterRPCHandler(name string, h p2p.RPCHandler, _ ...p2p.RPCHandlerOption) error {
	c.mu.Lock()
	c.rpc[name] = h
	c.mu.Unlock()
	return nil
}
func (c *mockConn) RegisterEventHandler(name string, h p2p.EventHandler, v p2p.Validator) error {
	c.mu.Lock()
	c.evh[name] = h
	c.val[name] = v
	c.mu.Unlock()
	return nil
}
func (c *mockConn) ApplyPenalty(p2p.PeerID, int) {}
func (c *mockConn) RequestFrom(context.Context, p2p.PeerID, string, []byte) p2p.Response {
	return *p2p.NewResponse(0, "", nil, nil)
}
func (c *mockConn) Publish(context.Context, string, []byte) error {
	c.mu.Lock()
	defer c.mu.Unlock()
	if c.failNext > 0 {
		c.failNext--
		c.failed++
		return errPublish
	}
	c.published++
	return nil
}

// armFailures: the next n Publish calls fail.
func (c *mockConn) armFailures(n int) {
	c.mu.Lock()
	c.failNext = n
	c.mu.Unlock()
}

// takeCounts disarms the connection and returns (and resets) the number of succeeded / failed Publish calls.
func (c *mockConn) takeCounts() (published, failed int) {
	c.mu.Lock()
	defer c.mu.Unlock()
	published, failed = c.published, c.failed
	c.published, c.failed, c.failNext = 0, 0, 0
	return
}

const peerA = p2p.PeerID("12D3KooWHarnessPeerA")

// announce delivers one gossip message of the transaction announcement topic the way pkg/p2p does: the registered validator first
// (the handler relies on it: it panics on data the validator would have rejected), then the registered handler.
// Returns false when the validator rejected the message.
func (c *mockConn) announce(data []byte) bool {
	c.mu.Lock()
	h, v := c.evh[txpool.RPCEventPostTransactionAnnouncement], c.val[txpool.RPCEventPostTransactionAnnouncement]
	c.mu.Unlock()
	if v != nil {
		if v(context.Background(), p2p.NewMessage(data)) != p2p.ValidationAccept {
			return false
		}
	}
	h(p2p.NewEvent(peerA, txpool.RPCEventPostTransactionAnnouncement, data))
	return true
}

// rpcWriter is the p2p.ResponseWriter of a getTransactions request.
type rpcWriter struct {
	writes int
	data   []byte
	err    error
}

func (w *rpcWriter) Write(b []byte) { w.writes++; w.data = b }
func (w *rpcWriter) Error(e error)  { w.err = e }

func (c *mockConn) getTransactions(data []byte) *rpcWriter {
	c.mu.Lock()
	h := c.rpc[txpool.RPCEndpointGetTransactions]
	c.mu.Unlock()
	w := &rpcWriter{}
	h(w, &p2p.Request{ID: "1", Procedure: txpool.RPCEndpointGetTransactions, Data: data, PeerID: peerA})
	return w
}

// verifier answers
const (
	ansOK = iota
	ansPending
	ansInvalid
	ansErr
	// answers that change between consultations (the announcement handler asks once, Add asks again; a promotion pass asks again):
	ansOKThenInvalid // first consultation after the answer was set: ok, afterwards invalid
	ansErrThenOK     // first consultation after the answer was set: error, afterwards ok
)

var ansNames = []string{"ok", "pending", "invalid", "err", "ok-then-invalid", "err-then-ok"}

type vcall struct {
	id  string
	ans int
}

// verifier is the scripted ABI: per transaction ID an answer (default ok); it logs every consultation.
// Every logged consultation carries the answer actually given (ok / pending / invalid / err).
type verifier struct {
	mu    sync.Mutex
	ans   map[string]int
	asked map[string]int           // consultations since the answer was set (changing answers)
	slow  map[string]time.Duration // answer only after a pause (slow application)
	calls []vcall
	hook  func(id string) // called (outside mu) before answering; used to interleave an operation into a promotion pass
}

func newVerifier() *verifier {
	return &verifier{ans: map[string]int{}, asked: map[string]int{}, slow: map[string]time.Duration{}}
}

func (v *verifier) VerifyTransaction(req *labi.VerifyTransactionRequest) (*labi.VerifyTransactionResponse, error) {
	id := string(req.Transaction.ID)
	v.mu.Lock()
	hook := v.hook
	v.mu.Unlock()
	if hook != nil {
		hook(id)
	}
	v.mu.Lock()
	pause := v.slow[id]
	v.mu.Unlock()
	if pause > 0 {
		time.Sleep(pause)
	}
	v.mu.Lock()
	a := v.ans[id]
	switch a {
	case ansOKThenInvalid:
		a = ansInvalid
		if v.asked[id] == 0 {
			a = ansOK
		}
	case ansErrThenOK:
		a = ansOK
		if v.asked[id] == 0 {
			a = ansErr
		}
	}
	v.asked[id]++
	v.calls = append(v.calls, vcall{id, a})
	v.mu.Unlock()
	switch a {
	case ansPending:
		return &labi.VerifyTransactionResponse{Result: labi.TxVerifyResultPending}, nil
	case ansInvalid:
		return &labi.VerifyTransactionResponse{Result: labi.TxVerifyResultInvalid}, nil
	case ansErr:
		return nil, fmt.Errorf("scripted verifier error")
	}
	return &labi.VerifyTransactionResponse{Result: labi.TxVerifyResultOk}, nil
}

func (v *verifier) set(id string, a int) {
	v.mu.Lock()
	v.ans[id] = a
	v.asked[id] = 0
	v.mu.Unlock()
}
func (v *verifier) setSlow(id string, d time.Duration) {
	v.mu.Lock()
	if d == 0 {
		delete(v.slow, id)
	} else {
		v.slow[id] = d
	}
	v.mu.Unlock()
}
func (v *verifier) get(id string) int {
	v.mu.Lock()
	defer v.mu.Unlock()
	return v.ans[id]
}
func (v *verifier) resetCalls() {
	v.mu.Lock()
	v.calls = nil
	v.mu.Unlock()
}
func (v *verifier) takeCalls() []vcall {
	v.mu.Lock()
	defer v.mu.Unlock()
	c := v.calls
	v.calls = nil
	return c
}
func (v *verifier) setHook(h func(string)) {
	v.mu.Lock()
	v.hook = h
	v.mu.Unlock()
}

// ---------------------------------------------------------------------------------------------------------------
// configuration and transactions

type cfgT struct {
	Max, PerAcc int
	Diff, MinP  uint64
}

func (c cfgT) String() string {
	return fmt.Sprintf("cfg{max=%d perAcc=%d diff=%d minPrio=%d}", c.Max, c.PerAcc, c.Diff, c.MinP)
}

func newPool(c cfgT, v *verifier) *txpool.TransactionPool {
	p, _ := newPoolConn(c, v)
	return p
}

func newPoolConn(c cfgT, v *verifier) (*txpool.TransactionPool, *mockConn) {
	conn := newMockConn()
	p := txpool.NewTransactionPool(&txpool.TransactionPoolConfig{
		MaxTransactions:             c.Max,
		MaxTransactionsPerAccount:   c.PerAcc,
		MinEntranceFeePriority:      c.MinP,
		MinReplacementFeeDifference: c.Diff,
	})
	if err := p.Init(context.Background(), nopLogger{}, (*db.DB)(nil), (*blockchain.Chain)(nil), conn, v); err != nil {
		panic(err)
	}
	return p, conn
}

type txSpec struct {
	Sender  int
	Nonce   uint64
	Fee     uint64
	PSize   int
	Variant int
}

func (s txSpec) String() string {
	return fmt.Sprintf("s%dn%df%dp%dv%d", s.Sender, s.Nonce, s.Fee, s.PSize, s.Variant)
}

type txRec struct {
	spec txSpec
	tx   *blockchain.Transaction
	id   string
	addr string
}

func senderPK(i int) []byte { return bytes.Repeat([]byte{byte(0x11 * (i + 1))}, 32) }

func buildTx(sp txSpec) *txRec {
	sig := make([]byte, 64)
	sig[0] = byte(sp.Variant)
	tx := &blockchain.Transaction{
		Module:          "token",
		Command:         "transfer",
		Nonce:           sp.Nonce,
		Fee:             sp.Fee,
		SenderPublicKey: senderPK(sp.Sender),
		Params:          make([]byte, sp.PSize),
		Signatures:      []codec.Hex{sig},
	}
	tx.Init()
	return &txRec{spec: sp, tx: tx, id: string(tx.ID), addr: string(tx.SenderAddress())}
}

func (r *txRec) prio() uint64 { return r.tx.Fee / uint64(r.tx.Size()) }

func short(id string) string {
	h := hex.EncodeToString([]byte(id))
	if len(h) > 8 {
		h = h[:8]
	}
	return h
}

// ---------------------------------------------------------------------------------------------------------------
// watchdog

const (
	callOK = iota
	callDeadlock
	callTimeout
	callPanic
)

func pfx(b []byte) []byte {
	if len(b) > 4 {
		return b[:4]
	}
	return b
}

var (
	abandonedMu   sync.Mutex
	abandonedGIDs = map[int64]bool{}
)

func curGID() int64 {
	var buf [64]byte
	n := runtime.Stack(buf[:], false)
	f := strings.Fields(string(buf[:n]))
	if len(f) >= 2 {
		id, _ := strconv.ParseInt(f[1], 10, 64)
		return id
	}
	return -1
}

// guardedBody is the marker frame of a watched pool call.
//
//go:noinline
func guardedBody(f func()) { f() }

var wdLimit = 10 * time.Second

// guard runs f (one or more pool calls) in its own goroutine and waits for it. If it does not return, goroutine dumps are
// inspected: callDeadlock is returned only on positive evidence (see deadlockEvidence) seen in two dumps ≥ 300 ms apart;
// without such evidence the call is given wdLimit and then reported as callTimeout (inconclusive, never a violation).
// In both cases the goroutine is leaked and remembered as abandoned.
func guard(f func()) (int, string) { return startGuard(f).wait() }

type guardH struct {
	done     chan struct{}
	panicked string
}

func startGuard(f func()) *guardH {
	h := &guardH{done: make(chan struct{})}
	go func() {
		defer close(h.done)
		defer func() {
			if r := recover(); r != nil {
				buf := make([]byte, 8192)
				h.panicked = fmt.Sprintf("panic: %v\n%s", r, buf[:runtime.Stack(buf, false)])
			}
		}()
		guardedBody(f)
	}()
	return h
}

func (h *guardH) ret() (int, string) {
	if h.panicked != "" {
		return callPanic, h.panicked
	}
	return callOK, ""
}

func (h *guardH) wait() (int, string) {
	timer := time.NewTimer(200 * time.Millisecond)
	defer timer.Stop()
	select {
	case <-h.done:
		return h.ret()
	case <-timer.C:
	}
	start := time.Now()
	evidence := 0
	for {
		dump := allStacks()
		if deadlockEvidence(dump) {
			evidence++
			if evidence >= 2 {
				rs := relevantStacks(dump)
				abandon(dump)
				return callDeadlock, rs
			}
		} else {
			evidence = 0
		}
		select {
		case <-h.done:
			return h.ret()
		case <-time.After(300 * time.Millisecond):
		}
		if time.Since(start) > wdLimit {
			dump := allStacks()
			rs := relevantStacks(dump)
			abandon(dump)
			return callTimeout, rs
		}
	}
}

func abandon(dump string) {
	abandonedMu.Lock()
	defer abandonedMu.Unlock()
	// everything that is inside the pool right now belongs to the abandoned pool (sequential use: one pool at a time;
	// the concurrent check abandons all its workers at once). The watched goroutine itself needs no entry of its own: later dumps
	// only look at goroutines inside the pool, and if it is inside it is marked here. (It used to report its goroutine ID when it
	// started - a runtime.Stack call and a scheduling round trip per watched call, ~9 % of the run time.)
	for _, g := range parseDump(dump) {
		if g.inPool {
			abandonedGIDs[g.id] = true
		}
	}
}

func allStacks() string {
	buf := make([]byte, 1<<20)
	for {
		n := runtime.Stack(buf, true)
		if n < len(buf) {
			return string(buf[:n])
		}
		buf = make([]byte, 2*len(buf))
	}
}

type gInfo struct {
	id     int64
	state  string
	stack  string
	inPool bool
}

var hdrRe = regexp.MustCompile(`^goroutine (\d+) \[([^\],]+)`)

func parseDump(d string) []gInfo {
	var out []gInfo
	for _, blk := range strings.Split(d, "\n\n") {
		blk = strings.TrimSpace(blk)
		m := hdrRe.FindStringSubmatch(blk)
		if m == nil {
			continue
		}
		id, _ := strconv.ParseInt(m[1], 10, 64)
		g := gInfo{id: id, state: m[2], stack: blk}
		g.inPool = strings.Contains(blk, "/pkg/txpool.")
		out = append(out, g)
	}
	return out
}

var parkedStates = map[string]bool{
	"sync.RWMutex.RLock": true, "sync.RWMutex.Lock": true, "sync.Mutex.Lock": true, "semacquire": true, "sync.WaitGroup.Wait": true,
}

// deadlockEvidence: at least one live goroutine is inside pkg/txpool, every such goroutine is parked on a sync primitive
// (mutex / rwmutex / waitgroup) and at least one of them on the pool's RWMutex. A lock can only be released by a goroutine that
// is inside the pool (all lock/unlock pairs are within pool methods), so nobody can ever wake them: blocked forever.
// Goroutines of previously abandoned pools are ignored; the idle Start loop (select) is ignored.
//
// Extension (large-scale histories): a goroutine blocked in a channel SEND that is executed directly by a function of pkg/txpool
// (first frame of the stack is a txpool function, e.g. a semaphore or result channel local to a promotion pass) also counts as
// parked: the pool hands none of its channels to its collaborators (Subscribe goes through pkg/event, whose sends have a pkg/event
// frame on top and therefore do NOT count), so only another goroutine inside the pool could receive, and all of those are parked.
// Channel RECEIVES never count (a timer could serve them). With a channel send among the parked ones the RWMutex requirement is
// replaced by "a send inside the pool or the RWMutex".
//
// Extension (event subscribers): a pool goroutine blocked in the channel send of pkg/event (the pool publishing an event) counts as
// parked only if no registered subscriber can take the message, see subscribersCannotReceive.
func deadlockEvidence(dump string) bool {
	abandonedMu.Lock()
	defer abandonedMu.Unlock()
	n, onRW, evSend := 0, false, false
	gs := parseDump(dump)
	for _, g := range gs {
		if !g.inPool || abandonedGIDs[g.id] {
			continue
		}
		if g.state == "select" && strings.Contains(g.stack, "txpool.(*TransactionPool).Start") && !strings.Contains(g.stack, ".reorg") {
			continue
		}
		if strings.HasPrefix(g.state, "chan send") && sendInsidePool(g.stack) {
			n++
			onRW = true
			continue
		}
		if strings.HasPrefix(g.state, "chan send") && eventSend(g.stack) {
			n++
			evSend = true
			continue
		}
		if !parkedStates[g.state] {
			return false
		}
		n++
		if strings.Contains(g.stack, "sync.(*RWMutex).") {
			onRW = true
		}
	}
	if evSend {
		if !subscribersCannotReceive(gs) {
			return false
		}
		onRW = true
	}
	return n > 0 && onRW
}

// sendInsidePool: the blocked channel operation is executed by a pkg/txpool function itself (first frame below the header).
func sendInsidePool(stack string) bool {
	lines := strings.SplitN(stack, "\n", 3)
	return len(lines) >= 2 && strings.Contains(lines[1], "/pkg/txpool.")
}

// eventSend: the goroutine is blocked in the channel send of pkg/event's Publish / Emit, called by a pool function (the caller
// checked that the stack has a pkg/txpool frame): the pool is delivering an event to its subscribers.
func eventSend(stack string) bool {
	lines := strings.SplitN(stack, "\n", 3)
	return len(lines) >= 2 && strings.Contains(lines[1], "/pkg/event.(*EventEmitter).")
}

// subscribersCannotReceive: extension "event subscribers". A pool goroutine blocked in an event send can only be released by the
// subscriber it is sending to. All subscription channels of the pool under test belong to the registered harness subscribers, whose
// only blocking receive is the one on their subscription. A subscriber seen in that receive (state "chan receive" / "select", not
// inside the pool) cannot be the one the send is waiting for (the unbuffered rendezvous would have completed); so the addressee is
// among the subscribers that are inside the pool - and those were all found parked on the pool's locks (or in an event send
// themselves) by the caller. If every live subscriber is in one of these two situations and at least one is inside the pool, nobody
// can ever take the message. Any subscriber in another state (sleeping before its callback, runnable, running) => no evidence (yet).
func subscribersCannotReceive(gs []gInfo) bool {
	live, allKnown := liveSubGIDs()
	if !allKnown { // a subscriber goroutine that has not run yet: it will take messages once it does
		return false
	}
	inside := 0
	for _, g := range gs {
		if !live[g.id] {
			continue
		}
		if g.inPool {
			inside++ // parked: checked by the caller (every goroutine inside the pool is)
			continue
		}
		if g.state != "chan receive" && g.state != "select" {
			return false
		}
	}
	return inside > 0
}

func relevantStacks(dump string) string {
	abandonedMu.Lock()
	defer abandonedMu.Unlock()
	// goroutines in the rarer states first (with dozens of goroutines queued on the same lock the interesting one - e.g. the
	// spawning loop of a promotion pass blocked on a channel - must not fall off the end), a census in front
	var gs []gInfo
	census := map[string]int{}
	for _, g := range parseDump(dump) {
		if g.inPool && !abandonedGIDs[g.id] {
			gs = append(gs, g)
			census[g.state]++
		}
	}
	sort.SliceStable(gs, func(i, j int) bool { return census[gs[i].state] < census[gs[j].state] })
	var states []string
	for st, n := range census {
		states = append(states, fmt.Sprintf("%d x [%s]", n, st))
	}
	sort.Strings(states)
	var b strings.Builder
	fmt.Fprintf(&b, "%d goroutines inside pkg/txpool: %s\n\n", len(gs), strings.Join(states, ", "))
	for _, g := range gs {
		b.WriteString(g.stack)
		b.WriteString("\n\n")
	}
	s := b.String()
	if len(s) > 6000 {
		s = s[:6000] + "…"
	}
	return s
}

// ---------------------------------------------------------------------------------------------------------------
// snapshot analysis

type viol struct {
	kind string // machine-readable class, e.g. "I1:stale"
	id   string // transaction involved (may be empty)
	msg  string
}

func (v viol) String() string { return v.kind + ": " + v.msg }

type slotKey struct {
	addr  string
	nonce uint64
}

type snap struct {
	raw    *txpool.VerifPoolSnapshot
	slot   map[slotKey]string                 // (sender, nonce) -> id, from the sender lists
	inList map[string]int                     // id -> number of list slots holding it
	proc   map[string]bool                    // ids in some processable set
	listOf map[string]*txpool.VerifSenderList // by sender address
}

func emptySnap() *snap {
	return &snap{raw: &txpool.VerifPoolSnapshot{All: map[string]txpool.VerifTx{}}, slot: map[slotKey]string{}, inList: map[string]int{},
		proc: map[string]bool{}, listOf: map[string]*txpool.VerifSenderList{}}
}

func sortedU64(in []uint64) []uint64 {
	c := append([]uint64{}, in...)
	sort.Slice(c, func(i, j int) bool { return c[i] < c[j] })
	return c
}

// analyze evaluates the history-independent parts of I1–I4 on one snapshot.
func analyze(raw *txpool.VerifPoolSnapshot, c cfgT) (*snap, []viol) {
	s := emptySnap()
	s.raw = raw
	var vs []viol
	add := func(kind, id, f string, a ...any) { vs = append(vs, viol{kind, id, fmt.Sprintf(f, a...)}) }

	// I1a: allTransactions is keyed by the transaction's own ID
	for k, tx := range raw.All {
		if k != string(tx.ID) || len(tx.ID) == 0 {
			add("I1:all-key", k, "allTransactions[%s] holds transaction %s", short(k), short(string(tx.ID)))
		}
	}
	// I1b: fee heap holds exactly the IDs of allTransactions, each once
	heapCnt := map[string]int{}
	for _, tx := range raw.Heap {
		heapCnt[string(tx.ID)]++
	}
	for id, n := range heapCnt {
		if _, ok := raw.All[id]; !ok {
			add("I1:heap-extra", id, "fee heap holds %s which is not in allTransactions", short(id))
		} else if n != 1 {
			add("I1:heap-dup", id, "fee heap holds %s %d times", short(id), n)
		}
	}
	for id := range raw.All {
		if heapCnt[id] == 0 {
			add("I1:heap-missing", id, "allTransactions holds %s which is not in the fee heap", short(id))
		}
	}
	// I1c: sender lists
	lists := append([]txpool.VerifSenderList{}, raw.PerAccount...)
	sort.Slice(lists, func(i, j int) bool { return bytes.Compare(lists[i].Key, lists[j].Key) < 0 })
	for i := range lists {
		l := &lists[i]
		key := string(l.Key)
		if _, dup := s.listOf[key]; dup {
			add("I1:list-dup", "", "two sender lists for %x", l.Key)
		}
		s.listOf[key] = l
		if !bytes.Equal(l.Key, l.Address) {
			add("I1:list-key", "", "perAccount[%x] holds the list of address %x", l.Key, l.Address)
		}
		if len(l.Transactions) == 0 {
			add("I1:empty-list", "", "perAccount[%x] is an empty list (sender index disagrees with the pooled set)", l.Key)
		}
		var nonces []uint64
		for n := range l.Transactions {
			nonces = append(nonces, n)
		}
		nonces = sortedU64(nonces)
		for _, n := range nonces {
			tx := l.Transactions[n]
			id := string(tx.ID)
			if tx.Nonce != n {
				add("I1:slot", id, "list %x slot %d holds %s with nonce %d", l.Key, n, short(id), tx.Nonce)
			}
			if !bytes.Equal(tx.Sender, l.Key) {
				add("I1:slot-sender", id, "list %x slot %d holds %s of sender %x", l.Key, n, short(id), tx.Sender)
			}
			if _, ok := raw.All[id]; !ok {
				add("I1:orphan", id, "list %x slot %d holds %s which is not in allTransactions", l.Key, n, short(id))
			}
			s.inList[id]++
			s.slot[slotKey{key, n}] = id
		}
		// nonce heap == slots (as multiset)
		if hn := sortedU64(l.Nonces); !equalU64(hn, nonces) {
			add("I1:nonce-heap", "", "list %x nonce heap %v != slots %v", l.Key, hn, nonces)
		}
		// I2 per sender
		if len(l.Transactions) > c.PerAcc || len(l.Nonces) > c.PerAcc {
			add("I2:sender-size", "", "list %x holds %d transactions (heap %d), per-sender limit %d", l.Key, len(l.Transactions), len(l.Nonces), c.PerAcc)
		}
		// I4 structure
		for j, n := range l.Processables {
			tx, ok := l.Transactions[n]
			if !ok {
				add("I4:not-in-list", "", "list %x processable nonce %d has no transaction (processables %v, slots %v)", l.Key, n, l.Processables, nonces)
				continue
			}
			s.proc[string(tx.ID)] = true
			if j > 0 {
				p := l.Processables[j-1]
				if n <= p {
					add("I4:order", string(tx.ID), "list %x processables %v not strictly ascending", l.Key, l.Processables)
				} else if n != p+1 {
					add("I4:gap", string(tx.ID), "list %x processables %v have a gap (slots %v)", l.Key, l.Processables, nonces)
				}
			}
		}
	}
	for id, n := range s.inList {
		if n != 1 {
			add("I1:multi", id, "%s is held in %d list slots", short(id), n)
		}
	}
	// I1d: every pooled transaction is in a list, at its nonce, in the list of its sender
	ids := make([]string, 0, len(raw.All))
	for id := range raw.All {
		ids = append(ids, id)
	}
	sort.Strings(ids)
	stale := map[string]bool{}
	for _, id := range ids {
		tx := raw.All[id]
		if s.inList[id] == 0 {
			stale[id] = true
			add("I1:stale", id, "%s (sender %x nonce %d fee %d) is in allTransactions but in no sender list", short(id), pfx(tx.Sender), tx.Nonce, tx.Fee)
			continue
		}
		if s.slot[slotKey{string(tx.Sender), tx.Nonce}] != id {
			add("I1:wrong-slot", id, "%s is not at slot (sender %x, nonce %d) of the sender lists", short(id), pfx(tx.Sender), tx.Nonce)
		}
	}
	// I3: at most one transaction per (sender, nonce) in the pool (a stale one is reported above already)
	seen := map[slotKey]string{}
	for _, id := range ids {
		if stale[id] {
			continue
		}
		tx := raw.All[id]
		k := slotKey{string(tx.Sender), tx.Nonce}
		if o, ok := seen[k]; ok {
			add("I3:dup-slot", id, "%s and %s are both pooled for sender %x nonce %d", short(o), short(id), pfx(tx.Sender), tx.Nonce)
		}
		seen[k] = id
	}
	// I2 pool
	if len(raw.All) > c.Max {
		add("I2:pool-size", "", "pool holds %d transactions, MaxTransactions %d", len(raw.All), c.Max)
	}
	return s, vs
}

func equalU64(a, b []uint64) bool {
	if len(a) != len(b) {
		return false
	}
	for i := range a {
		if a[i] != b[i] {
			return false
		}
	}
	return true
}

// observation = internal snapshot + what the public getters say, taken in one watched call.
type observation struct {
	raw   *txpool.VerifPoolSnapshot
	all   []*blockchain.Transaction
	procs []*blockchain.Transaction
	got   map[string]*blockchain.Transaction // Get(id) for the probed ids (nil = not found)
}

func observe(p *txpool.TransactionPool, probe []string) (*observation, int, string) {
	o := &observation{got: map[string]*blockchain.Transaction{}}
	st, dump := guard(func() {
		o.raw = p.VerifSnapshot()
		o.all = p.GetAll()
		o.procs = p.GetProcessable()
		for id := range o.raw.All {
			tx, ok := p.Get([]byte(id))
			if !ok {
				tx = nil
			}
			o.got[id] = tx
		}
		for _, id := range probe {
			if _, done := o.got[id]; done {
				continue
			}
			tx, ok := p.Get([]byte(id))
			if !ok {
				tx = nil
			}
			o.got[id] = tx
		}
	})
	return o, st, dump
}

// checkGetters: the public getters describe the same set as the internal snapshot (sequential use only).
func checkGetters(o *observation, s *snap) []viol {
	var vs []viol
	add := func(kind, id, f string, a ...any) { vs = append(vs, viol{kind, id, fmt.Sprintf(f, a...)}) }
	seen := map[string]int{}
	for _, tx := range o.all {
		if tx == nil {
			add("get:all-nil", "", "GetAll returned a nil transaction")
			continue
		}
		seen[string(tx.ID)]++
	}
	for id, n := range seen {
		if _, ok := o.raw.All[id]; !ok || n != 1 {
			add("get:all", id, "GetAll lists %s %d times, allTransactions has it: %v", short(id), n, ok)
		}
	}
	for id := range o.raw.All {
		if seen[id] == 0 {
			add("get:all", id, "GetAll misses %s", short(id))
		}
	}
	for id, tx := range o.got {
		_, in := o.raw.All[id]
		if in && (tx == nil || string(tx.ID) != id) {
			add("get:get", id, "Get(%s) does not return the pooled transaction", short(id))
		}
		if !in && tx != nil {
			add("get:get", id, "Get(%s) returns a transaction that is not in allTransactions", short(id))
		}
	}
	pseen := map[string]int{}
	for _, tx := range o.procs {
		if tx == nil {
			add("get:proc-nil", "", "GetProcessable returned a nil transaction")
			continue
		}
		pseen[string(tx.ID)]++
	}
	for id, n := range pseen {
		if !s.proc[id] || n != 1 {
			add("get:processable", id, "GetProcessable lists %s %d times, processable in its list: %v", short(id), n, s.proc[id])
		}
	}
	for id := range s.proc {
		if pseen[id] == 0 {
			add("get:processable", id, "GetProcessable misses %s", short(id))
		}
	}
	return vs
}
