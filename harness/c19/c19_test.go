package c19

import (
	"bytes"
	"context"
	"fmt"
	"strings"
	"testing"
	"time"

	"github.com/LiskHQ/lisk-engine/pkg/blockchain"
	csync "github.com/LiskHQ/lisk-engine/pkg/consensus/sync"
	"github.com/LiskHQ/lisk-engine/pkg/p2p"
	"pgregory.net/rapid"

	"verifharness/evid"
	"verifharness/node"
)

func TestMain(m *testing.M) { evid.Main(m, "C19") }

// ---------------------------------------------------------------------------------------------------------------
// (1) peer selection: validity predicate over multisets of peer tips.

func TestBestPeer(t *testing.T) {
	rapid.Check(t, func(t *rapid.T) {
		n := rapid.IntRange(1, 12).Draw(t, "peers")
		type tip struct {
			H, P uint32
			ID   byte
		}
		var tips []tip
		var infos []*csync.NodeInfo
		for i := 0; i < n; i++ {
			tp := tip{rapid.Uint32Range(0, 3).Draw(t, "height"), rapid.Uint32Range(0, 2).Draw(t, "mhp"), byte(rapid.IntRange(0, 2).Draw(t, "id"))}
			tips = append(tips, tp)
			ni := csync.NewNodeInfo(tp.H, tp.P, 2, []byte{tp.ID, byte(tp.H), byte(tp.P)})
			ni.PeerID = p2p.PeerID(fmt.Sprintf("peer%d", i))
			infos = append(infos, ni)
		}
		// reference: maximal mhp, then maximal height, then IDs of maximal frequency
		var maxP, maxH uint32
		for _, tp := range tips {
			if tp.P > maxP {
				maxP = tp.P
			}
		}
		for _, tp := range tips {
			if tp.P == maxP && tp.H > maxH {
				maxH = tp.H
			}
		}
		freq := map[byte]int{}
		best := 0
		for _, tp := range tips {
			if tp.P == maxP && tp.H == maxH {
				freq[tp.ID]++
				if freq[tp.ID] > best {
					best = freq[tp.ID]
				}
			}
		}
		tieOnFirstTwo := len(freq) >= 2
		for rep := 0; rep < 5; rep++ { // the function breaks remaining ties at random
			got, err := csync.VerifBestNodeInfo(infos)
			if err != nil {
				t.Fatalf("getBestNodeInfo: %v", err)
			}
			if got.VerifMaxHeightPrevoted() != maxP {
				t.Fatalf("selected peer has maxHeightPrevoted %d, the largest offered is %d: %v", got.VerifMaxHeightPrevoted(), maxP, tips)
			}
			if got.VerifHeight() != maxH {
				t.Fatalf("selected peer has height %d, the largest among maxHeightPrevoted=%d is %d: %v", got.VerifHeight(), maxP, maxH, tips)
			}
			id := got.VerifLastBlockID()[0]
			if freq[id] != best {
				if !evid.R.KnownFinding("best-peer:not-most-common-id") {
					t.Fatalf("selected peer's block ID occurs %d times among the best tips, another ID occurs %d times: %v", freq[id], best, tips)
				}
			}
		}
		evid.R.Case(fmt.Sprintf("best|%v", tips), tieOnFirstTwo, func() any { return map[string]any{"kind": "peer-selection", "tips(h,mhp,id)": tips} }, "peer-selection")
	})
	if _, err := csync.VerifBestNodeInfo(nil); err == nil {
		t.Fatalf("empty peer list must be an error")
	}
}

// ---------------------------------------------------------------------------------------------------------------
// (2) RPC handlers.

type rw struct {
	data   []byte
	err    error
	called bool
}

func (w *rw) Write(d []byte) { w.data, w.called = d, true }
func (w *rw) Error(e error)  { w.err, w.called = e, true }

var ipCounter = 0

func listenAddr(i int) string { return fmt.Sprintf("/ip4/127.0.0.%d/tcp/0", 2+i%200) }

func buildChain(t *rapid.T, n *node.Node, k int, salt uint32) []*blockchain.Block {
	var out []*blockchain.Block
	for i := 0; i < k; i++ {
		b, err := n.Apply(node.Spec{Script: node.Script{Salt: salt + uint32(i%7)}})
		if err != nil {
			t.Fatalf("apply: %v", err)
		}
		out = append(out, b)
	}
	return out
}

func TestRPCHandlers(t *testing.T) {
	rapid.Check(t, func(t *rapid.T) {
		// 120: a cache larger than the 103-block answer cap but smaller than the chain - a served segment can then start below the
		// cached window and end inside it (added after seeded change C19-u: a cache fast path silently skipped the uncached part)
		cache := rapid.SampledFrom([]int{4, 20, 120, 515}).Draw(t, "cache")
		n, err := node.New(node.Config{Genesis: node.EqualGenesis(4), MaxBlockCache: cache, ListenAddr: listenAddr(rapid.IntRange(0, 50).Draw(t, "ip"))})
		if err != nil {
			t.Fatalf("node: %v", err)
		}
		defer n.Close()
		length := rapid.SampledFrom([]int{3, 30, 110, 260}).Draw(t, "length")
		if !evid.Thorough() && length > 110 && rapid.IntRange(0, 3).Draw(t, "long") != 0 {
			length = 110
		}
		if cache == 120 {
			length = 260
			evid.R.Label("handlers-chain-longer-than-a-cache-above-the-answer-cap", 1)
		}
		// The expected chain is the harness's OWN record: the blocks returned by Apply, minus the ones it removed, in
		// order (blocks[i] has height i+1). The engine's idea of its last block (Chain.LastBlock = the block cache, which
		// the handlers under test read as well) is cross-checked against that record after every step instead of being
		// the source of the expectation (audit 2026-09: a stale cached tip would have been mirrored).
		blocks := buildChain(t, n, length, 0)
		ownTip := func() *blockchain.Block {
			if len(blocks) == 0 {
				return n.Genesis
			}
			return blocks[len(blocks)-1]
		}
		checkTip := func(when string) {
			want, got := ownTip(), n.Tip()
			if got == nil || !bytes.Equal(got.Header.ID, want.Header.ID) || got.Header.Height != want.Header.Height {
				gh, gid := int64(-1), []byte(nil)
				if got != nil {
					gh, gid = int64(got.Header.Height), got.Header.ID
				}
				t.Fatalf("Chain.LastBlock() %s: height %d id %x, but the last block applied and not removed is height %d id %x (chain of %d blocks built by the harness, block cache %d)",
					when, gh, gid, want.Header.Height, []byte(want.Header.ID), len(blocks), cache)
			}
		}
		for i, b := range blocks {
			if b.Header.Height != uint32(i+1) {
				t.Fatalf("harness: block %d returned by Apply has height %d", i, b.Header.Height)
			}
		}
		checkTip("after building the chain")
		// a reorganised tail: some blocks are removed and replaced, the removed ones are no longer on the chain
		var orphan []*blockchain.Block
		if rapid.Bool().Draw(t, "reorg") {
			F := n.Finalized()
			if d := int(ownTip().Header.Height) - int(F); d > 1 {
				k := rapid.IntRange(1, d).Draw(t, "reorgDepth")
				for i := 0; i < k; i++ {
					top := ownTip()
					orphan = append(orphan, top)
					if err := n.Exec.VerifDeleteBlock(top, false); err != nil {
						t.Fatalf("delete: %v", err)
					}
					blocks = blocks[:len(blocks)-1]
					checkTip(fmt.Sprintf("after removing block %d (%d of %d removals)", top.Header.Height, i+1, k))
				}
				regrown := buildChain(t, n, rapid.IntRange(0, k+2).Draw(t, "regrow"), 100)
				for i, b := range regrown {
					if b.Header.Height != uint32(len(blocks)+i+1) {
						t.Fatalf("block %d applied after removing %d blocks has height %d, the harness's record ends at height %d", i, k, b.Header.Height, len(blocks)+i)
					}
				}
				blocks = append(blocks, regrown...)
				checkTip(fmt.Sprintf("after removing %d blocks and applying %d new ones", k, len(regrown)))
				evid.R.Label("rpc-handlers:own-record-cross-checked-after-remove-and-regrow", 1)
			}
		}
		byHeight := map[uint32]*blockchain.Block{0: n.Genesis}
		for _, b := range blocks {
			byHeight[b.Header.Height] = b
		}
		tip := ownTip().Header.Height
		// the stored chain, height by height, is the own record as well (what the handlers read below the block cache)
		for h := uint32(0); h <= tip; h++ {
			hd, err := n.Chain.DataAccess().GetBlockHeaderByHeight(h)
			if err != nil || !bytes.Equal(hd.ID, byHeight[h].Header.ID) {
				t.Fatalf("stored header at height %d (err %v) is not the block the harness applied there (own record of %d blocks, %d removed)", h, err, len(blocks), len(orphan))
			}
		}
		if _, err := n.Chain.DataAccess().GetBlockHeaderByHeight(tip + 1); err == nil {
			t.Fatalf("a header is stored at height %d, above the last block the harness applied and did not remove (%d)", tip+1, tip)
		}
		syncer := n.Exec.VerifSyncer()
		spansCap, spansCache := false, false
		// GetLastBlock
		{
			w := &rw{}
			syncer.HandleRPCEndpointGetLastBlock()(w, &p2p.Request{})
			lb, err := blockchain.NewBlock(w.data)
			if err != nil || !bytes.Equal(lb.Header.ID, ownTip().Header.ID) {
				t.Fatalf("getLastBlock does not return the tip (height %d, the last block applied and not removed): %v", tip, err)
			}
			if len(blocks) > 0 && !bytes.Equal(w.data, ownTip().Encode()) {
				t.Fatalf("getLastBlock: the block served differs from the block applied at height %d", tip)
			}
		}
		// GetBlocksFromID
		for i := 0; i < 4; i++ {
			h := rapid.Uint32Range(0, tip).Draw(t, "fromHeight")
			if i == 0 {
				h = tip
			}
			w := &rw{}
			req := (&csync.GetBlocksFromIDRequest{ID: byHeight[h].Header.ID}).Encode()
			syncer.HandleRPCEndpointGetBlocksFromID()(w, &p2p.Request{Data: req, PeerID: "p"})
			if w.err != nil {
				t.Fatalf("getBlocksFromId(%d) error: %v", h, w.err)
			}
			resp := &csync.GetBlocksFromIDResponse{}
			if err := resp.Decode(w.data); err != nil {
				t.Fatalf("response does not decode: %v", err)
			}
			want := int(tip - h)
			if want > 103 {
				want = 103
				spansCap = true
			}
			if len(resp.Blocks) != want {
				t.Fatalf("getBlocksFromId(height %d, tip %d): %d blocks, want %d", h, tip, len(resp.Blocks), want)
			}
			for j, b := range resp.Blocks {
				b.Init()
				exp := byHeight[h+1+uint32(j)]
				if !bytes.Equal(b.Header.ID, exp.Header.ID) {
					t.Fatalf("getBlocksFromId(height %d): block %d of the answer is not the chain's block at height %d", h, j, h+1+uint32(j))
				}
				if !bytes.Equal(b.Encode(), exp.Encode()) {
					t.Fatalf("getBlocksFromId(height %d): block at height %d differs from the stored one", h, exp.Header.Height)
				}
			}
			if int(tip)-int(h) > cache {
				spansCache = true
			}
		}
		// unknown / malformed ids: error or ban, never blocks
		for _, bad := range [][]byte{bytes.Repeat([]byte{7}, 32), bytes.Repeat([]byte{7}, 31), {}, nil} {
			w := &rw{}
			var data []byte
			if bad != nil {
				data = (&csync.GetBlocksFromIDRequest{ID: bad}).Encode()
			}
			syncer.HandleRPCEndpointGetBlocksFromID()(w, &p2p.Request{Data: data, PeerID: "p"})
			if w.err == nil && len(w.data) > 0 {
				resp := &csync.GetBlocksFromIDResponse{}
				if resp.Decode(w.data) == nil && len(resp.Blocks) > 0 {
					t.Fatalf("getBlocksFromId(unknown id %x) returned blocks", bad)
				}
			}
		}
		for _, o := range orphan {
			w := &rw{}
			syncer.HandleRPCEndpointGetBlocksFromID()(w, &p2p.Request{Data: (&csync.GetBlocksFromIDRequest{ID: o.Header.ID}).Encode(), PeerID: "p"})
			if w.err == nil && len(w.data) > 0 {
				resp := &csync.GetBlocksFromIDResponse{}
				if resp.Decode(w.data) == nil && len(resp.Blocks) > 0 {
					t.Fatalf("getBlocksFromId(id of a removed block at height %d) returned blocks", o.Header.Height)
				}
			}
		}
		// GetHighestCommonBlock
		for i := 0; i < 4; i++ {
			var ids [][]byte
			var highest int64 = -1
			k := rapid.IntRange(1, 8).Draw(t, "ids")
			// request sizes real peers send: fast sync offers 2*validators-1 ids (205 with 103 validators), and after a long own fork
			// every shared id sits at the END of the list (added after seeded change C19-s: only the first 100 ids were looked up)
			if i == 3 {
				lead := rapid.SampledFrom([]int{9, 40, 99, 100, 101, 150, 204, 299}).Draw(t, "unknownLead")
				for j := 0; j < lead; j++ {
					ids = append(ids, append(bytes.Repeat([]byte{0xEE}, 30), byte(j>>8), byte(j)))
				}
				evid.R.Label(fmt.Sprintf("common-block-request-with-%d-unknown-ids-first", lead), 1)
			}
			for j := 0; j < k; j++ {
				switch rapid.SampledFrom([]string{"chain", "chain", "unknown", "orphan"}).Draw(t, "idKind") {
				case "chain":
					h := rapid.Uint32Range(0, tip).Draw(t, "idHeight")
					ids = append(ids, byHeight[h].Header.ID)
					if int64(h) > highest {
						highest = int64(h)
					}
				case "orphan":
					if len(orphan) > 0 {
						ids = append(ids, rapid.SampledFrom(orphan).Draw(t, "orphanBlock").Header.ID)
						break
					}
					fallthrough
				default:
					ids = append(ids, bytes.Repeat([]byte{byte(rapid.IntRange(1, 250).Draw(t, "unk"))}, 32))
				}
			}
			w := &rw{}
			syncer.HandleRPCEndpointGetHighestCommonBlock()(w, &p2p.Request{Data: (&csync.GetHighestCommonBlockRequest{IDs: ids}).Encode(), PeerID: "p"})
			if w.err != nil {
				t.Fatalf("getHighestCommonBlock error %v", w.err)
			}
			resp := &csync.GetHighestCommonBlockResponse{}
			if len(w.data) > 0 {
				if err := resp.Decode(w.data); err != nil {
					t.Fatalf("decode: %v", err)
				}
			}
			if highest < 0 {
				if len(resp.ID) != 0 {
					t.Fatalf("getHighestCommonBlock: no id on the chain, but %x returned", resp.ID)
				}
			} else if !bytes.Equal(resp.ID, byHeight[uint32(highest)].Header.ID) {
				t.Fatalf("getHighestCommonBlock returned %x, the highest shared block is at height %d", resp.ID, highest)
			}
		}
		// malformed getHighestCommonBlock requests (no data, undecodable, no id, ANY id that is not 32 bytes long - wherever it
		// stands in the list): the handler bans the sender and serves nothing
		for i := 0; i < 4; i++ {
			var data []byte
			kind := rapid.SampledFrom([]string{"nil", "undecodable", "empty-list", "mixed", "mixed", "mixed", "all-malformed"}).Draw(t, "malformedKind")
			switch kind {
			case "undecodable":
				data = []byte{0x0a, 0xff, 0xff, 0xff, 0xff, 0x0f, 1, 2, 3}
			case "empty-list":
				data = (&csync.GetHighestCommonBlockRequest{IDs: [][]byte{}}).Encode()
			case "mixed", "all-malformed":
				k := rapid.IntRange(1, 6).Draw(t, "mixedIDs")
				ids := make([][]byte, k)
				for j := range ids {
					h := rapid.Uint32Range(0, tip).Draw(t, "mixedHeight")
					ids[j] = byHeight[h].Header.ID // well-formed, on the chain
				}
				badAt := map[int]bool{rapid.IntRange(0, k-1).Draw(t, "badAt"): true}
				if kind == "all-malformed" {
					for j := range ids {
						badAt[j] = true
					}
				}
				for j := range badAt {
					l := rapid.SampledFrom([]int{0, 1, 31, 33, 64}).Draw(t, "badLen")
					ids[j] = bytes.Repeat([]byte{9}, l)
				}
				data = (&csync.GetHighestCommonBlockRequest{IDs: ids}).Encode()
			}
			w := &rw{}
			syncer.HandleRPCEndpointGetHighestCommonBlock()(w, &p2p.Request{Data: data, PeerID: "p"})
			if w.called {
				t.Fatalf("getHighestCommonBlock served a malformed request (%s): data=%x err=%v request=%x", kind, w.data, w.err, data)
			}
			evid.R.Label("rpc-malformed-request:"+kind, 1)
		}
		evid.R.Case(fmt.Sprintf("rpc|%d|%d|%d|%v", cache, length, len(orphan), tip), spansCap || spansCache, func() any {
			return map[string]any{"kind": "rpc-handlers", "chainLength": tip, "blockCache": cache, "removedBlocks": len(orphan)}
		}, "rpc-handlers")
	})
}

// ---------------------------------------------------------------------------------------------------------------
// (3) convergence between in-process nodes over real p2p connections.

func connect(t *rapid.T, a, b *node.Node) {
	addrs, err := b.Conn.MultiAddress()
	if err != nil || len(addrs) == 0 {
		t.Fatalf("multiaddress: %v", err)
	}
	info, err := p2p.AddrInfoFromMultiAddr(addrs[0])
	if err != nil {
		t.Fatalf("addrinfo: %v", err)
	}
	ctx, cancel := context.WithTimeout(context.Background(), 5*time.Second)
	defer cancel()
	if err := a.Conn.Connect(ctx, *info); err != nil {
		t.Fatalf("connect: %v", err)
	}
}

type chainView struct {
	ids map[uint32][]byte
	tip uint32
}

func view(n *node.Node) chainView {
	v := chainView{ids: map[uint32][]byte{}, tip: n.Tip().Header.Height}
	for h := uint32(0); h <= v.tip; h++ {
		hd, err := n.Chain.DataAccess().GetBlockHeaderByHeight(h)
		if err != nil {
			panic(err)
		}
		v.ids[h] = hd.ID
	}
	return v
}

// ownView is the chain view according to the harness's OWN record of a node: genesis plus the blocks it applied there
// (as returned by Apply / handed to VerifProcess), in order. Used as the reference where the expected chain is known to
// the harness (the honest peer's chain, a node's chain before a sync), with the engine's answers (view) cross-checked
// against it by sameView instead of being the expectation themselves.
func ownView(genesis *blockchain.Block, applied []*blockchain.Block) chainView {
	v := chainView{ids: map[uint32][]byte{genesis.Header.Height: genesis.Header.ID}, tip: genesis.Header.Height}
	for _, b := range applied {
		v.ids[b.Header.Height] = b.Header.ID
		v.tip = b.Header.Height
	}
	return v
}

// sameView: "" when the engine's view of a chain equals the own record, else the first difference.
func sameView(engine, own chainView) string {
	if engine.tip != own.tip {
		return fmt.Sprintf("the node reports its last block at height %d, the last block applied to it is at height %d", engine.tip, own.tip)
	}
	if len(own.ids) != int(own.tip)+1 {
		return fmt.Sprintf("harness: own record has %d heights for a tip at %d", len(own.ids), own.tip)
	}
	for h := uint32(0); h <= own.tip; h++ {
		if !bytes.Equal(engine.ids[h], own.ids[h]) {
			return fmt.Sprintf("the header stored at height %d has id %x, the block applied there has id %x", h, engine.ids[h], own.ids[h])
		}
	}
	return ""
}

func TestConvergence(t *testing.T) {
	rapid.Check(t, func(t *rapid.T) {
		nVal := rapid.SampledFrom([]int{3, 4, 5, 3, 4, 5, 6, 7, 8, 10}).Draw(t, "validators") // 6+ validators: fast sync offers 2n-1 > 10 block IDs (added after seeded change C20-n)
		base := rapid.IntRange(0, 40).Draw(t, "ipBase") * 3
		// All lengths are drawn first: an "up to date" pair of nodes needs a clock ("now" slot) just after the last block.
		prefix := rapid.IntRange(1, 14).Draw(t, "prefix")
		// R's own fork (0..fr blocks) and P's fork (fp blocks). R's fork is built either by skipping slots (its blocks prevote
		// as usual) or "selfishly" (every block claims maxHeightGenerated = height-1, so it prevotes for itself only and R's
		// maxHeightPrevoted stays behind): only then can P's chain be better although its tip is lower.
		fr := rapid.IntRange(0, 2*nVal+2).Draw(t, "forkR")
		if rapid.IntRange(0, 3).Draw(t, "shallow") != 0 && fr > 2*nVal-2 {
			fr = 2*nVal - 2
		}
		selfish := rapid.IntRange(0, 1).Draw(t, "selfishR") == 0
		fpMin, fpMax := fr+1, fr+2*nVal+3
		if selfish {
			fpMin = 1
			if fr >= 2 && rapid.IntRange(0, 1).Draw(t, "lowerTip") == 0 {
				fpMax = fr - 1
			}
		}
		fp := rapid.IntRange(fpMin, fpMax).Draw(t, "forkP")
		if rapid.IntRange(0, 4).Draw(t, "farAhead") == 0 {
			fp = fr + 2*nVal + 1 + rapid.IntRange(1, 12).Draw(t, "far") // beyond two rounds: block sync
		}
		upToDate := rapid.IntRange(0, 1).Draw(t, "upToDate") == 0
		scen := rapid.IntRange(0, 5).Draw(t, "scenario")
		boundary := false
		if scen == 0 {
			// directed: the better chain is the shorter one, both nodes up to date, fork within reach of fast sync
			selfish, upToDate = true, true
			fr = rapid.IntRange(3, 2*nVal-2).Draw(t, "forkR2")
			fp = rapid.IntRange(2, fr-1).Draw(t, "forkP2")
		}
		if (scen == 1 || scen == 2) && nVal >= 4 {
			// directed: the requester's own fork is grown (every validator voting) until its finalized block IS the fork point:
			// the highest common block the protocol still allows to switch at
			boundary, selfish, upToDate = true, false, false
			fr = 2*nVal - 2
		}
		if scen == 3 {
			// directed: a fork deeper than the first window of the block-sync common-block search (9 heights one round apart):
			// the requester sits on a long fork that never advanced its finality; the search has to move on to lower windows
			selfish, upToDate, boundary = true, false, false
			fr = 9*nVal + rapid.IntRange(1, 3*nVal).Draw(t, "deepFork")
			fp = fr + 2*nVal + 1 + rapid.IntRange(1, 5).Draw(t, "deepAhead")
		}
		gapR := 2
		if selfish || boundary {
			gapR = 1
		}
		cfgR := node.Config{Genesis: node.EqualGenesis(nVal), BatchSize: nVal, ListenAddr: listenAddr(base)}
		if upToDate {
			// "now" is the slot after the last block of either branch: the node is not behind, so block sync is only
			// prescribed when finality is more than three rounds old
			last := prefix + fr*gapR
			if prefix+fp > last {
				last = prefix + fp
			}
			cfgR.SlotsBehind = last + 1
		}
		R, err := node.New(cfgR)
		if err != nil {
			t.Fatalf("node R: %v", err)
		}
		defer R.Close()
		cfgP := cfgR
		cfgP.GenesisTS = R.Cfg.GenesisTS
		cfgP.ListenAddr = listenAddr(base + 1)
		P, err := node.New(cfgP)
		if err != nil {
			t.Fatalf("node P: %v", err)
		}
		defer P.Close()
		var hist []string
		// own record of what was applied to P and to R (the reference for the peer's chain and for R's chain before the sync)
		var recP, recR []*blockchain.Block
		// shared prefix
		for i := 0; i < prefix; i++ {
			b, err := P.Apply(node.Spec{Script: node.Script{Salt: uint32(i % 5)}})
			if err != nil {
				t.Fatalf("P apply: %v", err)
			}
			if err := R.Exec.VerifProcess(node.CloneBlock(b), "x"); err != nil {
				t.Fatalf("R apply shared: %v", err)
			}
			recP, recR = append(recP, b), append(recR, b)
		}
		hist = append(hist, fmt.Sprintf("shared prefix %d blocks, finalized R=%d, selfish=%v upToDate=%v", prefix, R.Finalized(), selfish, upToDate))
		for i := 0; i < fr; i++ {
			if boundary && R.Finalized() >= uint32(prefix) {
				fr = i
				break
			}
			spec := node.Spec{SlotGap: gapR, Script: node.Script{Salt: 50 + uint32(i)}}
			if selfish {
				mhg := R.Tip().Header.Height
				spec.MHG = &mhg
			}
			b, err := R.Apply(spec)
			if err != nil {
				t.Fatalf("R fork: %v", err)
			}
			recR = append(recR, b)
		}
		if boundary {
			fp = fr + rapid.IntRange(1, 3).Draw(t, "boundaryAhead")
			if fp > 2*nVal {
				fp = 2 * nVal
			}
		}
		for i := 0; i < fp; i++ {
			b, err := P.Apply(node.Spec{Script: node.Script{Salt: 80 + uint32(i%5)}})
			if err != nil {
				t.Fatalf("P fork: %v", err)
			}
			recP = append(recP, b)
		}
		hist = append(hist, fmt.Sprintf("R fork %d blocks (tip %d, finalized %d), P fork %d blocks (tip %d)", fr, R.Tip().Header.Height, R.Finalized(), fp, P.Tip().Header.Height))
		connect(t, R, P)
		before := ownView(R.Genesis, recR)
		if d := sameView(view(R), before); d != "" {
			t.Fatalf("requester before the sync: %s\n%s", d, strings.Join(hist, "\n"))
		}
		Fbefore := R.Finalized()
		finalIDs := map[uint32][]byte{}
		for h := uint32(0); h <= Fbefore; h++ {
			finalIDs[h] = before.ids[h]
		}
		ptip := recP[len(recP)-1] // the block the peer announced: the last block applied to it (own record, prefix >= 1)
		if !bytes.Equal(P.Tip().Header.ID, ptip.Header.ID) {
			t.Fatalf("peer: Chain.LastBlock() is height %d id %x, the last block applied to it is height %d id %x\n%s", P.Tip().Header.Height, []byte(P.Tip().Header.ID), ptip.Header.Height, []byte(ptip.Header.ID), strings.Join(hist, "\n"))
		}
		// ... and the peer may have moved on since: its chain keeps growing while the requester syncs towards the announced block
		moved := 0
		if rapid.IntRange(0, 2).Draw(t, "peerMovedOn") == 0 {
			moved = rapid.IntRange(1, 3).Draw(t, "movedBy")
			for i := 0; i < moved; i++ {
				if P.SlotOf(P.Tip().Header.Timestamp) >= P.Cfg.SlotsBehind-1 {
					moved = i
					break
				}
				b, err := P.Apply(node.Spec{Script: node.Script{Salt: 90 + uint32(i)}})
				if err != nil {
					t.Fatalf("P moves on: %v", err)
				}
				recP = append(recP, b)
			}
			hist = append(hist, fmt.Sprintf("peer moved on by %d blocks after announcing its block %d", moved, ptip.Header.Height))
		}
		preal := recP[len(recP)-1]
		if !bytes.Equal(P.Tip().Header.ID, preal.Header.ID) {
			t.Fatalf("peer: Chain.LastBlock() is height %d id %x, the last block applied to it is height %d id %x\n%s", P.Tip().Header.Height, []byte(P.Tip().Header.ID), preal.Header.Height, []byte(preal.Header.ID), strings.Join(hist, "\n"))
		}
		// is P's tip better by LIP-0014?
		rt := R.Tip().Header
		better := rt.MaxHeightPrevoted < ptip.Header.MaxHeightPrevoted || (rt.MaxHeightPrevoted == ptip.Header.MaxHeightPrevoted && rt.Height < ptip.Header.Height)
		done := make(chan error, 1)
		go func() { done <- R.Exec.VerifProcess(node.CloneBlock(ptip), P.Conn.ID()) }()
		var perr error
		select {
		case perr = <-done:
		case <-time.After(60 * time.Second):
			evid.R.Inconclusive("sync did not finish within 60 s: %v", hist)
			t.Skip("sync timeout (inconclusive)")
		}
		after := view(R)
		// finality oracle (C04) runs alongside
		if R.Finalized() < Fbefore {
			t.Fatalf("finalized height decreased during sync %d -> %d\n%s", Fbefore, R.Finalized(), strings.Join(hist, "\n"))
		}
		for h, id := range finalIDs {
			if !bytes.Equal(after.ids[h], id) {
				t.Fatalf("finalized block at height %d replaced during sync\n%s", h, strings.Join(hist, "\n"))
			}
		}
		commonBelowFinality := uint32(prefix) < Fbefore
		// the peer's chain = the blocks applied to it (own record); what the peer's engine reports must agree with it
		pv := ownView(P.Genesis, recP)
		if d := sameView(view(P), pv); d != "" {
			t.Fatalf("honest peer after serving the sync: %s\n%s", d, strings.Join(hist, "\n"))
		}
		evid.R.Label("convergence:peer-chain-and-requester-chain-before-sync-taken-from-own-record(engine cross-checked)", 1)
		converged := bytes.Equal(R.Tip().Header.ID, ptip.Header.ID) || bytes.Equal(R.Tip().Header.ID, preal.Header.ID)
		// Which mechanism the protocol prescribes and whether it can succeed (LIP-0014): fast chain switching looks for the
		// common block among the last 2*n-1 heights and gives up beyond two rounds; block sync needs a height gap > two rounds.
		gap := int(ptip.Header.Height) - int(rt.Height)
		if gap < 0 {
			gap = -gap
		}
		// (Syncer.Sync: fast sync is tried when the tips are at most two rounds apart and is not followed by block sync;
		// block sync otherwise, when the finalized block is more than three rounds of slots old.)
		fastTried := gap <= 2*nVal
		fastOK := fastTried && fr <= 2*nVal-2 && fp <= 2*nVal
		finSlot := 0
		if fh, err := R.Chain.DataAccess().GetBlockHeaderByHeight(Fbefore); err == nil {
			finSlot = R.SlotOf(fh.Timestamp)
		}
		blockOK := !fastTried && R.Cfg.SlotsBehind-finSlot > 3*nVal
		promised := fastOK || blockOK
		if !promised {
			evid.R.Label("fork-deeper-than-two-rounds-not-asserted", 1)
		}
		switch {
		case better && !commonBelowFinality && promised:
			if !converged {
				t.Fatalf("honest peer offered a better valid chain (tip %d, mhp %d vs own tip %d, mhp %d) but the node did not end on it: tip %d, err=%v\n%s",
					ptip.Header.Height, ptip.Header.MaxHeightPrevoted, rt.Height, rt.MaxHeightPrevoted, R.Tip().Header.Height, perr, strings.Join(hist, "\n"))
			}
			for h, id := range after.ids {
				if !bytes.Equal(pv.ids[h], id) {
					t.Fatalf("after sync block at height %d is not the peer's\n%s", h, strings.Join(hist, "\n"))
				}
			}
			temps, _ := R.Chain.DataAccess().GetTempBlocks()
			if len(temps) != 0 {
				t.Fatalf("temp blocks left after a successful sync: %d\n%s", len(temps), strings.Join(hist, "\n"))
			}
		case !better:
			// nothing may change
			if !bytes.Equal(R.Tip().Header.ID, rt.ID) {
				t.Fatalf("peer's chain was not better, yet the tip changed\n%s", strings.Join(hist, "\n"))
			}
		}
		mode := "fast"
		if blockOK {
			mode = "block"
		}
		evid.R.Case(strings.Join(hist, "|"), fr >= 2 && converged, func() any {
			return map[string]any{"kind": "convergence", "history": hist, "mode": mode, "converged": converged, "err": fmt.Sprint(perr)}
		}, "convergence", "mode-"+mode, fmt.Sprintf("converged-%v", converged), fmt.Sprintf("better-%v", better),
			fmt.Sprintf("better-with-lower-tip-%v", better && ptip.Header.Height < rt.Height), fmt.Sprintf("up-to-date-%v", upToDate),
			fmt.Sprintf("common-block-is-the-finalized-block-%v", uint32(prefix) == Fbefore), fmt.Sprintf("peer-moved-on-%v", moved > 0),
			fmt.Sprintf("fork-below-first-search-window-%v", blockOK && fr > 9*nVal))
	})
}

// ---------------------------------------------------------------------------------------------------------------
// (3a) block sync with several connected peers: the node must download from the peer the selection rule names
// (largest maxHeightPrevoted first, then height), whichever peer's block started the sync.

func TestMultiPeerBlockSync(t *testing.T) {
	rapid.Check(t, func(t *rapid.T) {
		nVal := rapid.IntRange(3, 5).Draw(t, "validators")
		base := rapid.IntRange(0, 40).Draw(t, "ipBase") * 4
		prefix := rapid.IntRange(1, 10).Draw(t, "prefix")
		// peer B: honest round-robin blocks (maxHeightPrevoted follows the tip); peer C: "selfish" blocks (each prevotes for
		// itself only, maxHeightPrevoted stays where the prefix left it) or ordinary ones.
		fb := 2*nVal + 1 + rapid.IntRange(1, 10).Draw(t, "forkB")
		fc := 2*nVal + 1 + rapid.IntRange(1, 14).Draw(t, "forkC")
		selfishC := rapid.IntRange(0, 3).Draw(t, "selfishC") != 0
		twinB := rapid.IntRange(0, 2).Draw(t, "twinB") == 0 // a third peer holding B's chain as well
		trigger := rapid.SampledFrom([]string{"B", "C"}).Draw(t, "trigger")
		mk := func(i int, ts uint32) *node.Node {
			cfg := node.Config{Genesis: node.EqualGenesis(nVal), BatchSize: nVal, ListenAddr: listenAddr(base + i), GenesisTS: ts}
			n, err := node.New(cfg)
			if err != nil {
				t.Fatalf("node %d: %v", i, err)
			}
			return n
		}
		R := mk(0, 0)
		defer R.Close()
		B := mk(1, R.Cfg.GenesisTS)
		defer B.Close()
		C := mk(2, R.Cfg.GenesisTS)
		defer C.Close()
		peers := []*node.Node{B, C}
		var B2 *node.Node
		if twinB {
			B2 = mk(3, R.Cfg.GenesisTS)
			defer B2.Close()
			peers = append(peers, B2)
		}
		give := func(b *blockchain.Block, to ...*node.Node) {
			for _, n := range to {
				if n == nil {
					continue
				}
				if err := n.Exec.VerifProcess(node.CloneBlock(b), "x"); err != nil {
					t.Fatalf("apply shared block %d: %v", b.Header.Height, err)
				}
			}
		}
		for i := 0; i < prefix; i++ {
			b, err := B.Apply(node.Spec{Script: node.Script{Salt: uint32(i % 5)}})
			if err != nil {
				t.Fatalf("prefix: %v", err)
			}
			give(b, R, C, B2)
		}
		for i := 0; i < fb; i++ {
			b, err := B.Apply(node.Spec{Script: node.Script{Salt: 80 + uint32(i%5)}})
			if err != nil {
				t.Fatalf("B fork: %v", err)
			}
			give(b, B2)
		}
		for i := 0; i < fc; i++ {
			spec := node.Spec{Script: node.Script{Salt: 120 + uint32(i%5)}}
			if selfishC {
				mhg := C.Tip().Header.Height
				spec.MHG = &mhg
			}
			if _, err := C.Apply(spec); err != nil {
				t.Fatalf("C fork: %v", err)
			}
		}
		for _, p := range peers {
			connect(t, R, p)
		}
		bt, ct := B.Tip(), C.Tip()
		// expected choice by the stated rule
		want := "B"
		switch {
		case ct.Header.MaxHeightPrevoted > bt.Header.MaxHeightPrevoted:
			want = "C"
		case ct.Header.MaxHeightPrevoted == bt.Header.MaxHeightPrevoted && ct.Header.Height > bt.Header.Height:
			want = "C"
		case ct.Header.MaxHeightPrevoted == bt.Header.MaxHeightPrevoted && ct.Header.Height == bt.Header.Height:
			want = "B (twin)"
			if !twinB {
				want = "either"
			}
		}
		hist := fmt.Sprintf("n=%d prefix=%d B: +%d tip %d mhp %d (twin %v); C: +%d selfish=%v tip %d mhp %d; trigger %s; want %s", nVal, prefix, fb,
			bt.Header.Height, bt.Header.MaxHeightPrevoted, twinB, fc, selfishC, ct.Header.Height, ct.Header.MaxHeightPrevoted, trigger, want)
		tb, from := bt, B
		if trigger == "C" {
			tb, from = ct, C
		}
		Fbefore := R.Finalized()
		before := view(R)
		done := make(chan error, 1)
		go func() { done <- R.Exec.VerifProcess(node.CloneBlock(tb), from.Conn.ID()) }()
		var perr error
		select {
		case perr = <-done:
		case <-time.After(90 * time.Second):
			evid.R.Inconclusive("multi-peer sync did not finish within 90 s: %s", hist)
			t.Skip("sync timeout (inconclusive)")
		}
		after := view(R)
		for h := uint32(0); h <= Fbefore; h++ {
			if !bytes.Equal(after.ids[h], before.ids[h]) {
				t.Fatalf("finalized block at height %d replaced during sync\n%s", h, hist)
			}
		}
		tip := R.Tip().Header
		onB, onC := bytes.Equal(tip.ID, bt.Header.ID), bytes.Equal(tip.ID, ct.Header.ID)
		switch {
		case strings.HasPrefix(want, "B") && !onB, want == "C" && !onC, want == "either" && !onB && !onC:
			t.Fatalf("block sync with %d peers ended on the wrong chain (tip height %d, on B=%v on C=%v, err=%v)\n%s", len(peers), tip.Height, onB, onC, perr, hist)
		}
		lowerBest := (want == "B" || want == "B (twin)") && bt.Header.Height < ct.Header.Height || want == "C" && ct.Header.Height < bt.Header.Height
		evid.R.Case(hist, lowerBest, func() any {
			return map[string]any{"kind": "multi-peer-block-sync", "history": hist}
		}, "multi-peer-block-sync", "want-"+want, fmt.Sprintf("best-peer-has-lower-tip-%v", lowerBest), "trigger-"+trigger)
	})
}

// ---------------------------------------------------------------------------------------------------------------
// (3b) a malicious peer during fast sync: valid prefix, then an invalid block / reordered / truncated segment.

type malicious struct {
	conn   *p2p.Connection
	common []byte
	serve  func(fromID []byte) []*blockchain.Block
	calls  int
}

func newMalicious(t *rapid.T, addr string) *malicious {
	m := &malicious{}
	m.conn = p2p.NewConnection(node.NopLogger(), &p2p.Config{ChainID: node.ChainID, Version: "1.0", Addresses: []string{addr}, MinNumOfConnections: 1, MaxNumOfConnections: 20})
	must := func(err error) {
		if err != nil {
			t.Fatalf("malicious peer: %v", err)
		}
	}
	must(m.conn.RegisterRPCHandler(csync.RPCEndpointGetHighestCommonBlock, func(w p2p.ResponseWriter, r *p2p.Request) {
		w.Write((&csync.GetHighestCommonBlockResponse{ID: m.common}).Encode())
	}))
	must(m.conn.RegisterRPCHandler(csync.RPCEndpointGetBlocksFromID, func(w p2p.ResponseWriter, r *p2p.Request) {
		req := &csync.GetBlocksFromIDRequest{}
		if err := req.Decode(r.Data); err != nil {
			w.Error(err)
			return
		}
		m.calls++
		w.Write((&csync.GetBlocksFromIDResponse{Blocks: m.serve(req.ID)}).Encode())
	}))
	must(m.conn.RegisterRPCHandler(csync.RPCEndpointGetLastBlock, func(w p2p.ResponseWriter, r *p2p.Request) { w.Write(nil) }))
	must(m.conn.Start(nil))
	return m
}

func TestMaliciousFastSync(t *testing.T) {
	rapid.Check(t, func(t *rapid.T) {
		nVal := rapid.IntRange(3, 5).Draw(t, "validators")
		base := 120 + rapid.IntRange(0, 20).Draw(t, "ipBase")*3
		R, err := node.New(node.Config{Genesis: node.EqualGenesis(nVal), BatchSize: nVal, ListenAddr: listenAddr(base)})
		if err != nil {
			t.Fatalf("node R: %v", err)
		}
		defer R.Close()
		cfgP := R.Cfg
		cfgP.ListenAddr = ""
		P, err := node.New(node.Config{Genesis: node.EqualGenesis(nVal), BatchSize: nVal, GenesisTS: R.Cfg.GenesisTS})
		if err != nil {
			t.Fatalf("node P: %v", err)
		}
		defer P.Close()
		prefix := rapid.IntRange(1, 10).Draw(t, "prefix")
		for i := 0; i < prefix; i++ {
			b, err := P.Apply(node.Spec{Script: node.Script{Salt: uint32(i % 5)}})
			if err != nil {
				t.Fatalf("P apply: %v", err)
			}
			if err := R.Exec.VerifProcess(node.CloneBlock(b), "x"); err != nil {
				t.Fatalf("R shared: %v", err)
			}
		}
		common := P.Tip().Header.ID
		fr := rapid.IntRange(0, 2*nVal-2).Draw(t, "forkR")
		for i := 0; i < fr; i++ {
			if _, err := R.Apply(node.Spec{SlotGap: 2, Script: node.Script{Salt: 50 + uint32(i)}}); err != nil {
				t.Fatalf("R fork: %v", err)
			}
		}
		lo := fr + 1
		if lo < 2 {
			lo = 2 // a single block on top of the requester's tip is simply a valid next block: no sync, nothing malicious to serve
		}
		fp := rapid.IntRange(lo, 2*nVal).Draw(t, "forkP")
		var seg []*blockchain.Block
		for i := 0; i < fp; i++ {
			b, err := P.Apply(node.Spec{Script: node.Script{Salt: 80 + uint32(i%5)}})
			if err != nil {
				t.Fatalf("P fork: %v", err)
			}
			seg = append(seg, b)
		}
		tip := seg[len(seg)-1]
		attack := rapid.SampledFrom([]string{"invalid-block", "invalid-block", "reordered", "truncated-then-empty", "foreign-tail"}).Draw(t, "attack")
		// At most 4 valid blocks precede the corruption: with n >= 3 validators a fork block needs at least 5 successors to be
		// finalized, so the requester never finalizes the attacker's branch (otherwise "restore the original" is impossible by C04
		// and the adversary would control more than a third of the validators, outside the protocol's fault bound).
		maxBad := len(seg) - 1
		if maxBad > 4 {
			maxBad = 4
		}
		j := rapid.IntRange(0, maxBad).Draw(t, "badIndex")
		served := make([]*blockchain.Block, len(seg))
		for i, b := range seg {
			served[i] = node.CloneBlock(b)
		}
		switch attack {
		case "invalid-block":
			// statically fine (roots consistent, correctly signed) but the state root does not match execution
			bad := node.CloneBlock(seg[j])
			sr := append([]byte{}, bad.Header.StateRoot...)
			sr[5] ^= 1
			bad.Header.StateRoot = sr
			node.Resign(bad, node.KeyByAddr(bad.Header.GeneratorAddress))
			served[j] = bad
			if j == len(seg)-1 {
				tip = bad // the offered tip itself is the invalid block
			}
		case "reordered":
			// a gap: one block that is not the advertised tip is missing, so its successor does not link to what precedes it
			if len(served) >= 2 {
				hi := len(served) - 2
				if hi > 4 {
					hi = 4
				}
				k := rapid.IntRange(0, hi).Draw(t, "missing")
				served = append(append([]*blockchain.Block{}, served[:k]...), served[k+1:]...)
			}
		}
		M := newMalicious(t, listenAddr(base+1))
		defer M.conn.Stop()
		M.common = common
		M.serve = func(from []byte) []*blockchain.Block {
			switch attack {
			case "truncated-then-empty":
				if M.calls == 1 && j > 0 {
					return served[:j]
				}
				return nil // never delivers the rest
			case "foreign-tail":
				if M.calls == 1 {
					return served[:len(served)-1] // everything but the advertised tip, forever
				}
				return nil
			}
			return served
		}
		// connect R -> M
		addrs, _ := M.conn.MultiAddress()
		info, err := p2p.AddrInfoFromMultiAddr(addrs[0])
		if err != nil {
			t.Fatalf("addr: %v", err)
		}
		cctx, cancel := context.WithTimeout(context.Background(), 5*time.Second)
		if err := R.Conn.Connect(cctx, *info); err != nil {
			cancel()
			t.Fatalf("connect: %v", err)
		}
		cancel()
		before := view(R)
		Fb := R.Finalized()
		done := make(chan error, 1)
		go func() { done <- R.Exec.VerifProcess(node.CloneBlock(tip), M.conn.ID()) }()
		var perr error
		hung := false
		select {
		case perr = <-done:
		case <-time.After(25 * time.Second):
			hung = true
		}
		desc := fmt.Sprintf("validators=%d prefix=%d forkR=%d forkP=%d attack=%s badIndex=%d", nVal, prefix, fr, fp, attack, j)
		if hung {
			if evid.R.KnownFinding("sync-hangs:peer-serves-empty-segment") {
				evid.R.Case(desc, true, nil, "malicious", "attack-"+attack, "hung-known")
				return
			}
			t.Fatalf("fast sync from a peer that stops serving blocks (RPC calls served: %d) did not return within 25 s: the consensus goroutine is stuck\n%s", M.calls, desc)
		}
		after := view(R)
		if R.Finalized() < Fb {
			t.Fatalf("finalized height decreased: %s", desc)
		}
		// an attack that corrupts the segment must leave the original chain in place
		corrupting := attack != "reordered" || len(seg) >= 2
		if corrupting {
			if after.tip != before.tip {
				t.Fatalf("malicious segment (%s): tip height %d -> %d, err=%v", desc, before.tip, after.tip, perr)
			}
			for h, id := range before.ids {
				if !bytes.Equal(after.ids[h], id) {
					t.Fatalf("malicious segment (%s): block at height %d changed, err=%v", desc, h, perr)
				}
			}
			if temps, _ := R.Chain.DataAccess().GetTempBlocks(); len(temps) != 0 {
				if !evid.R.KnownFinding("temp-blocks-left:failed-fast-sync") {
					t.Fatalf("malicious segment (%s): %d temp blocks left after the original chain was restored", desc, len(temps))
				}
			}
			// and R keeps working: the next valid block on its own chain is accepted
			if R.SlotOf(R.Tip().Header.Timestamp) < R.Cfg.SlotsBehind-2 {
				if _, err := R.Apply(node.Spec{SlotGap: 2}); err != nil {
					t.Fatalf("malicious segment (%s): node no longer accepts valid blocks: %v", desc, err)
				}
			}
		}
		if attack == "invalid-block" && fr >= 0 {
			banned := len(R.Conn.BlacklistedPeers()) > 0
			stillConnected := false
			for _, p := range R.Conn.ConnectedPeers() {
				if p == M.conn.ID() {
					stillConnected = true
				}
			}
			if !banned && stillConnected {
				t.Fatalf("peer that served an invalid block during fast sync (%s) was neither banned nor disconnected (err=%v)", desc, perr)
			}
		}
		evid.R.Case(desc, fr >= 2, func() any { return map[string]any{"kind": "malicious-fast-sync", "case": desc, "result": fmt.Sprint(perr)} }, "malicious", "attack-"+attack)
	})
}

// Regression (C19-F1): among equally good tips the most common block ID must win.
func TestRegressMostCommonID(t *testing.T) {
	mk := func(id byte) *csync.NodeInfo { return csync.NewNodeInfo(5, 3, 2, []byte{id}) }
	for i := 0; i < 200; i++ {
		got, err := csync.VerifBestNodeInfo([]*csync.NodeInfo{mk(1), mk(2), mk(2), mk(3), mk(2), mk(1)})
		if err != nil || got.VerifLastBlockID()[0] != 2 {
			t.Fatalf("selected id %v, want the most common (2)", got.VerifLastBlockID())
		}
	}
	evid.R.Case("regress-most-common", true, func() any { return "ids 1,2,2,3,2,1 on equal (height,mhp): 2 must win" }, "regress")
}
