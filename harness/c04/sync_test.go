package c04

import (
	"bytes"
	"context"
	"fmt"
	"strings"
	"testing"
	"time"

	"github.com/LiskHQ/lisk-engine/pkg/consensus"
	"github.com/LiskHQ/lisk-engine/pkg/p2p"
	"pgregory.net/rapid"

	"verifharness/evid"
	"verifharness/node"
)

// Finality raised while the node is syncing: two in-process nodes over real p2p connections on loopback. The requester
// processes the responder's tip, which starts a fast or a full sync; the blocks then arrive through the syncer's processor
// callback. The oracle is the one of the state machine: the finalized height never decreases, finalized heights keep their
// block IDs, and the finalize events chain exactly from the old to the new stored value - one event per raise, also for raises
// that happen inside a sync.

func listen(i int) string { return fmt.Sprintf("/ip4/127.0.1.%d/tcp/0", 2+i%200) }

func TestSyncFinality(t *testing.T) {
	rapid.Check(t, func(t *rapid.T) {
		nVal := rapid.IntRange(3, 5).Draw(t, "validators")
		base := rapid.IntRange(0, 90).Draw(t, "ipBase") * 2
		prefix := rapid.IntRange(1, 12).Draw(t, "prefix")
		fr := rapid.IntRange(0, 2).Draw(t, "forkR")
		fp := rapid.IntRange(fr+2, fr+2*nVal).Draw(t, "forkP") // within two rounds: fast sync
		if rapid.Bool().Draw(t, "farAhead") {
			fp = fr + 2*nVal + 1 + rapid.IntRange(1, 10).Draw(t, "far") // beyond two rounds: full sync
		}
		cfgR := node.Config{Genesis: node.EqualGenesis(nVal), BatchSize: nVal, ListenAddr: listen(base)}
		R, err := node.New(cfgR)
		if err != nil {
			t.Fatalf("node R: %v", err)
		}
		defer R.Close()
		cfgP := cfgR
		cfgP.GenesisTS = R.Cfg.GenesisTS
		cfgP.ListenAddr = listen(base + 1)
		P, err := node.New(cfgP)
		if err != nil {
			t.Fatalf("node P: %v", err)
		}
		defer P.Close()
		for i := 0; i < prefix; i++ {
			b, err := P.Apply(node.Spec{Script: node.Script{Salt: uint32(i % 5)}})
			if err != nil {
				t.Fatalf("P apply: %v", err)
			}
			if err := R.Exec.VerifProcess(node.CloneBlock(b), "x"); err != nil {
				t.Fatalf("R apply shared: %v", err)
			}
		}
		for i := 0; i < fr; i++ {
			if _, err := R.Apply(node.Spec{SlotGap: 2, Script: node.Script{Salt: 50 + uint32(i)}}); err != nil {
				t.Fatalf("R fork: %v", err)
			}
		}
		for i := 0; i < fp; i++ {
			if _, err := P.Apply(node.Spec{Script: node.Script{Salt: 80 + uint32(i%5)}}); err != nil {
				t.Fatalf("P fork: %v", err)
			}
		}
		hist := fmt.Sprintf("n=%d prefix=%d R fork %d (tip %d, finalized %d) P fork %d (tip %d, finalized %d)", nVal, prefix, fr, R.Tip().Header.Height, R.Finalized(), fp, P.Tip().Header.Height, P.Finalized())
		addrs, err := P.Conn.MultiAddress()
		if err != nil || len(addrs) == 0 {
			t.Fatalf("multiaddress: %v", err)
		}
		info, err := p2p.AddrInfoFromMultiAddr(addrs[0])
		if err != nil {
			t.Fatalf("addrinfo: %v", err)
		}
		cctx, cancel := context.WithTimeout(context.Background(), 5*time.Second)
		err = R.Conn.Connect(cctx, *info)
		cancel()
		if err != nil {
			t.Fatalf("connect: %v", err)
		}
		Fbefore := R.Finalized()
		ids := map[uint32][]byte{}
		for h := uint32(0); h <= Fbefore; h++ {
			hd, err := R.Chain.DataAccess().GetBlockHeaderByHeight(h)
			if err != nil {
				t.Fatalf("header %d: %v", h, err)
			}
			ids[h] = hd.ID
		}
		R.TakeEvents()
		ptip := P.Tip()
		done := make(chan error, 1)
		go func() { done <- R.Exec.VerifProcess(node.CloneBlock(ptip), P.Conn.ID()) }()
		var perr error
		select {
		case perr = <-done:
		case <-time.After(60 * time.Second):
			evid.R.Inconclusive("sync did not finish within 60 s: %s", hist)
			t.Skip("sync timeout (inconclusive)")
		}
		F := R.Finalized()
		if F < Fbefore {
			t.Fatalf("finalized height decreased during sync %d -> %d\n%s", Fbefore, F, hist)
		}
		for h, id := range ids {
			hd, err := R.Chain.DataAccess().GetBlockHeaderByHeight(h)
			if err != nil || !bytes.Equal(hd.ID, id) {
				t.Fatalf("finalized block at height %d replaced or missing after sync (%v)\n%s", h, err, hist)
			}
		}
		cur, n := Fbefore, 0
		for _, e := range R.TakeEvents() {
			if e.Topic != consensus.EventBlockFinalize {
				continue
			}
			f := e.Msg.(*consensus.EventBlockFinalizeMessage)
			if f.Original != cur || f.Next <= f.Original {
				t.Fatalf("finalize event (original=%d next=%d) does not continue from finalized height %d during sync\n%s", f.Original, f.Next, cur, hist)
			}
			cur = f.Next
			n++
		}
		if cur != F {
			t.Fatalf("stored finalized height went %d -> %d during the sync but the finalize events account for %d -> %d (%d events), sync err=%v\n%s", Fbefore, F, Fbefore, cur, n, perr, hist)
		}
		if R.Tip().Header.Height < F {
			t.Fatalf("tip %d below finalized height %d after sync\n%s", R.Tip().Header.Height, F, hist)
		}
		mode := "fast"
		if int(ptip.Header.Height)-int(R.Tip().Header.Height) > 2*nVal || fp-fr > 2*nVal {
			mode = "full"
		}
		converged := bytes.Equal(R.Tip().Header.ID, ptip.Header.ID)
		evid.R.Case(hist, F > Fbefore, func() any {
			return map[string]any{"kind": "sync-finality", "history": hist, "finalizedBefore": Fbefore, "finalizedAfter": F, "events": n, "converged": converged}
		}, "sync-finality", "sync-mode-"+mode, fmt.Sprintf("finality-rose-in-sync-%v", F > Fbefore), fmt.Sprintf("converged-%v", converged))
		_ = strings.Join
	})
}
