package c04

import (
	"io"
	"os"
	"sync"

	"github.com/cockroachdb/pebble/vfs"
)

// countFS wraps pebble's strict in-memory FS and counts every operation that changes durable state (create, write,
// sync, rename, remove, link, mkdir, dir-sync). While armed, the trigger fires when the counter reaches the crash
// point: from then on nothing becomes durable any more (SetIgnoreSyncs), which models the process dying there.
type countFS struct {
	*vfs.MemFS
	mu      sync.Mutex
	active  bool // counting window (inside the target step)
	count   int
	crashAt int // -1 = never
	crashed bool
	log     []string
}

func newCountFS() *countFS {
	return &countFS{MemFS: vfs.NewStrictMem(), crashAt: -1}
}

func (c *countFS) op(name string) {
	c.mu.Lock()
	defer c.mu.Unlock()
	if !c.active {
		return
	}
	if c.crashAt >= 0 && c.count == c.crashAt && !c.crashed {
		c.crashed = true
		c.MemFS.SetIgnoreSyncs(true)
	}
	c.count++
	if len(c.log) < 64 {
		c.log = append(c.log, name)
	}
}

func (c *countFS) begin(crashAt int) {
	c.mu.Lock()
	c.active, c.count, c.crashAt, c.crashed, c.log = true, 0, crashAt, false, nil
	c.mu.Unlock()
}

// end closes the window; a crash point equal to the number of operations means "crash right after the step".
func (c *countFS) end() (int, []string) {
	c.mu.Lock()
	defer c.mu.Unlock()
	if c.crashAt >= 0 && c.count <= c.crashAt && !c.crashed {
		c.crashed = true
		c.MemFS.SetIgnoreSyncs(true)
	}
	c.active = false
	return c.count, c.log
}

func (c *countFS) Create(name string) (vfs.File, error) {
	c.op("create")
	f, err := c.MemFS.Create(name)
	if err != nil {
		return nil, err
	}
	return &countFile{File: f, fs: c}, nil
}
func (c *countFS) Link(o, n string) error   { c.op("link"); return c.MemFS.Link(o, n) }
func (c *countFS) Remove(n string) error    { c.op("remove"); return c.MemFS.Remove(n) }
func (c *countFS) RemoveAll(n string) error { c.op("removeAll"); return c.MemFS.RemoveAll(n) }
func (c *countFS) Rename(o, n string) error { c.op("rename"); return c.MemFS.Rename(o, n) }
func (c *countFS) ReuseForWrite(o, n string) (vfs.File, error) {
	c.op("reuse")
	f, err := c.MemFS.ReuseForWrite(o, n)
	if err != nil {
		return nil, err
	}
	return &countFile{File: f, fs: c}, nil
}
func (c *countFS) MkdirAll(d string, p os.FileMode) error { c.op("mkdir"); return c.MemFS.MkdirAll(d, p) }
func (c *countFS) Open(name string, opts ...vfs.OpenOption) (vfs.File, error) {
	f, err := c.MemFS.Open(name, opts...)
	if err != nil {
		return nil, err
	}
	return &countFile{File: f, fs: c}, nil
}
func (c *countFS) OpenDir(name string) (vfs.File, error) {
	f, err := c.MemFS.OpenDir(name)
	if err != nil {
		return nil, err
	}
	return &countFile{File: f, fs: c, dir: true}, nil
}

type countFile struct {
	vfs.File
	fs  *countFS
	dir bool
}

func (f *countFile) Write(p []byte) (int, error) { f.fs.op("write"); return f.File.Write(p) }
func (f *countFile) Sync() error {
	if f.dir {
		f.fs.op("dirsync")
	} else {
		f.fs.op("sync")
	}
	return f.File.Sync()
}

var _ io.Closer = (*countFile)(nil)
