package c04

import (
	"bytes"
	"fmt"
	"strings"
	"testing"
	"time"

	"github.com/LiskHQ/lisk-engine/pkg/blockchain"
	"github.com/LiskHQ/lisk-engine/pkg/consensus"
	"pgregory.net/rapid"

	"verifharness/evid"
	"verifharness/node"
)

func TestMain(m *testing.M) { evid.Main(m, "C04") }

type machine struct {
	n        *node.Node
	t        *rapid.T
	hist     []string
	finalID  map[uint32][]byte // block ID first seen for each finalized height
	F        uint32
	rises    int
	afterRise map[string]bool // kinds of disturbing actions that happened after a rise of F
	labels   map[string]bool
	opts     node.GenOpts
	fs       *countFS // non-nil: the node lives on a strict in-memory file system and may be killed inside a step
	cfg      node.Config
	carry    []node.EventRec // events of a step that ended in a crash but turned out durable
}

func (m *machine) logf(format string, a ...any) { m.hist = append(m.hist, fmt.Sprintf(format, a...)) }

func (m *machine) fail(format string, a ...any) {
	m.t.Fatalf("%s\nhistory:\n%s", fmt.Sprintf(format, a...), strings.Join(m.hist, "\n"))
}

// invariant runs after every action. expectRise: -1 unknown/none expected from this action kind; otherwise the finalized
// height the action must have produced.
func (m *machine) invariant(kind string) {
	n := m.n
	F := n.Finalized()
	if F < m.F {
		m.fail("finalized height decreased %d -> %d after %s", m.F, F, kind)
	}
	evs := append(m.carry, n.TakeEvents()...)
	m.carry = nil
	var fin []*consensus.EventBlockFinalizeMessage
	for _, e := range evs {
		if e.Topic == consensus.EventBlockFinalize {
			fin = append(fin, e.Msg.(*consensus.EventBlockFinalizeMessage))
		}
	}
	// finalization events: exactly one per raise, chained from old to new value
	cur := m.F
	for _, f := range fin {
		if f.Original != cur || f.Next <= f.Original {
			m.fail("finalize event (original=%d next=%d) does not continue from finalized height %d (after %s)", f.Original, f.Next, cur, kind)
		}
		cur = f.Next
	}
	if cur != F {
		m.fail("finalized height went %d -> %d during %s but finalize events account for %d -> %d (%d events)", m.F, F, kind, m.F, cur, len(fin))
	}
	if F > m.F {
		m.rises++
		m.afterRise = map[string]bool{}
	}
	m.F = F
	// every finalized height keeps its block ID forever
	for h := n.Cfg.GenesisHeight; h <= F; h++ {
		hd, err := n.Chain.DataAccess().GetBlockHeaderByHeight(h)
		if err != nil {
			m.fail("finalized height %d not served (finalized=%d) after %s: %v", h, F, kind, err)
		}
		if old, ok := m.finalID[h]; ok {
			if !bytes.Equal(old, hd.ID) {
				m.fail("block at finalized height %d changed %x -> %x after %s", h, old[:6], hd.ID[:6], kind)
			}
		} else {
			m.finalID[h] = append([]byte{}, hd.ID...)
		}
	}
	tip := n.Tip().Header
	if tip.Height < F {
		m.fail("tip height %d below finalized height %d after %s", tip.Height, F, kind)
	}
}

func (m *machine) applyValid(t *rapid.T) {
	n := m.n
	tipSlot := n.SlotOf(n.Tip().Header.Timestamp)
	if tipSlot >= n.Cfg.SlotsBehind-4 {
		t.Skip("tip too close to the current slot")
	}
	fl := map[string]bool{}
	sp := n.DrawSpec(t, m.opts, fl)
	Fb := n.Finalized()
	b, err := n.Apply(sp)
	if err != nil {
		m.fail("harness-built valid block rejected: %v", err)
	}
	_, pc, _ := n.Heights()
	want := Fb
	if pc > want {
		want = pc
	}
	if got := n.Finalized(); got != want {
		m.fail("after applying block %d: finalized height %d, expected max(previous %d, precommitted %d)", b.Header.Height, got, Fb, pc)
	}
	m.logf("apply h=%d gen=%x txs=%d next=%v agg=%v -> precommitted=%d finalized=%d", b.Header.Height, b.Header.GeneratorAddress[:2], len(b.Transactions), sp.Script.Next != nil && !sp.NoScript, !b.Header.AggregateCommit.Empty(), pc, n.Finalized())
	m.invariant("apply")
}

func (m *machine) offerInvalid(t *rapid.T) {
	n := m.n
	tipSlot := n.SlotOf(n.Tip().Header.Timestamp)
	if tipSlot >= n.Cfg.SlotsBehind-4 {
		t.Skip("tip too close to the current slot")
	}
	b, err := n.Build(n.DrawSpec(t, m.opts, map[string]bool{}))
	if err != nil {
		m.fail("build: %v", err)
	}
	owner := n.SignerFor(b.Header.Height, node.KeyByAddr(b.Header.GeneratorAddress))
	kind := rapid.SampledFrom([]string{"stateRoot", "eventRoot", "signature", "mhp", "validatorsHash", "failCommit"}).Draw(t, "invalidKind")
	switch kind {
	case "stateRoot":
		b.Header.StateRoot = flip(b.Header.StateRoot)
		node.Resign(b, owner)
	case "eventRoot":
		b.Header.EventRoot = flip(b.Header.EventRoot)
		node.Resign(b, owner)
	case "signature":
		b.Header.Signature = flip(b.Header.Signature)
		b.Header.Init()
	case "mhp":
		b.Header.MaxHeightPrevoted++
		node.Resign(b, owner)
	case "validatorsHash":
		b.Header.ValidatorsHash = flip(b.Header.ValidatorsHash)
		node.Resign(b, owner)
	case "failCommit":
		b.Assets = blockchain.BlockAssets{node.ScriptAsset(node.Script{FailAt: "commit"})}
		b.Header.AssetRoot = blockchain.BlockAssets(b.Assets).GetRoot()
		node.Resign(b, owner)
	}
	tip := n.Tip().Header.ID
	_ = n.Exec.VerifProcess(b, "peer")
	if !bytes.Equal(n.Tip().Header.ID, tip) {
		m.fail("invalid block (%s) changed the tip", kind)
	}
	m.logf("offer invalid (%s) h=%d", kind, b.Header.Height)
	m.afterRise["invalid"] = true
	m.invariant("offer-invalid")
}

func (m *machine) deleteTip(t *rapid.T) {
	n := m.n
	tip := n.Tip()
	if tip.Header.Height == n.Cfg.GenesisHeight {
		t.Skip("only genesis")
	}
	F := n.Finalized()
	saveTemp := rapid.Bool().Draw(t, "saveTemp")
	err := n.Exec.VerifDeleteBlock(tip, saveTemp)
	if tip.Header.Height <= F {
		if err == nil || !bytes.Equal(n.Tip().Header.ID, tip.Header.ID) {
			m.fail("delete of finalized block h=%d (finalized %d) was not refused: err=%v", tip.Header.Height, F, err)
		}
		m.logf("delete h=%d refused (finalized %d)", tip.Header.Height, F)
		m.labels["delete-at-finality-refused"] = true
	} else {
		if err != nil {
			m.fail("delete of unfinalized tip h=%d failed: %v", tip.Header.Height, err)
		}
		m.logf("delete h=%d", tip.Header.Height)
		m.afterRise["delete"] = true
		if saveTemp {
			n.Chain.DataAccess().ClearTempBlocks()
		}
	}
	m.invariant("delete")
}

// deleteBelow asks the node to delete a block that is not the tip but at/below finality (what a confused sync could do).
func (m *machine) deleteFinalized(t *rapid.T) {
	n := m.n
	F := n.Finalized()
	if F <= n.Cfg.GenesisHeight {
		t.Skip("nothing finalized")
	}
	h := rapid.Uint32Range(n.Cfg.GenesisHeight+1, F).Draw(t, "finalizedHeight")
	b, err := n.Chain.DataAccess().GetBlockByHeight(h)
	if err != nil {
		m.fail("finalized block %d missing: %v", h, err)
	}
	before := n.Tip().Header.ID
	err = n.Exec.VerifDeleteBlock(b, rapid.Bool().Draw(t, "saveTemp"))
	if err == nil {
		m.fail("delete request for finalized block h=%d (finalized %d, tip %d) was accepted", h, F, n.Tip().Header.Height)
	}
	if !bytes.Equal(before, n.Tip().Header.ID) {
		m.fail("refused delete changed the tip")
	}
	m.logf("delete request for finalized h=%d refused", h)
	m.labels["delete-below-finality-refused"] = true
	m.invariant("delete-finalized")
}

func (m *machine) reorg(t *rapid.T) {
	n := m.n
	F := n.Finalized()
	tipH := n.Tip().Header.Height
	if tipH <= F {
		t.Skip("nothing above finality")
	}
	d := rapid.IntRange(1, int(tipH-F)).Draw(t, "reorgDepth")
	for i := 0; i < d; i++ {
		if err := n.Exec.VerifDeleteBlock(n.Tip(), true); err != nil {
			m.fail("reorg: delete failed: %v", err)
		}
	}
	m.logf("reorg: deleted %d blocks down to h=%d", d, n.Tip().Header.Height)
	m.afterRise["reorg"] = true
	m.invariant("reorg-delete")
	k := rapid.IntRange(0, d+1).Draw(t, "reorgNew")
	for i := 0; i < k; i++ {
		if n.SlotOf(n.Tip().Header.Timestamp) >= n.Cfg.SlotsBehind-4 {
			break
		}
		sp := n.DrawSpec(t, m.opts, map[string]bool{})
		b, err := n.Apply(sp)
		if err != nil {
			m.fail("reorg: competing block rejected: %v", err)
		}
		m.logf("reorg: applied competing h=%d", b.Header.Height)
		m.invariant("reorg-apply")
	}
	n.Chain.DataAccess().ClearTempBlocks()
}

// sibling offers a block with the same height/parent/maxHeightPrevoted as the tip: by the tip's own generator (double
// forging, must be discarded) or by the owner of the current wall-clock slot (tie break: replaces the tip when valid,
// the restore path runs when invalid).
func (m *machine) sibling(t *rapid.T) {
	n := m.n
	tip := n.Tip()
	if tip.Header.Height == n.Cfg.GenesisHeight {
		t.Skip("only genesis")
	}
	kind := rapid.SampledFrom([]string{"double-forging", "tie-break-valid", "tie-break-invalid"}).Draw(t, "siblingKind")
	F := n.Finalized()
	// build the sibling on the parent state: delete the tip on a scratch basis is not possible without touching the node, so the
	// sibling is assembled from the tip's own header fields (same parent, same BFT fields) with different content.
	parent, err := n.Chain.DataAccess().GetBlockHeaderByHeight(tip.Header.Height - 1)
	if err != nil {
		m.fail("parent: %v", err)
	}
	sib := node.CloneBlock(tip)
	sib.Transactions = []*blockchain.Transaction{}
	sib.Header.TransactionRoot = blockchain.BlockAssets{}.GetRoot() // rmt root of the empty list
	salt := rapid.Uint32Range(100, 1000).Draw(t, "salt")
	sib.Assets = blockchain.BlockAssets{node.ScriptAsset(node.Script{Salt: salt})}
	// keep validator changes of the original (validatorsHash must match the execution result): reuse its script's Next
	orig := node.ScriptOf(tip.Assets)
	if orig.Next != nil {
		sib.Assets = blockchain.BlockAssets{node.ScriptAsset(node.Script{Salt: salt, Next: orig.Next})}
	}
	sib.Header.AssetRoot = blockchain.BlockAssets(sib.Assets).GetRoot()
	evs := node.ExpectedEvents(sib.Header.Height, sib.Assets, nil)
	sib.Header.EventRoot, _ = blockchain.CalculateEventRoot(evs)
	sib.Header.StateRoot = node.NextStateRoot(parent.StateRoot, sib.Header.Height, sib.Assets, nil)
	var signer *node.Key
	switch kind {
	case "double-forging":
		signer = node.KeyByAddr(tip.Header.GeneratorAddress)
		sib.Header.Timestamp = tip.Header.Timestamp + 1
	default:
		// the generator list in force at this height decides who owns the current slot; read it from the parent state is not
		// possible after the fact, the list at tip height equals the one used for the tip
		k, err := n.GeneratorAt(tip.Header.Height, n.Cfg.SlotsBehind)
		if err != nil {
			t.Skip("no generator")
		}
		signer = k
		sib.Header.Timestamp = n.Slot.GetSlotTime(n.Cfg.SlotsBehind) + 1
		sib.Header.GeneratorAddress = k.Addr
		sib.Header.MaxHeightGenerated = n.LastGeneratedHeightBelow(k.Addr, tip.Header.Height)
		if bytes.Equal(k.Addr, tip.Header.GeneratorAddress) {
			kind = "double-forging"
			sib.Header.MaxHeightGenerated = tip.Header.MaxHeightGenerated
		}
		if kind == "tie-break-invalid" {
			sib.Header.StateRoot = flip(sib.Header.StateRoot)
		}
	}
	node.Resign(sib, n.SignerFor(sib.Header.Height, signer))
	if bytes.Equal(sib.Header.ID, tip.Header.ID) {
		t.Skip("identical")
	}
	n.Exec.VerifSetLastBlockReceived(nil)
	if rapid.Bool().Draw(t, "tipReceivedLate") {
		n.Exec.VerifSetLastBlockReceived(ptrNow())
	}
	err = n.Exec.VerifProcess(sib, "peer")
	after := n.Tip()
	switch {
	case bytes.Equal(after.Header.ID, tip.Header.ID):
		m.logf("sibling (%s) of h=%d offered: tip kept (err=%v)", kind, tip.Header.Height, err)
	case bytes.Equal(after.Header.ID, sib.Header.ID):
		if kind != "tie-break-valid" {
			m.fail("sibling (%s) replaced the tip", kind)
		}
		if tip.Header.Height <= F {
			m.fail("tie break replaced finalized block h=%d (finalized %d)", tip.Header.Height, F)
		}
		m.logf("sibling (tie break) replaced tip h=%d", tip.Header.Height)
		m.labels["tie-break-replaced"] = true
		m.afterRise["tie-break"] = true
	default:
		m.fail("after sibling (%s) the tip is neither the old tip nor the sibling: h=%d", kind, after.Header.Height)
	}
	if kind == "tie-break-invalid" {
		m.labels["tie-break-invalid-offered"] = true
	}
	m.invariant("sibling-" + kind)
}

// crashApply: the process dies at a drawn file-system operation while a valid block is being applied; whatever was not
// synced is lost. The stored finalized height may only have moved together with the block that raises it.
func (m *machine) crashApply(t *rapid.T) {
	n := m.n
	if m.fs == nil {
		t.Skip("node not on a crashable file system")
	}
	if n.SlotOf(n.Tip().Header.Timestamp) >= n.Cfg.SlotsBehind-4 {
		t.Skip("tip too close to the current slot")
	}
	fl := map[string]bool{}
	sp := n.DrawSpec(t, m.opts, fl)
	b, err := n.Build(sp)
	if err != nil {
		m.fail("build: %v", err)
	}
	crashAt := rapid.IntRange(0, 24).Draw(t, "crashAt")
	n.TakeEvents()
	m.fs.begin(crashAt)
	perr := n.Exec.VerifProcess(node.CloneBlock(b), "peer")
	ops, _ := m.fs.end()
	evs := n.TakeEvents()
	func() {
		defer func() { recover() }()
		n.Close()
	}()
	m.fs.MemFS.ResetToSyncedState()
	m.fs.MemFS.SetIgnoreSyncs(false)
	cfg := m.cfg
	cfg.FS, cfg.DBPath = m.fs, "db"
	n2, err := node.New(cfg)
	if err != nil {
		m.fail("crash at fs operation %d/%d while applying block %d: node does not restart: %v", crashAt, ops, b.Header.Height, err)
	}
	if err := n2.RebuildApp(); err != nil {
		m.fail("rebuild application after crash: %v", err)
	}
	m.n = n2
	landed := bytes.Equal(n2.Tip().Header.ID, b.Header.ID)
	if landed {
		m.carry = evs // the step is durable: its finalize events count
	}
	m.logf("crash at fs operation %d/%d while applying h=%d (process err=%v): block durable=%v, finalized=%d", crashAt, ops, b.Header.Height, perr, landed, n2.Finalized())
	if !landed && n2.Finalized() != m.F {
		m.fail("block %d was lost in the crash but the stored finalized height moved %d -> %d: not raised in the step that applies the block", b.Header.Height, m.F, n2.Finalized())
	}
	m.labels["crash"] = true
	if landed {
		m.labels["crash-block-durable"] = true
	} else {
		m.labels["crash-block-lost"] = true
	}
	m.afterRise["crash"] = true
	m.invariant("crash-restart")
}

func (m *machine) restart(t *rapid.T) {
	tip := m.n.Tip().Header.ID
	if err := m.n.Restart(); err != nil {
		m.fail("restart failed: %v", err)
	}
	if !bytes.Equal(m.n.Tip().Header.ID, tip) {
		m.fail("tip changed across restart")
	}
	m.logf("restart")
	m.afterRise["restart"] = true
	m.invariant("restart")
}

// flip returns a copy with one bit changed (never mutate in place: roots may alias package-level constants of the engine).
func flip(b []byte) []byte {
	o := append([]byte{}, b...)
	o[len(o)/2] ^= 1
	return o
}

func ptrNow() *time.Time {
	now := time.Now()
	return &now
}

func runMachine(t *rapid.T) {
	nVal := rapid.IntRange(1, 5).Draw(t, "validators")
	cfg := node.Config{Genesis: node.EqualGenesis(nVal), BatchSize: rapid.IntRange(nVal, nVal+2).Draw(t, "batch"),
		MaxBlockCache: rapid.SampledFrom([]int{3, 515}).Draw(t, "cache"), KeepEvents: rapid.SampledFrom([]int{-1, 2, 300, node.KeepEventsNone}).Draw(t, "keepEvents")}
	var fs *countFS
	if rapid.IntRange(0, 2).Draw(t, "crashable") == 0 {
		fs = newCountFS()
		if err := fs.MemFS.MkdirAll("db", 0o755); err != nil {
			t.Fatalf("mkdir: %v", err)
		}
		for _, dir := range []string{"", "db"} {
			d, err := fs.MemFS.OpenDir(dir)
			if err != nil {
				t.Fatalf("opendir: %v", err)
			}
			d.Sync()
			d.Close()
		}
		cfg.FS, cfg.DBPath = fs, "db"
	}
	n, err := node.New(cfg)
	if err != nil {
		t.Fatalf("node: %v", err)
	}
	cfg.GenesisTS = n.Cfg.GenesisTS
	m := &machine{n: n, t: t, finalID: map[uint32][]byte{}, afterRise: map[string]bool{}, labels: map[string]bool{}, fs: fs, cfg: cfg,
		opts: node.GenOpts{MaxTxs: 2, AllowChange: true, AllowAgg: true, AllowStandby: true, AllowRotate: true}}
	defer func() { m.n.Close() }()
	m.invariant("init")
	disturbedAfterRise := false
	t.Repeat(map[string]func(*rapid.T){
		"apply":           m.applyValid,
		"apply2":          m.applyValid,
		"apply3":          m.applyValid,
		"offerInvalid":    m.offerInvalid,
		"deleteTip":       m.deleteTip,
		"deleteFinalized": m.deleteFinalized,
		"reorg":           m.reorg,
		"sibling":         m.sibling,
		"restart":         m.restart,
		"crashApply":      m.crashApply,
		"": func(t *rapid.T) {
			if m.rises >= 1 && len(m.afterRise) > 0 {
				disturbedAfterRise = true
			}
		},
	})
	nt := m.rises >= 2 && disturbedAfterRise
	labels := []string{"history"}
	for l := range m.labels {
		labels = append(labels, l)
	}
	if m.rises >= 2 {
		labels = append(labels, "finality-rose>=2")
	}
	evid.R.Case(strings.Join(m.hist, "|"), nt, func() any {
		return map[string]any{"kind": "history", "validators": nVal, "actions": m.hist, "finalizedHeight": m.F, "rises": m.rises}
	}, labels...)
}

func TestHistory(t *testing.T) { rapid.Check(t, runMachine) }
