package c04

import (
	"fmt"
	"os"
	"strconv"
	"sync"
	"testing"
	"time"

	"pgregory.net/rapid"

	"github.com/LiskHQ/lisk-engine/pkg/consensus"

	"verifharness/evid"
	"verifharness/node"
)

// "A finalization event is emitted exactly for those raises" - for the subscribers a node really has. The machine test observes the
// events through roomy buffered channels that are drained after every step; the production consumer (generator.Start) reads
// EventBlockNew / EventBlockDelete / EventBlockFinalize from UNBUFFERED channels obtained with Executer.Subscribe in ONE goroutine that
// may be busy (forging, pool reorganisation) when the next block is applied. Seeded change C04-v bounded the hand-over of a message
// to a subscriber by one second and dropped it afterwards: nothing observable for a prompt or buffered subscriber, a lost
// finalization event (never repeated: the next block compares with the already raised height) for a busy one.
// Here the subscriber is of the production kind and stalls for a drawn time (0 ... 2.5 s) at drawn events; the publisher may take as
// long as it likes (no latency is asserted), but when all blocks are applied the finalization events RECEIVED must be exactly the
// raises of the stored finalized height, in order. Limit: a drop that needs a stall longer than the largest drawn one is not seen.
func TestSlowSubscriber(t *testing.T) {
	// case cap (a case costs up to ~3 s of stalls): 8 in the quick tier, 40 per thorough shard; VERIF_C04_SLOWSUB overrides
	limit := 8
	if evid.Thorough() {
		limit = 40
	}
	if v, err := strconv.Atoi(os.Getenv("VERIF_C04_SLOWSUB")); err == nil {
		limit = v
	}
	runs := 0
	rapid.Check(t, func(t *rapid.T) {
		runs++
		if runs > limit && os.Getenv("VERIF_REPLAY") == "" {
			return
		}
		nVal := rapid.IntRange(1, 3).Draw(t, "validators")
		n, err := node.New(node.Config{Genesis: node.EqualGenesis(nVal), BatchSize: nVal + 1})
		if err != nil {
			t.Fatalf("node: %v", err)
		}
		defer n.Close()
		chNew := n.Exec.Subscribe(consensus.EventBlockNew)
		chFin := n.Exec.Subscribe(consensus.EventBlockFinalize)
		chDel := n.Exec.Subscribe(consensus.EventBlockDelete)
		blocks := rapid.IntRange(4, 9).Draw(t, "blocks")
		// stall plan: event ordinal -> stall; at most one long stall per case keeps the case cheap
		stalls := map[int]time.Duration{}
		long := rapid.SampledFrom([]time.Duration{0, 1200 * time.Millisecond, 1200 * time.Millisecond, 2500 * time.Millisecond}).Draw(t, "longStall")
		if long > 0 {
			stalls[rapid.IntRange(0, 2*blocks-1).Draw(t, "longStallAt")] = long
		}
		for i := 0; i < rapid.IntRange(0, 4).Draw(t, "shortStalls"); i++ {
			at := rapid.IntRange(0, 2*blocks-1).Draw(t, "shortStallAt")
			if _, has := stalls[at]; !has {
				stalls[at] = time.Duration(rapid.IntRange(1, 150).Draw(t, "shortStallMs")) * time.Millisecond
			}
		}
		var mu sync.Mutex
		var got []*consensus.EventBlockFinalizeMessage
		newSeen := 0
		stop := make(chan struct{})
		done := make(chan struct{})
		go func() { // the generator's loop shape: one goroutine, one select over all topics
			defer close(done)
			ord := 0
			for {
				select {
				case <-stop:
					return
				case <-chNew:
					mu.Lock()
					newSeen++
					mu.Unlock()
				case <-chDel:
				case m := <-chFin:
					mu.Lock()
					got = append(got, m.(*consensus.EventBlockFinalizeMessage))
					mu.Unlock()
				}
				if d := stalls[ord]; d > 0 {
					time.Sleep(d)
				}
				ord++
			}
		}()
		type raise struct{ from, to uint32 }
		var raises []raise
		applied := 0
		for i := 0; i < blocks; i++ {
			if n.SlotOf(n.Tip().Header.Timestamp) >= n.Cfg.SlotsBehind-1 {
				break
			}
			before := n.Finalized()
			if _, err := n.Apply(node.Spec{Script: node.Script{EvBefore: 1}}); err != nil {
				t.Fatalf("apply block %d: %v", i, err)
			}
			applied++
			if after := n.Finalized(); after != before {
				raises = append(raises, raise{before, after})
			}
		}
		// everything published has been handed over when Apply returned (Publish is synchronous); give the consumer a moment to append
		deadline := time.Now().Add(60 * time.Second) // only ever waited out when the consumer goroutine is starved
		for {
			mu.Lock()
			k, ns := len(got), newSeen
			mu.Unlock()
			if (k >= len(raises) && ns >= applied) || time.Now().After(deadline) {
				break
			}
			time.Sleep(5 * time.Millisecond)
		}
		close(stop)
		<-done
		n.TakeEvents()
		mu.Lock()
		defer mu.Unlock()
		render := func() string {
			s := "raises:"
			for _, r := range raises {
				s += fmt.Sprintf(" %d->%d", r.from, r.to)
			}
			s += " | finalization events received by the subscriber:"
			for _, g := range got {
				s += fmt.Sprintf(" %d->%d", g.Original, g.Next)
			}
			return s + fmt.Sprintf(" | stalls (event ordinal: duration) %v", stalls)
		}
		if len(got) != len(raises) {
			t.Fatalf("finalization events do not match the raises of the finalized height for a busy unbuffered subscriber (%d validators, %d blocks): %s", nVal, applied, render())
		}
		for i := range raises {
			if got[i].Original != raises[i].from || got[i].Next != raises[i].to {
				t.Fatalf("finalization event %d does not describe raise %d: %s", i, i, render())
			}
		}
		if newSeen != applied {
			t.Fatalf("%d blocks applied, %d EventBlockNew messages received by the subscriber: %s", applied, newSeen, render())
		}
		evid.R.Case(fmt.Sprintf("slowsub|%d|%d|%v", nVal, applied, stalls), long > 0 && len(raises) >= 2, func() any {
			return map[string]any{"kind": "slow-subscriber", "validators": nVal, "blocks": applied, "raises": len(raises), "longestStallMs": long.Milliseconds()}
		}, "slow-subscriber", fmt.Sprintf("slow-subscriber-long-stall-%dms", long.Milliseconds()))
	})
}
