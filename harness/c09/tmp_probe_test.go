package c09

import (
	"testing"
	"time"

	"verifharness/node"
)

func TestProbeCost(t *testing.T) {
	for _, nv := range []int{1, 4, 10} {
		s := time.Now()
		n, err := node.New(node.Config{Genesis: node.EqualGenesis(nv), BatchSize: nv})
		if err != nil {
			t.Fatal(err)
		}
		d0 := time.Since(s)
		s = time.Now()
		for i := 0; i < 30; i++ {
			if _, err := n.Apply(node.Spec{Script: node.Script{Salt: uint32(i)}}); err != nil {
				t.Fatal(err)
			}
		}
		p, pc, c := n.Heights()
		t.Logf("nv=%d new=%v 30 blocks=%v heights %d %d %d", nv, d0, time.Since(s), p, pc, c)
		s = time.Now()
		n.Close()
		t.Logf("close=%v", time.Since(s))
	}
}
