package c09

import (
	"bufio"
	"encoding/hex"
	"os"
	"path/filepath"
	"strings"
	"testing"

	"verifharness/evid"
)

// Native fuzz targets. Under plain `go test` (every tier) only the seed corpus runs: the targets' valid messages, the
// minimal inputs of the findings and /verif/corpus/C09/seeds.hex ("<target> <hex>" per line). Campaigns are started by
// hand (notes/C09.md), e.g.
//   go test -tags verif -vet=off ./c09 -run '^$' -fuzz '^FuzzDecoders$' -fuzztime 5m

func corpusLines() [][2]string {
	f, err := os.Open(filepath.Join(evid.Root(), "corpus", "C09", "seeds.hex"))
	if err != nil {
		return nil
	}
	defer f.Close()
	var out [][2]string
	sc := bufio.NewScanner(f)
	sc.Buffer(make([]byte, 1<<20), 1<<24)
	for sc.Scan() {
		l := strings.TrimSpace(sc.Text())
		if i := strings.Index(l, "#"); i >= 0 {
			l = strings.TrimSpace(l[:i])
		}
		p := strings.Fields(l)
		if len(p) == 2 {
			out = append(out, [2]string{p[0], p[1]})
		}
	}
	return out
}

// fuzzTargets is the stable order the selector byte of FuzzDecoders indexes (pure byte-string targets only).
func fuzzTargets() []*target { return bytesTargets("decode") }

func addSeeds(f *testing.F, only string) {
	tgs := fuzzTargets()
	for i, tg := range tgs {
		if only != "" && tg.name != only {
			continue
		}
		for _, s := range tg.seeds() {
			if only != "" {
				f.Add(s)
			} else {
				f.Add(uint8(i), s)
			}
		}
	}
	for _, l := range corpusLines() {
		b, err := hex.DecodeString(strings.TrimPrefix(l[1], "-"))
		if err != nil {
			continue
		}
		for i, tg := range tgs {
			if tg.name == l[0] || l[0] == "*" {
				if only == "" {
					f.Add(uint8(i), b)
				} else if tg.name == only {
					f.Add(b)
				}
			}
		}
	}
}

func FuzzDecoders(f *testing.F) {
	addSeeds(f, "")
	tgs := fuzzTargets()
	f.Fuzz(func(t *testing.T, sel uint8, data []byte) {
		tg := tgs[int(sel)%len(tgs)]
		exec(t, bcase(tg.name, data, "fuzz", 0, false), false)
	})
}

func fuzzOne(f *testing.F, name string) {
	addSeeds(f, name)
	f.Fuzz(func(t *testing.T, data []byte) { exec(t, bcase(name, data, "fuzz", 0, false), false) })
}

func FuzzNewBlock(f *testing.F)         { fuzzOne(f, "NewBlock") }
func FuzzNewBlockHeader(f *testing.F)   { fuzzOne(f, "NewBlockHeader") }
func FuzzNewTransaction(f *testing.F)   { fuzzOne(f, "NewTransaction") }
func FuzzSingleCommits(f *testing.F)    { fuzzOne(f, "EventPostSingleCommits.DecodeStrict") }
func FuzzSMTProof(f *testing.F)         { fuzzOne(f, "smt.Proof.Decode+Verify") }
func FuzzRMTProof(f *testing.F)         { fuzzOne(f, "rmt.Proof.Decode+VerifyProof") }
func FuzzGossipEnvelope(f *testing.F)   { fuzzOne(f, "gossip(transactionValidator)") }
func FuzzResponseEnvelope(f *testing.F) { fuzzOne(f, "p2p.Response.Decode") }
