package c09

import (
	"bytes"
	"encoding/hex"
	"fmt"
	"io"
	"os"
	"runtime"
	"strconv"
	"strings"
	"sync"
	"sync/atomic"
	"testing"
	"time"

	"github.com/cockroachdb/pebble/vfs"
	"pgregory.net/rapid"

	"github.com/LiskHQ/lisk-engine/pkg/blockchain"
	"github.com/LiskHQ/lisk-engine/pkg/trie/rmt"

	"verifharness/evid"
	"verifharness/node"
)

// (6) SEMANTICALLY HOSTILE, WELL-FORMED AND CORRECTLY SIGNED BLOCKS.
//
// A validator is a peer too: a Byzantine (or merely buggy) one can put any value into every header field it signs, and
// its signature then opens the way to everything verifyBlock guards with it (verifyBlock checks the signature last, block
// execution - liskbft.BeforeTransactionsExecute, the application hooks, validatorsHash/eventRoot/stateRoot comparison,
// Chain.AddBlock - comes behind it). Target "Executer.process.signed" builds a fresh real node (node harness: real
// Chain, Executer, liskbft module, pebble in memory, fake deterministic application), replays a fixed honest history,
// builds the valid successor of the tip exactly as the scheduled generator would, applies the hostile values described
// by the case, RE-SIGNS the header with the generator key in force (unless the case says otherwise), sends the block
// through its wire encoding and hands it to Executer.process (what onBlockReceived does on the consensus goroutine,
// which has no recover) or to Validate + processValidated (what the sync paths do with a downloaded block).
//
// Oracle (C09, nothing about acceptance - that is C03's subject): the call returns (a panic is recovered by the guard
// and reported with its site; the watchdog covers a call that does not return; the soft time bound applies), afterwards
// the node still processes a fresh valid block built on whatever its tip is now (a node that survives but rejects every
// further honest block is as dead as a crashed one), and no goroutine is left behind.
//
// Case layout: U = [active validators, standby generators, batch size - validators, history length, path (0 = process,
// 1 = Validate + processValidated)], S = hostile blocks separated by "|", each a ";"-separated list of operations
// field=expression (see applyOps). An empty segment is an honest block. Operations pre=... are not part of the block:
// they put the NODE into a state before the segment's block is built and offered (see signedPre).

const signedTarget = "Executer.process.signed"

func init() {
	register(&target{name: signedTarget, group: "signed", run: runSigned,
		// the case builds a whole node (pebble memtables, BFT stores) and processes up to 40 honest blocks before the hostile
		// one: the allocation envelope of the framework (1 MiB + 256 B per input byte) is meant for single decoder calls. The
		// slack covers the fixed part generously; what scales with the hostile input is still bounded per input byte.
		slack: 512 << 20, perB: 4096})
}

type signedCfg struct {
	nVal, standby, extra, hist, path int
	change                           int // 1: the honest history contains a validator change (one validator leaves, a new one joins, unequal weights)
}

func (c signedCfg) u() []uint64 {
	return []uint64{uint64(c.nVal), uint64(c.standby), uint64(c.extra), uint64(c.hist), uint64(c.path), uint64(c.change)}
}

func signedCfgOf(c *Case) signedCfg {
	clamp := func(v uint64, lo, hi int) int {
		if v > uint64(hi) {
			return hi
		}
		if int(v) < lo {
			return lo
		}
		return int(v)
	}
	return signedCfg{nVal: clamp(c.u(0), 1, 10), standby: clamp(c.u(1), 0, 3), extra: clamp(c.u(2), 0, 3), hist: clamp(c.u(3), 0, 60), path: clamp(c.u(4), 0, 1), change: clamp(c.u(5), 0, 1)}
}

func signedCase(cfg signedCfg, ops string, gen string) *Case {
	n := 0
	for _, seg := range strings.Split(ops, "|") {
		for _, o := range strings.Split(seg, ";") {
			if o != "" && !strings.HasPrefix(o, "pre=") {
				n++
			}
		}
	}
	return &Case{Target: signedTarget, U: cfg.u(), S: ops, Gen: gen, NMut: n, fromOK: true}
}

// buildSignedNode: a fresh node on a deterministic honest history (transactions, assets, events, aggregate commits as soon
// as a height is certifiable, so that maxHeightCertified > 0 occurs). The history is built once per configuration on an
// in-memory file system; every case gets its own node opened on a copy of those files (same genesis timestamp, fake
// application rebuilt from the chain), so that cases are independent of each other and replay exactly.
type signedBase struct {
	cfg   node.Config
	files map[string][]byte
	err   error
}

var (
	signedBaseMu sync.Mutex
	signedBaseOf = map[[5]int]*signedBase{}
)

const signedDBDir = "signed-db"

func signedHistory(n *node.Node, cfg signedCfg) error {
	nonce := uint64(0)
	hist := cfg.hist
	for i := 0; i < hist; i++ {
		s := node.Spec{Script: node.Script{Salt: uint32(i % 4), EvBefore: i % 2, EvAfter: i % 3}}
		if cfg.change == 1 && i == hist/3 {
			// validator 0 leaves, a new one joins; weights 1,2,1,2..; standby generators stay
			next := &node.NextParams{}
			tot := uint64(0)
			for k := 1; k <= cfg.nVal; k++ {
				ix := k
				if k == cfg.nVal {
					ix = cfg.nVal + cfg.standby
				}
				w := uint64(1 + k%2)
				next.Idx, next.Weights = append(next.Idx, ix), append(next.Weights, w)
				tot += w
			}
			for k := 0; k < cfg.standby; k++ {
				next.Standby = append(next.Standby, cfg.nVal+k)
			}
			next.Precommit, next.Cert = tot*2/3+1, tot/3+1
			s.Script.Next = next
		}
		if i%3 == 1 {
			s.Txs = append(s.Txs, node.MakeTx(10+i%3, nonce, 1000+uint64(i), node.TxOK, i%2, i%7))
			nonce++
		}
		if i%5 == 2 {
			s.ExtraAssets = []*blockchain.BlockAsset{{Module: "mod0", Data: []byte{1, 2, 3}}}
		}
		if i%4 == 3 {
			if _, pc, cert := n.Heights(); pc > cert {
				if p, err := n.CurrentParams(cert + 1); err == nil {
					if agg, err := n.BuildAggregate(cert+1, p.Idx); err == nil {
						s.Agg = agg
					}
				}
			}
		}
		if _, err := n.Apply(s); err != nil {
			return fmt.Errorf("honest history block %d: %w", i, err)
		}
	}
	return nil
}

func makeSignedBase(cfg signedCfg) *signedBase {
	g := node.EqualGenesis(cfg.nVal)
	for i := 0; i < cfg.standby; i++ {
		g.Standby = append(g.Standby, cfg.nVal+i)
	}
	fs := vfs.NewMem()
	if err := fs.MkdirAll(signedDBDir, 0o755); err != nil {
		return &signedBase{err: err}
	}
	n, err := node.New(node.Config{Genesis: g, BatchSize: cfg.nVal + cfg.standby + cfg.extra, FS: fs, DBPath: signedDBDir})
	if err != nil {
		return &signedBase{err: err}
	}
	if err := signedHistory(n, cfg); err != nil {
		n.Close()
		return &signedBase{err: err}
	}
	b := &signedBase{cfg: n.Cfg, files: map[string][]byte{}}
	n.Close()
	names, err := fs.List(signedDBDir)
	if err != nil {
		return &signedBase{err: err}
	}
	for _, name := range names {
		f, err := fs.Open(fs.PathJoin(signedDBDir, name))
		if err != nil {
			return &signedBase{err: err}
		}
		data, err := io.ReadAll(f)
		f.Close()
		if err != nil {
			return &signedBase{err: err}
		}
		b.files[name] = data
	}
	return b
}

func buildSignedNode(cfg signedCfg) (*node.Node, error) {
	key := [5]int{cfg.nVal, cfg.standby, cfg.extra, cfg.hist, cfg.change}
	signedBaseMu.Lock()
	b := signedBaseOf[key]
	if b == nil {
		if len(signedBaseOf) >= 48 { // the random driver draws many configurations: bound what is kept
			signedBaseOf = map[[5]int]*signedBase{}
		}
		b = makeSignedBase(cfg)
		signedBaseOf[key] = b
	}
	signedBaseMu.Unlock()
	if b.err != nil {
		return nil, b.err
	}
	fs := vfs.NewMem()
	if err := fs.MkdirAll(signedDBDir, 0o755); err != nil {
		return nil, err
	}
	for name, data := range b.files {
		f, err := fs.Create(fs.PathJoin(signedDBDir, name))
		if err != nil {
			return nil, err
		}
		if _, err := f.Write(data); err != nil {
			return nil, err
		}
		f.Close()
	}
	c := b.cfg
	c.FS = fs
	n, err := node.New(c)
	if err != nil {
		return nil, err
	}
	if err := n.RebuildApp(); err != nil {
		n.Close()
		return nil, err
	}
	if got := n.Tip().Header.Height; got != uint32(cfg.hist) {
		n.Close()
		return nil, fmt.Errorf("node reopened on the stored history is at height %d, expected %d", got, cfg.hist)
	}
	return n, nil
}

// honestMHG: the maxHeightGenerated an honest continuation of this generator carries. Normally the height of its previous
// block; if that previous block claimed a larger maxHeightGenerated (a hostile block that was accepted), the only
// non-contradicting continuation (LIP-0014) repeats the larger value.
func honestMHG(n *node.Node, addr []byte) uint32 {
	tip := n.Tip().Header
	lo := int64(tip.Height) - int64(3*n.Cfg.BatchSize) + 1
	for h := int64(tip.Height); h >= lo && h > int64(n.Cfg.GenesisHeight); h-- {
		hd, err := n.Chain.DataAccess().GetBlockHeaderByHeight(uint32(h))
		if err != nil {
			break
		}
		if bytes.Equal(hd.GeneratorAddress, addr) {
			if hd.MaxHeightGenerated > uint32(h) {
				return hd.MaxHeightGenerated
			}
			return uint32(h)
		}
	}
	return 0
}

func buildValidSuccessor(n *node.Node, s node.Spec) (*blockchain.Block, *node.Key, error) {
	b, err := n.Build(s)
	if err != nil {
		return nil, nil, err
	}
	owner := n.SignerFor(b.Header.Height, node.KeyByAddr(b.Header.GeneratorAddress))
	if m := honestMHG(n, b.Header.GeneratorAddress); m != b.Header.MaxHeightGenerated {
		b.Header.MaxHeightGenerated = m
		node.Resign(b, owner)
	}
	return b, owner, nil
}

// ---------------------------------------------------------------------------------------------------------------
// operations

type sctx struct {
	n         *node.Node
	b         *blockchain.Block
	owner     *node.Key
	h         uint32 // height of the valid successor
	mhp, pc   uint32
	cert      uint32
	last      uint32 // height of the owner's previous block (0 = none in the window)
	slotStart uint32
	sign      string
	na        bool // an operation did not apply to this state
	sib       bool // the block is a sibling of the tip offered in the current wall-clock slot (fork choice: tie break)
	sibSalt   uint32
}

func patternBytes(n int) []byte {
	o := make([]byte, n)
	for i := range o {
		o[i] = 0xa5 ^ byte(i)
	}
	return o
}

func evalBytes(expr string, cur []byte) []byte {
	switch {
	case strings.HasPrefix(expr, "len:"):
		n, err := strconv.Atoi(expr[4:])
		if err != nil || n < 0 || n > 64<<20 {
			panic("harness: bad length in " + expr)
		}
		if n <= len(cur) {
			return bytes.Clone(cur[:n])
		}
		return append(bytes.Clone(cur), patternBytes(n-len(cur))...)
	case expr == "flip":
		o := bytes.Clone(cur)
		if len(o) == 0 {
			return []byte{1}
		}
		o[len(o)/2] ^= 1
		return o
	case expr == "zero":
		return make([]byte, len(cur))
	case expr == "ff":
		return bytes.Repeat([]byte{0xff}, len(cur))
	case expr == "inf":
		n := len(cur)
		if n == 0 {
			n = 96
		}
		o := make([]byte, n)
		o[0] = 0xc0
		return o
	case strings.HasPrefix(expr, "hex:"):
		o, err := hex.DecodeString(expr[4:])
		if err != nil {
			panic("harness: bad hex in " + expr)
		}
		return o
	}
	panic("harness: unknown byte expression " + expr)
}

// evalU32: N | base | base+N | base-N in wrapping uint32 arithmetic.
func (x *sctx) evalU32(expr string, cur uint32) uint32 {
	base, delta, neg := expr, uint64(0), false
	if i := strings.LastIndexAny(expr, "+-"); i > 0 {
		d, err := strconv.ParseUint(expr[i+1:], 10, 32)
		if err != nil {
			panic("harness: bad number in " + expr)
		}
		base, delta, neg = expr[:i], d, expr[i] == '-'
	}
	var v uint32
	switch base {
	case "h":
		v = x.h
	case "mhp":
		v = x.mhp
	case "pc":
		v = x.pc
	case "cert":
		v = x.cert
	case "last":
		v = x.last
	case "cur":
		v = cur
	case "slot":
		v = x.slotStart
	case "gts":
		v = x.n.Cfg.GenesisTS
	default:
		a, err := strconv.ParseUint(base, 10, 32)
		if err != nil {
			panic("harness: bad integer expression " + expr)
		}
		v = uint32(a)
	}
	if neg {
		return v - uint32(delta)
	}
	return v + uint32(delta)
}

// fillTxs builds transactions whose encodings add up to `total` bytes (or as close below it as the varint steps allow).
func fillTxs(total int, nonce0 uint64) []*blockchain.Transaction {
	var out []*blockchain.Transaction
	sum := 0
	mk := func(pad int) *blockchain.Transaction {
		return node.MakeTx(10+len(out)%4, nonce0+uint64(len(out)), 5, node.TxOK, 0, pad)
	}
	overhead := len(mk(0).Encode())
	for total-sum > 2*overhead+2100 {
		tx := mk(2000)
		out = append(out, tx)
		sum += len(tx.Encode())
	}
	if rest := total - sum; rest >= overhead {
		pad := rest - overhead
		for ; pad >= 0; pad-- {
			if tx := mk(pad); len(tx.Encode()) <= rest {
				out = append(out, tx)
				break
			}
		}
	}
	return out
}

// specOf extracts the operations that shape the honest block (payload, assets, slot) into the builder spec; the rest is
// applied to the built block by applyOps.
func (x *sctx) specOf(ops []string) (node.Spec, []string) {
	s := node.Spec{Script: node.Script{Salt: 9, EvBefore: 1}}
	var rest []string
	tipH := uint64(x.n.Tip().Header.Height)
	for _, op := range ops {
		f, e, _ := strings.Cut(op, "=")
		switch f {
		case "txs":
			switch {
			case strings.HasPrefix(e, "fill:"):
				d, err := strconv.Atoi(e[5:])
				if err != nil {
					panic("harness: " + op)
				}
				s.Txs = fillTxs(int(x.n.Cfg.MaxTxLength)+d, tipH*1000)
			case e == "dup":
				tx := node.MakeTx(11, tipH*1000, 9, node.TxOK, 1, 5)
				s.Txs = []*blockchain.Transaction{tx, tx}
			default:
				ns, ps, _ := strings.Cut(e, ":")
				nt, err1 := strconv.Atoi(ns)
				pad, err2 := strconv.Atoi(ps)
				if err1 != nil || err2 != nil || nt < 0 || nt > 400 || pad < 0 || pad > 20000 {
					panic("harness: " + op)
				}
				for i := 0; i < nt; i++ {
					s.Txs = append(s.Txs, node.MakeTx(10+i%4, tipH*1000+uint64(i), 7, ifi(i%5 == 4, node.TxExecuteFail, node.TxOK), i%3, pad))
				}
			}
		case "asset":
			switch e {
			case "noscript":
				s.NoScript = true
			case "badscript":
				s.NoScript = true
				s.ExtraAssets = append(s.ExtraAssets, &blockchain.BlockAsset{Module: node.ScriptModule, Data: []byte("{\"evBefore\":[[[[")})
			case "dup", "unsorted":
				rest = append(rest, op)
			default:
				m, ls, _ := strings.Cut(e, ":")
				l, err := strconv.Atoi(ls)
				if err != nil || l < 0 || l > 8<<20 {
					panic("harness: " + op)
				}
				if m == "many" {
					for i := 0; i < l; i++ {
						s.ExtraAssets = append(s.ExtraAssets, &blockchain.BlockAsset{Module: fmt.Sprintf("m%03d", i), Data: patternBytes(i % 9)})
					}
				} else {
					s.ExtraAssets = append(s.ExtraAssets, &blockchain.BlockAsset{Module: m, Data: patternBytes(l)})
				}
			}
		case "pre": // node state, executed by runSigned before the block is built
		case "sib":
			v, err := strconv.Atoi(e)
			if err != nil || v < 0 {
				panic("harness: " + op)
			}
			x.sib, x.sibSalt = true, uint32(v)
		case "slotgap":
			g, err := strconv.Atoi(e)
			if err != nil || g < 1 || g > 50 {
				panic("harness: " + op)
			}
			s.SlotGap = g
		default:
			rest = append(rest, op)
		}
	}
	return s, rest
}

// rebuildRoots recomputes the roots that follow from payload and assets (the hostile value is then the only thing wrong).
func (x *sctx) rebuildRoots() {
	b := x.b
	tip := x.n.Tip().Header
	ids := make([][]byte, len(b.Transactions))
	for i, tx := range b.Transactions {
		ids[i] = tx.ID
	}
	b.Header.TransactionRoot = rmt.CalculateRoot(ids)
	b.Header.AssetRoot = blockchain.BlockAssets(b.Assets).GetRoot()
	er, err := blockchain.CalculateEventRoot(node.ExpectedEvents(b.Header.Height, b.Assets, b.Transactions))
	if err != nil {
		panic(fmt.Sprintf("harness: event root: %v", err))
	}
	b.Header.EventRoot = er
	b.Header.StateRoot = node.NextStateRoot(tip.StateRoot, b.Header.Height, b.Assets, b.Transactions)
}

func (x *sctx) applyOps(ops []string) {
	hd := x.b.Header
	agg := func() *blockchain.AggregateCommit {
		c := *hd.AggregateCommit
		hd.AggregateCommit = &c
		return &c
	}
	for _, op := range ops {
		f, e, ok := strings.Cut(op, "=")
		if !ok {
			panic("harness: operation without value: " + op)
		}
		switch f {
		case "ver":
			hd.Version = x.evalU32(e, hd.Version)
		case "ts":
			hd.Timestamp = x.evalU32(e, hd.Timestamp)
		case "height":
			hd.Height = x.evalU32(e, hd.Height)
		case "mhp":
			hd.MaxHeightPrevoted = x.evalU32(e, hd.MaxHeightPrevoted)
		case "mhg":
			hd.MaxHeightGenerated = x.evalU32(e, hd.MaxHeightGenerated)
		case "imp":
			hd.ImpliesMaxPrevotes = e == "1"
		case "prev":
			hd.PreviousBlockID = evalBytes(e, hd.PreviousBlockID)
		case "gen":
			hd.GeneratorAddress = evalBytes(e, hd.GeneratorAddress)
		case "txroot":
			hd.TransactionRoot = evalBytes(e, hd.TransactionRoot)
		case "assetroot":
			hd.AssetRoot = evalBytes(e, hd.AssetRoot)
		case "evroot":
			hd.EventRoot = evalBytes(e, hd.EventRoot)
		case "stroot":
			hd.StateRoot = evalBytes(e, hd.StateRoot)
		case "vh":
			hd.ValidatorsHash = evalBytes(e, hd.ValidatorsHash)
		case "agg.h":
			a := agg()
			a.Height = x.evalU32(e, a.Height)
		case "agg.bits":
			a := agg()
			a.AggregationBits = evalBytes(e, a.AggregationBits)
		case "agg.sig":
			a := agg()
			a.CertificateSignature = evalBytes(e, a.CertificateSignature)
		case "agg":
			// agg=valid:<height expression>[:<number of signers>]: an aggregate commit the validators of that height really signed
			parts := strings.Split(e, ":")
			if parts[0] != "valid" || len(parts) < 2 {
				panic("harness: " + op)
			}
			h := x.evalU32(parts[1], hd.AggregateCommit.Height)
			if h == 0 || h > x.n.Tip().Header.Height {
				x.na = true
				continue
			}
			p, err := x.n.CurrentParams(h)
			if err != nil {
				x.na = true
				continue
			}
			k := len(p.Idx)
			if len(parts) > 2 {
				if v, err := strconv.Atoi(parts[2]); err == nil && v >= 1 && v < k {
					k = v
				}
			}
			a, err := x.n.BuildAggregate(h, p.Idx[:k])
			if err != nil {
				x.na = true
				continue
			}
			hd.AggregateCommit = a
		case "asset":
			switch e {
			case "dup":
				if len(x.b.Assets) == 0 { // asset=noscript before: nothing to duplicate yet
					x.b.Assets = append(x.b.Assets, &blockchain.BlockAsset{Module: "mod0", Data: []byte{1}})
				}
				x.b.Assets = append(x.b.Assets, x.b.Assets[len(x.b.Assets)-1])
			case "unsorted":
				x.b.Assets = append(blockchain.BlockAssets{{Module: "zz", Data: []byte{1}}}, x.b.Assets...)
			}
			x.rebuildRoots()
		case "sign":
			x.sign = e
		default:
			panic("harness: unknown field in " + op)
		}
	}
}

func (x *sctx) signBlock() {
	hd := x.b.Header
	switch {
	case x.sign == "" || x.sign == "owner":
		node.Resign(x.b, x.owner)
	case x.sign == "other":
		node.Resign(x.b, x.n.OtherSignerFor(x.h, node.KeyByAddr(x.owner.Addr)))
	case x.sign == "none": // the signature of the valid block stays (stale), only the ID is refreshed
		hd.Init()
	case strings.HasPrefix(x.sign, "key:"):
		i, err := strconv.Atoi(x.sign[4:])
		if err != nil || i < 0 || i >= node.PoolSize {
			panic("harness: " + x.sign)
		}
		node.Resign(x.b, node.Keys()[i])
	default:
		panic("harness: unknown signer " + x.sign)
	}
}

// stageOf names the step that rejected a block from the error text (labels only).
func stageOf(err error) string {
	if err == nil {
		return ""
	}
	s := err.Error()
	for _, m := range [][2]string{
		{"previous block id must be", "validate"}, {"generator address must be", "validate"}, {"block signature must not", "validate"},
		{"transaction root must match", "validate"}, {"assets must be sorted", "validate"}, {"assets module must be unique", "validate"},
		{"assets root must match", "validate"}, {"params size", "validate"}, {"does not satisfy alphanumeric", "validate"},
		{"senderPublicKey must", "validate"}, {"signatures must", "validate"},
		{"block header version", "verify-version"}, {"is not consecutive", "verify-height"}, {"invalid previous block id", "verify-previous"},
		{"transactions length", "verify-payload-size"}, {"future block", "verify-slot"}, {"less or equal to last block slot", "verify-slot"},
		{"invalid block generator", "verify-generator"}, {"invalid maxHeight prevoted", "verify-mhp"}, {"received contradicting", "verify-contradicting"},
		{"aggregate commit", "verify-aggregate"}, {"invalid certificate", "verify-aggregate"}, {"invalid signature", "verify-signature"},
		{"invalid validatorsHash", "exec-validatorsHash"}, {"invalid event root", "exec-eventRoot"}, {"state root mismatch", "exec-stateRoot"},
		{"invalid number of events", "exec-events"}, {"scripted failure", "exec-app"}, {"failed to execute transaction", "exec-app"},
	} {
		if strings.Contains(s, m[0]) {
			return m[1]
		}
	}
	return "other"
}

func mhgClass(mhg, h, last uint32) string {
	switch {
	case mhg > h:
		return ">height"
	case mhg == h:
		return "=height"
	case mhg == last:
		return "=previous"
	case mhg > last:
		return "previous<.<height"
	}
	return "<previous"
}

// Node states with respect to the reception time fork choice keeps for the tip (Executer.lastBlockReceived): it is nil from
// the start of the process until a block has been received IN ORDER through Executer.process; blocks applied by the sync
// paths (Validate + processValidated) never set it. A node that was just started or restarted, or has only synced so far,
// is in that state when the next gossiped block - in particular a competing sibling of its tip - arrives.
type signedRecv struct {
	set   bool   // the Executer holds a reception time
	state string // label
}

// signedNoRecvSiblings counts siblings of the tip that reached fork choice (Executer.process) on a node without a reception
// time on record (generator guard of the enumerating test).
var signedNoRecvSiblings atomic.Int64

// signedPre executes one node-state operation in front of a segment's block:
//
//	pre=asis       nothing: the node stays as it was opened on the stored history (new Executer on an existing database,
//	               no block processed since it started); for a sibling it only says "do not set a reception time by hook"
//	pre=restart    the node is restarted: Chain, Executer, connection and database handle are dropped and opened again on the
//	               same database and application state (node.Restart, as the restart steps of C04/C05 do)
//	pre=sync:K     K honest blocks are applied the way the sync paths apply downloaded blocks (Validate + processValidated)
//	pre=recv:K     K honest blocks are received in order through Executer.process (sets the reception time)
func signedPre(n *node.Node, p string, rs *signedRecv, si int) {
	kind, arg, _ := strings.Cut(p, ":")
	switch kind {
	case "asis":
		return
	case "restart":
		if err := n.Restart(); err != nil {
			panic(fmt.Sprintf("harness: restart of the node before segment %d failed: %v", si, err))
		}
		rs.set, rs.state = false, "none-since-restart"
		return
	case "sync", "recv":
		k, err := strconv.Atoi(arg)
		if err != nil || k < 1 || k > 8 {
			panic("harness: pre=" + p)
		}
		for j := 0; j < k; j++ {
			b, _, err := buildValidSuccessor(n, node.Spec{Script: node.Script{Salt: uint32(50 + j), EvBefore: j % 2}})
			if err != nil {
				panic(fmt.Sprintf("harness: cannot build honest block %d of pre=%s (segment %d): %v", j, p, si, err))
			}
			m, err := blockchain.NewBlock(b.Encode())
			if err != nil {
				panic(fmt.Sprintf("harness: honest block of pre=%s does not decode: %v", p, err))
			}
			if kind == "recv" {
				err = n.Exec.VerifProcess(m, "peer")
			} else if err = m.Validate(); err == nil {
				err = n.Exec.VerifProcessValidated(m, false, false)
			}
			if err != nil || !bytes.Equal(n.Tip().Header.ID, b.Header.ID) {
				panic(fmt.Sprintf("harness: honest block %d of pre=%s (segment %d) not accepted: %v", j, p, si, err))
			}
		}
		switch {
		case kind == "recv":
			rs.set, rs.state = true, "received-in-order"
		case rs.set:
			rs.state = "received-earlier,tip-synced"
		default:
			rs.state = "none-synced-only"
		}
		return
	}
	panic("harness: unknown node state operation pre=" + p)
}

// runSigned executes one case (see the head of the file).
func runSigned(c *Case) outcome {
	cfg := signedCfgOf(c)
	g0 := runtime.NumGoroutine()
	n, err := buildSignedNode(cfg)
	if err != nil {
		panic(fmt.Sprintf("harness: cannot build the node for %+v: %v", cfg, err))
	}
	closed := false
	defer func() {
		if !closed {
			n.Close()
		}
	}()
	var classes []string
	passed := false
	// the node was just opened on the stored history: a new Executer on an existing database that has not processed anything
	rs := &signedRecv{state: ifs(cfg.hist == 0, "none-since-start(genesis-only)", "none-since-start")}
	for si, seg := range strings.Split(c.S, "|") {
		var ops []string
		hostile, pre := 0, 0
		for _, o := range strings.Split(seg, ";") {
			if o == "" {
				continue
			}
			ops = append(ops, o)
			if strings.HasPrefix(o, "pre=") {
				// node state first: the block of this segment is built on, and offered to, the node in that state
				signedPre(n, o[4:], rs, si)
				pre++
			} else {
				hostile++
			}
		}
		x := &sctx{n: n}
		spec, rest := x.specOf(ops)
		var b *blockchain.Block
		var owner *node.Key
		if x.sib {
			// a valid sibling of the tip by the owner of the current wall-clock slot. Without a node-state operation the tip is made to
			// count as received outside its own slot (hook): fork choice answers "tie break" (delete the tip, apply the sibling, on
			// failure re-apply the old tip). With one, the reception time is whatever that state left behind - none at all after a
			// (re)start or on a node that only synced.
			if pre == 0 {
				now := time.Now()
				n.Exec.VerifSetLastBlockReceived(&now)
				rs.set, rs.state = true, "hook:tip-received-outside-its-slot"
			}
			sb, ok := n.BuildTieBreakSibling(x.sibSalt)
			if !ok {
				classes = append(classes, "not-applicable")
				evid.R.Label("signed-op-not-applicable", 1)
				continue
			}
			b, owner = sb, n.SignerFor(sb.Header.Height, node.KeyByAddr(sb.Header.GeneratorAddress))
		} else {
			var err error
			b, owner, err = buildValidSuccessor(n, spec)
			if err != nil {
				panic(fmt.Sprintf("harness: cannot build the valid successor (segment %d): %v", si, err))
			}
		}
		x.b, x.owner, x.h = b, owner, b.Header.Height
		x.mhp, x.pc, x.cert = n.Heights()
		x.last = n.LastGeneratedHeight(b.Header.GeneratorAddress)
		x.slotStart = b.Header.Timestamp
		x.applyOps(rest)
		if x.na {
			classes = append(classes, "not-applicable")
			evid.R.Label("signed-op-not-applicable", 1)
			continue
		}
		x.signBlock()
		// as it arrives: through the wire encoding
		m, err := blockchain.NewBlock(x.b.Encode())
		if err != nil {
			classes = append(classes, "undecodable")
			continue
		}
		tipBefore := n.Tip().Header
		path := cfg.path
		successorShape := m.Header.Height == tipBefore.Height+1 && bytes.Equal(m.Header.PreviousBlockID, tipBefore.ID)
		siblingShape := x.sib && m.Header.Height == tipBefore.Height && bytes.Equal(m.Header.PreviousBlockID, tipBefore.PreviousBlockID) && m.Header.MaxHeightPrevoted == tipBefore.MaxHeightPrevoted
		if !successorShape && !siblingShape {
			// fork choice could route such a block to a chain switch, which needs live peers: take the path a downloaded block takes
			path = 1
		}
		if x.sib {
			evid.R.Label("signed-sibling:"+ifs(path == 0, "offered-to-fork-choice", "processValidated-only"), 1)
			if path == 0 {
				evid.R.Label("signed-sibling-node-state:"+rs.state, 1)
				if !rs.set && siblingShape {
					signedNoRecvSiblings.Add(1)
				}
			}
		}
		stateBefore := rs.state
		if len(ops) > 0 {
			evid.R.Label("signed-node-state:"+rs.state, 1)
		}
		reverts := n.ABI.App.Calls["Revert"]
		if len(ops) > 0 {
			p, _ := n.CurrentParams(x.h)
			active := false
			for _, ix := range p.Idx {
				active = active || ix == node.KeyByAddr(owner.Addr).Index
			}
			for _, o := range ops {
				f, _, _ := strings.Cut(o, "=")
				evid.R.Label("signed-field:"+f, 1)
			}
			evid.R.Label("signed-generator:"+ifs(active, "active-bft-validator", "standby-generator"), 1)
			evid.R.Label("signed-path:"+ifs(path == 0, "process", "validate+processValidated"), 1)
			evid.R.Label("signed-mhg:"+mhgClass(m.Header.MaxHeightGenerated, x.h, x.last), 1)
			evid.R.Label(fmt.Sprintf("signed-state:prevoted%s-precommitted%s-certified%s", ifs(x.mhp > 0, ">0", "=0"), ifs(x.pc > 0, ">0", "=0"), ifs(x.cert > 0, ">0", "=0")), 1)
			if !m.Header.AggregateCommit.Empty() {
				evid.R.Label("signed-aggregate-commit-non-empty", 1)
			}
		}
		var perr error
		if path == 0 {
			perr = n.Exec.VerifProcess(m, "peer")
		} else if perr = m.Validate(); perr == nil {
			perr = n.Exec.VerifProcessValidated(m, false, false)
		}
		cl := ""
		switch {
		case bytes.Equal(n.Tip().Header.ID, m.Header.ID):
			cl = "accepted"
			passed = true
			if perr != nil {
				cl = "accepted-with-error"
			}
		case !bytes.Equal(n.Tip().Header.ID, tipBefore.ID) && x.sib:
			// the tie break deleted the tip and neither the sibling nor the old tip could be applied: the node is one block back;
			// whether it is still alive is decided below
			cl = "tiebreak-lost-tip"
		case !bytes.Equal(n.Tip().Header.ID, tipBefore.ID):
			return outcome{class: "tip-moved", passed: true, viol: fmt.Sprintf("tip-moved: after the hostile block (segment %d) the tip is neither the old tip nor the block: err=%v", si, perr)}
		case perr == nil && n.ABI.App.Calls["Revert"] != reverts:
			cl = "tiebreak-reverted" // tip deleted, sibling failed, old tip applied again
		case perr == nil:
			cl = "discarded"
		default:
			st := stageOf(perr)
			cl = "rejected-" + st
			if strings.HasPrefix(st, "exec-") {
				passed = true
			}
			if st == "other" {
				evid.R.Label("signed-other-error:"+firstN(perr.Error(), 60), 1)
			}
		}
		if hostile == 0 && cl != "accepted" {
			panic(fmt.Sprintf("harness: honest block (segment %d, node state %s) not accepted: %s err=%v", si, stateBefore, cl, perr))
		}
		if len(ops) > 0 {
			evid.R.Label("signed-result:"+cl, 1)
		}
		if !rs.set && x.sib && path == 0 {
			evid.R.Label("signed-sibling-without-reception-time:"+cl, 1)
		}
		// process records the reception time for a block it takes as the next one (before validating it) and for a tie break
		if path == 0 && (successorShape || (siblingShape && cl != "discarded")) {
			rs.set, rs.state = true, "received-in-order"
		}
		classes = append(classes, cl)
		if strings.HasPrefix(cl, "accepted") && len(m.Header.StateRoot) == 0 {
			// artefact of the fake application, not of the engine: it treats an empty expected state root as "do not compare" (a real
			// application compares), so this block got in. The state that follows cannot occur; nothing after it is judged.
			evid.R.Label("signed-empty-state-root-accepted-by-fake-application(case-ends)", 1)
			return outcome{class: signedClass(classes), passed: true}
		}
		if x.sib && strings.HasPrefix(cl, "accepted") {
			// the new tip sits in the current wall-clock slot: every successor would be a future block. Nothing more to offer.
			evid.R.Label("signed-sibling-accepted(no-successor-possible)", 1)
			return outcome{class: signedClass(classes), passed: true}
		}
	}
	// the node must still be alive in the only sense that matters: it processes the next honest block
	fresh, _, err := buildValidSuccessor(n, node.Spec{Script: node.Script{Salt: 77, EvAfter: 1}, Txs: []*blockchain.Transaction{node.MakeTx(12, 1<<40, 3, node.TxOK, 1, 4)}})
	if err != nil {
		return outcome{class: signedClass(classes), passed: passed, viol: fmt.Sprintf("wedged: cannot even read the state needed to build the next block: %v", err)}
	}
	if err := n.Exec.VerifProcess(node.CloneBlock(fresh), "peer"); err != nil || !bytes.Equal(n.Tip().Header.ID, fresh.Header.ID) {
		return outcome{class: signedClass(classes), passed: passed, viol: fmt.Sprintf("wedged: after the hostile block(s) [%s] the node does not process a fresh valid block any more: err=%v (fresh header %+v)", strings.Join(classes, ","), err, *fresh.Header)}
	}
	n.Close()
	closed = true
	if g := settleGoroutines(g0 + 6); g > g0+6 {
		buf := make([]byte, 1<<18)
		buf = buf[:runtime.Stack(buf, true)]
		return outcome{class: signedClass(classes), passed: passed, viol: fmt.Sprintf("goroutines: %d goroutines before the case, %d after the node was closed\n%s", g0, g, buf)}
	}
	return outcome{class: signedClass(classes), passed: passed}
}

// signedClass: the outcome label of a case (the per-block results are counted separately as signed-result:*).
func signedClass(classes []string) string {
	if len(classes) == 1 {
		return classes[0]
	}
	acc := 0
	for _, c := range classes {
		if strings.HasPrefix(c, "accepted") {
			acc++
		}
	}
	switch acc {
	case len(classes):
		return "sequence-all-accepted"
	case 0:
		return "sequence-none-accepted"
	}
	return "sequence-some-accepted"
}

func settleGoroutines(limit int) int {
	g := runtime.NumGoroutine()
	for i := 0; i < 20000 && g > limit; i++ { // up to ~10 s, in small steps: closing a database retires its goroutines asynchronously
		if i < 50 {
			runtime.Gosched()
		} else {
			time.Sleep(500 * time.Microsecond)
		}
		g = runtime.NumGoroutine()
	}
	return g
}

func firstN(s string, n int) string {
	if len(s) > n {
		return s[:n]
	}
	return s
}

// ---------------------------------------------------------------------------------------------------------------
// catalogue (enumerated)

var (
	u32Bounds   = []string{"0", "1", "2147483647", "2147483648", "4294967294", "4294967295"}
	hashFields  = []string{"prev", "txroot", "assetroot", "evroot", "stroot", "vh"}
	allU32      = []string{"mhg", "mhp", "ts", "agg.h", "ver", "height"}
	signedBases = []string{"h", "mhp", "pc", "cert", "last", "cur", "slot"}
)

// signedCatalogue: the hostile blocks every configuration gets. First entry = the honest block (generator guard).
func signedCatalogue() []string {
	out := []string{""}
	add := func(s ...string) { out = append(out, s...) }
	// maxHeightGenerated: free for the signer except for the contradiction rule
	for _, e := range []string{"h-2", "h-1", "h", "h+1", "h+2", "h+1000", "last-1", "last", "last+1", "mhp", "mhp+1", "pc", "cert"} {
		add("mhg=" + e)
	}
	for _, e := range u32Bounds {
		add("mhg=" + e)
	}
	// maxHeightPrevoted: only the node's own value passes
	for _, e := range []string{"cur-1", "cur+1", "h-1", "h", "h+1", "0", "2147483648", "4294967295"} {
		add("mhp=" + e)
	}
	// timestamp: inside the slot, its edges, the neighbouring slots, the ends of the range
	for _, e := range []string{"slot+1", "slot+4999", "slot+9999", "slot+10000", "slot-1", "slot-10000", "gts", "gts-1", "gts+1", "0", "2147483648", "4294967295"} {
		add("ts=" + e)
	}
	add("imp=1", "imp=0")
	for _, e := range []string{"0", "1", "3", "4294967295"} {
		add("ver=" + e)
	}
	for _, e := range []string{"h-1", "h+1", "0", "4294967295"} {
		add("height=" + e)
	}
	// aggregate commit: empty ones at every interesting height, half-empty ones, genuine ones and their neighbours
	for _, e := range []string{"cert+1", "cert-1", "pc", "pc+1", "h-1", "h", "h+1", "0", "4294967295"} {
		add("agg.h=" + e)
	}
	add("agg.bits=len:1", "agg.bits=len:2", "agg.bits=len:65536", "agg.sig=len:96", "agg.sig=inf", "agg.sig=len:1048576",
		"agg.bits=len:2;agg.sig=len:96", "agg.bits=len:2;agg.sig=inf", "agg.bits=len:1;agg.sig=len:95", "agg.h=pc;agg.bits=len:2;agg.sig=len:96",
		"agg.h=pc;agg.bits=len:1;agg.sig=inf", "agg.h=4294967295;agg.bits=len:2;agg.sig=len:96", "agg.h=h;agg.bits=len:2;agg.sig=len:96",
		"agg.h=pc;agg.bits=len:65536;agg.sig=len:96", "agg.h=pc;agg.bits=len:2;agg.sig=len:1048576", "agg.h=0;agg.bits=len:2;agg.sig=len:96")
	for _, v := range []string{"agg=valid:cert+1", "agg=valid:pc", "agg=valid:pc+1", "agg=valid:cert", "agg=valid:cert+1:1"} {
		add(v)
	}
	for _, e := range []string{"agg.bits=len:0", "agg.bits=len:1", "agg.bits=len:3", "agg.bits=len:65536", "agg.bits=ff", "agg.bits=zero", "agg.sig=len:0", "agg.sig=len:95",
		"agg.sig=len:97", "agg.sig=flip", "agg.sig=inf", "agg.sig=zero", "agg.h=cur+1", "agg.h=cur-1", "agg.h=4294967295", "agg.h=0"} {
		add("agg=valid:cert+1;" + e)
	}
	// hashes and addresses of every wrong length
	for _, f := range hashFields {
		for _, e := range []string{"len:0", "len:31", "len:33", "len:64", "flip", "zero"} {
			add(f + "=" + e)
		}
	}
	add("vh=len:1048576", "stroot=len:1048576", "evroot=len:1048576", "prev=len:1048576")
	for _, e := range []string{"len:0", "len:19", "len:21", "flip", "zero"} {
		add("gen=" + e)
	}
	// payload and assets
	add("txs=1:0", "txs=3:100", "txs=90:0", "txs=fill:0", "txs=fill:1", "txs=fill:-1", "txs=dup", "txs=1:14000", "txs=1:14335",
		"asset=mod0:0", "asset=mod0:1048576", "asset=:5", "asset=dup", "asset=unsorted", "asset=noscript", "asset=badscript", "asset=many:64",
		"asset=noscript;asset=mod0:0")
	// signed by somebody else / not re-signed: the same values must be stopped by the signature check
	add("sign=other", "sign=key:14", "sign=none;mhg=h+1", "sign=other;mhg=4294967295", "sign=key:14;mhg=h+1")
	// combinations around a header that claims a future previous block
	add("mhg=h+1;imp=1", "mhg=4294967295;imp=1", "mhg=h;imp=1", "mhg=h+1;agg=valid:cert+1", "mhg=h+1;txs=3:100", "mhg=h+1;ts=slot+9999",
		"mhg=h+1;slotgap=3", "mhg=4294967295;slotgap=2", "mhg=h+1;vh=flip", "mhg=h+1;stroot=flip", "mhg=h+1;evroot=len:31")
	// sequences: the hostile block, then what follows it (honest blocks of the others, the same generator again)
	add("mhg=h+1|", "mhg=4294967295|", "mhg=h+1|mhg=h+1", "mhg=4294967295|mhg=4294967295|mhg=4294967295", "mhg=h+5||||||", "mhg=h|mhg=h|mhg=h",
		"mhg=h+1|mhg=last", "mhg=2147483648||mhg=0", "mhg=h+2|mhg=h-1|mhg=h-2", "imp=1|imp=1|mhg=h+1")
	// siblings of the tip offered in the current slot (fork choice: tie break = delete the tip, apply the sibling, re-apply the old
	// tip if that fails): honest, hostile but acceptable, and failing at every later stage
	add("sib=1", "sib=1;mhg=h+1", "sib=1;mhg=4294967295", "sib=1;mhg=h", "sib=1;imp=1", "sib=2;stroot=flip", "sib=2;vh=flip", "sib=3;evroot=len:31",
		"sib=1;agg=valid:cert+1", "sib=1;agg.h=pc;agg.bits=len:2;agg.sig=inf", "sib=1;mhp=cur+1", "sib=1;ts=slot+5000", "sib=1;ts=slot-10000", "sib=1;sign=other",
		"sib=1;mhg=h+1;stroot=flip", "sib=2;stroot=flip|mhg=h+1", "sib=2;vh=len:33|", "sib=1;mhg=0")
	// NODE STATES WITHOUT A RECEPTION TIME FOR THE TIP (Executer.lastBlockReceived == nil): a node that was just started on an
	// existing database (pre=asis: the state every case starts in), restarted after it had received blocks, or that applied its
	// history only through the sync path - immediately before the sibling / hostile block arrives. Contrast: a block received
	// in order just now (its slot is long past: the tie break happens without any hook), and a reception time that belongs to an
	// older block while the tip itself was synced.
	add("pre=asis;sib=1", "pre=restart;sib=1", "pre=sync:1;sib=1", "pre=sync:2;sib=2", "pre=sync:3;sib=1", "pre=recv:1;pre=restart;sib=1", "pre=recv:2;pre=restart;sib=2",
		"pre=recv:1;pre=sync:1;sib=1", "pre=recv:1;sib=1", "pre=recv:2;sib=1;mhg=h+1", "pre=restart;sib=1;mhg=h+1", "pre=asis;sib=2;stroot=flip", "pre=restart;sib=1;sign=other",
		"pre=sync:1;sib=1;ts=slot+5000", "pre=restart;sib=1;imp=1", "pre=sync:1;sib=3;mhg=4294967295",
		"pre=restart", "pre=restart;mhg=h+1", "pre=sync:2;mhg=h+1", "pre=recv:1;pre=restart;mhg=4294967295", "pre=restart;agg=valid:cert+1", "pre=sync:1;mhg=h;imp=1",
		"pre=asis;mhg=h+1|pre=restart;mhg=h+1", "mhg=h+1|pre=restart;sib=1", "|pre=restart;sib=1", "sib=2;stroot=flip|pre=restart;sib=1", "pre=restart;sib=2;vh=flip|pre=restart|",
		"pre=sync:1|pre=restart;sib=1", "pre=sync:1|pre=sync:1;sib=1")
	return out
}

func signedConfigs() []signedCfg {
	cfgs := []signedCfg{
		{nVal: 4, hist: 9}, // prevoted, precommitted > 0: genuine aggregate commits exist
		{nVal: 1, hist: 3}, // a single validator: every block is its own
		{nVal: 3, standby: 1, hist: 10},
		{nVal: 3, standby: 1, hist: 11},
		{nVal: 4, hist: 13, change: 1}, // a validator left, a new one joined (minimum active height > 0), unequal weights
	}
	if !evid.Thorough() {
		// quick tier: genesis only / the very first block after genesis, for the node-state entries (pre=) only
		cfgs = append(cfgs, signedCfg{nVal: 4, hist: 0}, signedCfg{nVal: 4, hist: 1})
	}
	if evid.Thorough() {
		cfgs = append(cfgs, signedCfg{nVal: 4, hist: 0}, signedCfg{nVal: 4, hist: 1}, signedCfg{nVal: 2, hist: 5}, signedCfg{nVal: 5, extra: 2, hist: 16},
			signedCfg{nVal: 10, hist: 24}, signedCfg{nVal: 3, standby: 1, hist: 8}, signedCfg{nVal: 3, standby: 1, hist: 9}, signedCfg{nVal: 2, standby: 2, extra: 1, hist: 13},
			signedCfg{nVal: 4, hist: 30}, signedCfg{nVal: 1, hist: 0}, signedCfg{nVal: 7, hist: 40},
			signedCfg{nVal: 4, hist: 6, change: 1}, signedCfg{nVal: 3, standby: 1, hist: 14, change: 1}, signedCfg{nVal: 2, hist: 9, change: 1}, signedCfg{nVal: 5, extra: 1, hist: 25, change: 1})
	}
	return cfgs
}

var signedRandomConfigs = []signedCfg{
	{nVal: 4, hist: 9}, {nVal: 1, hist: 3}, {nVal: 3, standby: 1, hist: 10}, {nVal: 3, standby: 1, hist: 11}, {nVal: 4, hist: 0}, {nVal: 4, hist: 1},
	{nVal: 2, hist: 5}, {nVal: 5, extra: 2, hist: 16}, {nVal: 4, extra: 1, hist: 14}, {nVal: 2, standby: 2, extra: 1, hist: 13}, {nVal: 1, hist: 0}, {nVal: 3, hist: 7},
	{nVal: 4, hist: 21}, {nVal: 7, hist: 19}, {nVal: 4, hist: 12, change: 1}, {nVal: 3, standby: 1, hist: 14, change: 1}, {nVal: 2, hist: 9, change: 1},
}

func genOfOps(ops string) string {
	var fs []string
	seen := map[string]bool{}
	for _, seg := range strings.Split(ops, "|") {
		for _, o := range strings.Split(seg, ";") {
			if f, _, ok := strings.Cut(o, "="); ok && !seen[f] {
				seen[f] = true
				fs = append(fs, f)
			}
		}
	}
	if len(fs) == 0 {
		return "signed:honest"
	}
	if strings.Contains(ops, "|") {
		return "signed-seq:" + strings.Join(fs, "+")
	}
	return "signed:" + strings.Join(fs, "+")
}

// TestSignedBlocksEnumerated: every catalogue entry on every configuration through Executer.process; the entries that
// pass stateless validation also the way a downloaded block goes (every entry in the thorough tier).
func TestSignedBlocksEnumerated(t *testing.T) {
	sh, nsh := shard()
	cat := signedCatalogue()
	unit := 0
	classes := map[string]int{}
	preSib, noRecv0 := 0, signedNoRecvSiblings.Load()
	for ci, cfg := range signedConfigs() {
		for i, ops := range cat {
			if cfg.nVal == 1 && strings.Contains(ops, "sib=") {
				continue // a single validator owns every slot: no tie break
			}
			for path := 0; path < 2; path++ {
				if !evid.Thorough() && i > 0 {
					// quick tier: the complete catalogue on the first two configurations, the entries around the BFT bookkeeping
					// (maxHeightGenerated, impliesMaxPrevotes, genuine aggregate commits, sequences) on the standby configurations;
					// the path of a downloaded block for a third of the entries on the first configuration
					core := strings.Contains(ops, "mhg=") || strings.Contains(ops, "imp=") || strings.Contains(ops, "agg=valid") || strings.Contains(ops, "|") || strings.Contains(ops, "sib=") ||
						strings.Contains(ops, "pre=")
					if cfg.hist <= 1 && !strings.Contains(ops, "pre=") {
						continue
					}
					if (ci >= 2 && !core) || (path == 1 && (ci != 0 || i%3 != 0) && !strings.Contains(ops, "height=") && !strings.Contains(ops, "prev=")) {
						continue
					}
				}
				unit++
				if i > 0 && unit%nsh != sh {
					continue
				}
				cfg.path = path
				if path == 0 && strings.Contains(ops, "pre=") && strings.Contains(ops, "sib=") {
					preSib++
				}
				r := exec(t, signedCase(cfg, ops, genOfOps(ops)), true)
				classes[r.out.class]++
				if os.Getenv("VERIF_C09_SIGNED_TRACE") != "" {
					t.Logf("cfg=%+v ops=%q -> %s", cfg, ops, r.out.class)
				}
				if i == 0 && r.out.class != "accepted" {
					t.Fatalf("harness: the honest block is not accepted on configuration %+v: class %s", cfg, r.out.class)
				}
			}
		}
	}
	if classes["accepted"] < 10 || len(classes) < 8 {
		t.Errorf("generator starvation: outcome classes %v", classes)
	}
	// (a shard of the thorough tier may hold only the entries of one path: the guard counts what this shard executed)
	if k := signedNoRecvSiblings.Load() - noRecv0; preSib >= 16 && k < int64(preSib/4) {
		t.Errorf("generator starvation: %d node-state cases with a sibling went to Executer.process, but only %d siblings reached fork choice on a node without a reception time on record (restarted / synced only / just started)", preSib, k)
	}
	t.Logf("outcome classes: %v", classes)
}

// TestSignedBlocksRandom: drawn configurations, 1-3 consecutive hostile blocks of 1-3 drawn operations each.
func TestSignedBlocksRandom(t *testing.T) {
	rapid.Check(t, func(t *rapid.T) {
		// three quarters of the cases on a fixed set of configurations (their histories are built once), the rest drawn freely
		var cfg signedCfg
		if rapid.IntRange(0, 3).Draw(t, "freeConfig") > 0 {
			cfg = rapid.SampledFrom(signedRandomConfigs).Draw(t, "config")
		} else {
			cfg = signedCfg{nVal: rapid.SampledFrom([]int{1, 2, 3, 4, 4, 5, 7}).Draw(t, "validators")}
			cfg.standby = rapid.SampledFrom([]int{0, 0, 0, 1, 2}).Draw(t, "standby")
			cfg.extra = rapid.SampledFrom([]int{0, 0, 1, 2}).Draw(t, "batchExtra")
			cfg.hist = rapid.IntRange(0, ifi(evid.Thorough(), 40, 22)).Draw(t, "history")
			if cfg.nVal > 1 {
				cfg.change = rapid.SampledFrom([]int{0, 0, 1}).Draw(t, "change")
			}
		}
		cfg.path = rapid.SampledFrom([]int{0, 0, 0, 1}).Draw(t, "path")
		nseg := rapid.SampledFrom([]int{1, 1, 1, 2, 2, 3, 5}).Draw(t, "blocks")
		var segs []string
		for s := 0; s < nseg; s++ {
			k := rapid.SampledFrom([]int{1, 1, 1, 2, 2, 3}).Draw(t, "ops")
			if s > 0 && rapid.IntRange(0, 3).Draw(t, "honest") == 0 {
				k = 0
			}
			var ops []string
			// a quarter of the blocks meet a node in a drawn reception state: (re)started, synced only, received in order just now
			sibShare := 7
			if rapid.IntRange(0, 3).Draw(t, "nodeState") == 0 {
				ops = append(ops, drawSignedPre(t)...)
				sibShare = 1 // half of them are siblings of the tip: fork choice reads the reception time only for those
				if k == 0 {
					k = rapid.IntRange(0, 1).Draw(t, "opsAfterState")
				}
			}
			if (k > 0 || len(ops) > 0) && rapid.IntRange(0, sibShare).Draw(t, "sibling") == 0 {
				ops = append(ops, fmt.Sprintf("sib=%d", rapid.IntRange(1, 3).Draw(t, "sibSalt")))
			}
			for i := 0; i < k; i++ {
				ops = append(ops, drawSignedOp(t))
			}
			segs = append(segs, strings.Join(ops, ";"))
		}
		ops := strings.Join(segs, "|")
		c := signedCase(cfg, ops, ifs(nseg > 1, "rnd-signed-sequence", "rnd-signed-block"))
		exec(t, c, false)
	})
}

// drawSignedPre: the node-state operations in front of a block (see signedPre).
func drawSignedPre(t *rapid.T) []string {
	k := func(label string) int { return rapid.SampledFrom([]int{1, 1, 2, 3}).Draw(t, label) }
	switch rapid.IntRange(0, 7).Draw(t, "preKind") {
	case 0:
		return []string{"pre=asis"}
	case 1, 2:
		return []string{"pre=restart"}
	case 3:
		return []string{fmt.Sprintf("pre=sync:%d", k("synced"))}
	case 4:
		return []string{fmt.Sprintf("pre=recv:%d", k("received")), "pre=restart"}
	case 5:
		return []string{fmt.Sprintf("pre=recv:%d", k("received"))}
	case 6:
		return []string{fmt.Sprintf("pre=recv:%d", k("received")), fmt.Sprintf("pre=sync:%d", k("synced"))}
	}
	return []string{"pre=restart", fmt.Sprintf("pre=sync:%d", k("synced"))}
}

func drawU32Expr(t *rapid.T) string {
	switch rapid.IntRange(0, 5).Draw(t, "u32Kind") {
	case 0:
		return rapid.SampledFrom(u32Bounds).Draw(t, "bound")
	case 1:
		return strconv.FormatUint(uint64(rapid.Uint32().Draw(t, "abs")), 10)
	case 2:
		return rapid.SampledFrom(signedBases).Draw(t, "base")
	default:
		d := rapid.SampledFrom([]int{1, 1, 1, 2, 2, 3, 5, 10, 100, 1000, 65536}).Draw(t, "delta")
		return fmt.Sprintf("%s%s%d", rapid.SampledFrom(signedBases).Draw(t, "base"), rapid.SampledFrom([]string{"+", "-"}).Draw(t, "sign"), d)
	}
}

func drawBytesExpr(t *rapid.T) string {
	if rapid.Bool().Draw(t, "resize") {
		return fmt.Sprintf("len:%d", rapid.SampledFrom([]int{0, 1, 2, 3, 19, 20, 21, 31, 32, 33, 47, 48, 49, 63, 64, 65, 95, 96, 97, 192, 1024, 65536, 300000}).Draw(t, "len"))
	}
	return rapid.SampledFrom([]string{"flip", "zero", "ff", "inf"}).Draw(t, "content")
}

func drawSignedOp(t *rapid.T) string {
	switch rapid.IntRange(0, 11).Draw(t, "opKind") {
	case 0, 1, 2:
		return "mhg=" + drawU32Expr(t)
	case 3:
		return rapid.SampledFrom(allU32).Draw(t, "u32Field") + "=" + drawU32Expr(t)
	case 4:
		return rapid.SampledFrom(append([]string{"gen"}, hashFields...)).Draw(t, "bytesField") + "=" + drawBytesExpr(t)
	case 5:
		return rapid.SampledFrom([]string{"agg.bits", "agg.sig"}).Draw(t, "aggField") + "=" + drawBytesExpr(t)
	case 6:
		return "agg=valid:" + rapid.SampledFrom([]string{"cert+1", "cert+2", "pc", "pc-1", "pc+1", "cert", "h-1"}).Draw(t, "aggHeight") +
			rapid.SampledFrom([]string{"", "", ":1", ":2", ":3"}).Draw(t, "aggSigners")
	case 7:
		return "agg.h=" + drawU32Expr(t)
	case 8:
		return "imp=" + rapid.SampledFrom([]string{"0", "1"}).Draw(t, "imp")
	case 9:
		return rapid.SampledFrom([]string{"txs=1:0", "txs=3:100", "txs=40:0", "txs=90:0", "txs=fill:0", "txs=fill:1", "txs=fill:-1", "txs=fill:-40", "txs=dup", "txs=1:14000", "txs=1:14335", "txs=2:7000"}).Draw(t, "payload")
	case 10:
		return rapid.SampledFrom([]string{"asset=mod0:0", "asset=mod0:70000", "asset=mod0:1048576", "asset=:5", "asset=dup", "asset=unsorted", "asset=noscript", "asset=badscript", "asset=many:64", "asset=many:300",
			"slotgap=2", "slotgap=3", "slotgap=7"}).Draw(t, "asset")
	}
	return rapid.SampledFrom([]string{"sign=other", "sign=none", "sign=key:14", "sign=key:0", "sign=owner"}).Draw(t, "signer")
}
