package c09

import "testing"

// TestZZDiscovered runs last (file order) and prints what the discovery mode (VERIF_C09_DISCOVER=1) collected.
func TestZZDiscovered(t *testing.T) {
	if discover == nil {
		t.Skip("discovery mode off")
	}
	dumpDiscovered()
}
