package c09

import (
	"bytes"
	"fmt"
	"sync"

	"github.com/LiskHQ/lisk-engine/pkg/blockchain"
	"github.com/LiskHQ/lisk-engine/pkg/codec"
	"github.com/LiskHQ/lisk-engine/pkg/consensus"
	"github.com/LiskHQ/lisk-engine/pkg/consensus/certificate"
	"github.com/LiskHQ/lisk-engine/pkg/crypto"
	"github.com/LiskHQ/lisk-engine/pkg/txpool"

	"verifharness/node"
)

// world is the node-harness state shared by all stateful targets of one test process: a real Executer on a chain of
// `worldBlocks` valid blocks with ten equal validators (aggregation bitmaps are two bytes long, so one-byte bitmaps are
// non-empty and shorter than the validator list), a started p2p connection (RPC handlers ban peers) and valid messages
// of every kind used as seeds.
type world struct {
	n       *node.Node
	pool    *txpool.TransactionPool
	blocks  [][]byte // encoded valid blocks (chain blocks, candidates with aggregate commit / transactions, genesis)
	headers [][]byte
	txs     [][]byte
	assets  [][]byte
	events  [][]byte
	commits [][]byte // encoded EventPostSingleCommits
	aggs    []*blockchain.AggregateCommit
	aggKeys int // number of validators (bitmap positions)
	ids     [][]byte
}

const (
	worldValidators = 10
	worldBlocks     = 24
)

var (
	theWorld  *world
	worldOnce sync.Once
	worldErr  error
)

func getWorld() *world {
	worldOnce.Do(func() { theWorld, worldErr = buildWorld() })
	if worldErr != nil {
		panic(fmt.Sprintf("harness: cannot build the node state: %v", worldErr))
	}
	return theWorld
}

func buildWorld() (*world, error) {
	w := &world{aggKeys: worldValidators}
	n, err := node.New(node.Config{Genesis: node.EqualGenesis(worldValidators), BatchSize: worldValidators, ListenAddr: "/ip4/127.0.0.1/tcp/0"})
	if err != nil {
		return nil, err
	}
	w.n = n
	nonce := uint64(0)
	for i := 0; i < worldBlocks; i++ {
		s := node.Spec{Script: node.Script{Salt: uint32(i % 4), EvBefore: i % 2, EvAfter: i % 3}}
		if i%3 == 1 {
			for k := 0; k < 1+i%3; k++ {
				s.Txs = append(s.Txs, node.MakeTx(10+k, nonce, 1000+uint64(i), node.TxOK, k%3, i%9))
				nonce++
			}
		}
		if i%5 == 2 {
			s.ExtraAssets = []*blockchain.BlockAsset{{Module: "mod0", Data: []byte{1, 2, 3}}, {Module: "mod1", Data: []byte{}}}
		}
		if i == worldBlocks-1 {
			// the tip block changes the BFT parameters (certificate threshold only): parameters are REGISTERED for height tip+1 although
			// no block exists there - the state right after genesis and after every validator-set change (added after seeded change C09-q:
			// a single commit for height tip+1 was looked up, not found, and dereferenced)
			next := node.EqualGenesis(worldValidators)
			next.Cert++
			s.Script.Next = &next
		}
		b, err := n.Apply(s)
		if err != nil {
			return nil, fmt.Errorf("apply block %d: %w", i, err)
		}
		if i < 3 || i%3 == 1 || i%5 == 2 {
			w.blocks = append(w.blocks, b.Encode())
		}
		w.ids = append(w.ids, b.Header.ID)
		for _, tx := range b.Transactions {
			w.txs = append(w.txs, tx.Encode())
		}
		for _, a := range b.Assets {
			w.assets = append(w.assets, a.Encode())
		}
	}
	_, pc, cert := n.Heights()
	if pc <= cert {
		return nil, fmt.Errorf("no certifiable height (precommitted %d, certified %d)", pc, cert)
	}
	keys := node.Keys()
	for h := cert + 1; h <= pc && len(w.aggs) < 4; h++ {
		p, err := n.CurrentParams(h)
		if err != nil {
			return nil, err
		}
		for _, k := range []int{len(p.Idx), int(p.Cert)} {
			agg, err := n.BuildAggregate(h, p.Idx[:k])
			if err != nil {
				return nil, err
			}
			if err := n.Exec.VerifVerifyAggregateCommit(n.Store(), agg); err != nil {
				return nil, fmt.Errorf("harness aggregate commit for height %d rejected: %w", h, err)
			}
			w.aggs = append(w.aggs, agg)
		}
		hd, err := n.Chain.DataAccess().GetBlockHeaderByHeight(h)
		if err != nil {
			return nil, err
		}
		var scs []*certificate.SingleCommit
		for _, ix := range p.Idx[:3] {
			scs = append(scs, certificate.NewSingleCommit(hd, keys[ix].Addr, node.ChainID, keys[ix].BLSPriv))
		}
		w.commits = append(w.commits, (&consensus.EventPostSingleCommits{SingleCommits: scs[:1]}).Encode(), (&consensus.EventPostSingleCommits{SingleCommits: scs}).Encode())
	}
	// single commits for heights around the tip, where no (or no finalized) block exists: tip-1, tip, tip+1, tip+2, signed by an active
	// validator over a fabricated header of that height, and over the real header where there is one
	{
		tip := n.Tip().Header
		for _, dh := range []int{-1, 0, 1, 2, 3} {
			fake := *tip
			fake.Height = uint32(int(tip.Height) + dh)
			fake.ID = bytes.Repeat([]byte{byte(0x40 + dh)}, 32)
			var scs []*certificate.SingleCommit
			for _, ix := range []int{0, 1} {
				scs = append(scs, certificate.NewSingleCommit(&fake, keys[ix].Addr, node.ChainID, keys[ix].BLSPriv))
			}
			if hd, err := n.Chain.DataAccess().GetBlockHeaderByHeight(fake.Height); err == nil {
				scs = append(scs, certificate.NewSingleCommit(hd, keys[2].Addr, node.ChainID, keys[2].BLSPriv))
			}
			w.commits = append(w.commits, (&consensus.EventPostSingleCommits{SingleCommits: scs[:1]}).Encode(), (&consensus.EventPostSingleCommits{SingleCommits: scs}).Encode())
		}
	}
	// candidate blocks on top of the tip (not applied): with an aggregate commit, with transactions, with impliesMaxPrevotes
	for i, agg := range w.aggs[:2] {
		s := node.Spec{Agg: agg, Script: node.Script{Salt: 9}}
		if i == 1 {
			s.Txs = []*blockchain.Transaction{node.MakeTx(12, 500, 7, node.TxOK, 1, 40), node.MakeTx(13, 501, 8, node.TxExecuteFail, 0, 0)}
		}
		b, err := n.Build(s)
		if err != nil {
			return nil, err
		}
		w.blocks = append(w.blocks, b.Encode())
		c := node.CloneBlock(b)
		c.Header.ImpliesMaxPrevotes = true
		node.Resign(c, node.KeyByAddr(c.Header.GeneratorAddress))
		w.blocks = append(w.blocks, c.Encode())
	}
	w.blocks = append(w.blocks, n.Genesis.Encode()) // last: the gossip validator rejects it (no signature)
	for _, bb := range w.blocks {
		b, err := blockchain.NewBlock(bb)
		if err != nil {
			return nil, fmt.Errorf("seed block does not decode: %w", err)
		}
		w.headers = append(w.headers, b.Header.Encode())
	}
	// transactions: more shapes
	multi := node.MakeTx(11, 77, 1<<40, node.TxOK, 0, 3)
	multi.Signatures = append(multi.Signatures, multi.Signatures[0], codec.Hex(bytes.Repeat([]byte{0xab}, 64)))
	multi.Init()
	big := node.MakeTx(12, 1<<63, 1<<64-1, node.TxOK, 0, 300)
	empty := &blockchain.Transaction{Module: "", Command: "", SenderPublicKey: []byte{}, Params: []byte{}, Signatures: []codec.Hex{}}
	w.txs = append(w.txs, multi.Encode(), big.Encode(), empty.Encode())
	// events
	for i := 0; i < 4; i++ {
		topics := []codec.Hex{}
		for k := 0; k <= i; k++ {
			topics = append(topics, crypto.Hash([]byte{byte(k)})[:8+k])
		}
		ev := blockchain.NewEventFromValues("verif", "commandExecutionResult", bytes.Repeat([]byte{byte(i)}, i*5), topics, uint32(10+i), uint32(i))
		w.events = append(w.events, ev.Encode())
	}
	w.assets = append(w.assets, (&blockchain.BlockAsset{Module: "", Data: []byte{}}).Encode(), (&blockchain.BlockAsset{Module: "m", Data: bytes.Repeat([]byte{7}, 200)}).Encode())
	w.pool = txpool.NewTransactionPool(nil)
	return w, nil
}
