package c09

import (
	"bytes"
	"fmt"
	"sync"

	"github.com/LiskHQ/lisk-engine/pkg/codec"
	"github.com/LiskHQ/lisk-engine/pkg/crypto"
	"github.com/LiskHQ/lisk-engine/pkg/trie/rmt"
	"github.com/LiskHQ/lisk-engine/pkg/trie/smt"
)

// Proof verifiers with structured arguments.
//
// smt.Verify:   LL[0] = query keys, LL[1] = proof sibling hashes, LL[2]/LL[3]/LL[4] = key/value/bitmap of each proof
//               query, B[0] = root, U[0] = key length.
// rmt.VerifyProof: LL[0] = query hashes, LL[1] = sibling hashes, B[0] = root, U[0] = size, U[1:] = idxs.
// rmt.CalculateRootFromUpdateData: LL[0] = update data, LL[1] = sibling hashes, U[0] = size, U[1:] = idxs.
// rmt.VerifyRightWitness: LL[0] = append path, LL[1] = right witness, B[0] = root, U[0] = node index.

type mapDB struct{ kv map[string][]byte }

func newMapDB() *mapDB { return &mapDB{kv: map[string][]byte{}} }
func (d *mapDB) Get(k []byte) ([]byte, bool) {
	v, ok := d.kv[string(k)]
	return v, ok
}
func (d *mapDB) Set(k, v []byte) { d.kv[string(k)] = append([]byte{}, v...) }
func (d *mapDB) Del(k []byte)    { delete(d.kv, string(k)) }

type smtFixture struct {
	keyLen int
	root   []byte
	proofs []*smt.Proof
	qkeys  [][][]byte
}

type rmtFixture struct {
	size    uint64
	root    []byte
	leaves  [][]byte // leaf hashes
	data    [][]byte
	proofs  []*rmt.Proof
	queries [][][]byte
	// right witnesses
	witIdx   []uint64
	witPaths [][][]byte
	witness  [][][]byte
}

var (
	proofOnce sync.Once
	smtFix    []*smtFixture
	rmtFix    []*rmtFixture
)

func proofFixtures() ([]*smtFixture, []*rmtFixture) {
	proofOnce.Do(func() {
		for _, kl := range []int{2, 32} {
			d := newMapDB()
			var keys, vals [][]byte
			for i := 0; i < 9; i++ {
				k := crypto.Hash([]byte{byte(i), byte(kl)})[:kl]
				keys = append(keys, k)
				vals = append(vals, crypto.Hash([]byte{0xaa, byte(i)}))
			}
			tr := smt.NewTrie(nil, kl)
			root, err := tr.Update(d, keys, vals)
			if err != nil {
				panic(fmt.Sprintf("harness: smt update: %v", err))
			}
			f := &smtFixture{keyLen: kl, root: root}
			absent := crypto.Hash([]byte{0xee, byte(kl)})[:kl]
			absent2 := append([]byte{}, keys[4]...)
			absent2[kl-1] ^= 1
			for _, qs := range [][][]byte{{keys[0]}, {keys[1], keys[2], keys[3]}, {absent}, {keys[5], absent, absent2}, keys} {
				p, err := smt.NewTrie(root, kl).Prove(d, qs)
				if err != nil {
					panic(fmt.Sprintf("harness: smt prove: %v", err))
				}
				ok, err := smt.Verify(qs, p, root, kl)
				if err != nil || !ok {
					panic(fmt.Sprintf("harness: honest smt proof does not verify: %v %v", ok, err))
				}
				f.proofs = append(f.proofs, p)
				f.qkeys = append(f.qkeys, qs)
			}
			smtFix = append(smtFix, f)
		}
		for _, n := range []int{1, 2, 5, 8, 13} {
			d := newMapDB()
			tr := rmt.NewRegularMerkleTree(d)
			f := &rmtFixture{size: uint64(n)}
			for i := 0; i < n; i++ {
				v := []byte(fmt.Sprintf("leaf-%d-of-%d", i, n))
				if err := tr.Append(v); err != nil {
					panic(fmt.Sprintf("harness: rmt append: %v", err))
				}
				f.data = append(f.data, v)
				f.leaves = append(f.leaves, crypto.Hash(append([]byte{0x00}, v...)))
			}
			f.root = tr.Root()
			sets := [][]int{{0}, {n - 1}}
			if n >= 5 {
				sets = append(sets, []int{1, 2}, []int{0, n / 2, n - 1})
			}
			for _, s := range sets {
				var q [][]byte
				for _, i := range s {
					q = append(q, f.leaves[i])
				}
				p, err := tr.GenerateProof(q)
				if err != nil {
					panic(fmt.Sprintf("harness: rmt proof: %v", err))
				}
				if !rmt.VerifyProof(q, p, f.root) {
					panic("harness: honest rmt proof does not verify")
				}
				f.proofs = append(f.proofs, p)
				f.queries = append(f.queries, q)
			}
			// right witnesses: index i, append path of the first i leaves
			for _, i := range []int{1, n / 2, n - 1} {
				if i <= 0 || i >= n {
					continue
				}
				pt := rmt.NewRegularMerkleTree(newMapDB())
				for k := 0; k < i; k++ {
					pt.Append(f.data[k])
				}
				w, err := tr.GenerateRightWitness(uint64(i))
				if err != nil {
					continue
				}
				if !rmt.VerifyRightWitness(uint64(i), pt.AppendPath(), w, f.root) {
					panic(fmt.Sprintf("harness: honest right witness does not verify (n=%d i=%d)", n, i))
				}
				f.witIdx = append(f.witIdx, uint64(i))
				f.witPaths = append(f.witPaths, pt.AppendPath())
				f.witness = append(f.witness, w)
			}
			rmtFix = append(rmtFix, f)
		}
	})
	return smtFix, rmtFix
}

func smtProofSeeds() [][]byte {
	s, _ := proofFixtures()
	var out [][]byte
	for _, p := range s[0].proofs {
		out = append(out, p.Encode())
	}
	out = append(out, s[1].proofs[1].Encode())
	return out
}
func smtSeedRoot() []byte { s, _ := proofFixtures(); return s[0].root }

func rmtProofSeeds() [][]byte {
	_, r := proofFixtures()
	var out [][]byte
	for _, f := range r {
		for _, p := range f.proofs {
			out = append(out, p.Encode())
		}
	}
	return out
}
func rmtSeedQueries() [][]byte { _, r := proofFixtures(); return append([][]byte{}, r[3].leaves...) }
func rmtSeedRoot() []byte      { _, r := proofFixtures(); return r[3].root }

func smtCase(qkeys [][]byte, p *smt.Proof, root []byte, keyLen int) *Case {
	c := &Case{Target: "smt.Verify", B: []hexb{root}, U: []uint64{uint64(keyLen)}}
	var ks, vs, bs [][]byte
	for _, q := range p.Queries {
		ks, vs, bs = append(ks, q.Key), append(vs, q.Value), append(bs, q.Bitmap)
	}
	c.LL = [][]hexb{hexbs(qkeys), hexbs(codec.HexArrayToBytesArray(p.SiblingHashes)), hexbs(ks), hexbs(vs), hexbs(bs)}
	return c
}

func init() {
	register(&target{name: "smt.Verify", group: "proof", perB: 1024, run: func(c *Case) outcome {
		p := &smt.Proof{SiblingHashes: codec.BytesArrayToHexArray(c.ll(1))}
		ks, vs, bs := c.ll(2), c.ll(3), c.ll(4)
		for i := range ks {
			q := &smt.QueryProof{Key: ks[i]}
			if i < len(vs) {
				q.Value = vs[i]
			}
			if i < len(bs) {
				q.Bitmap = bs[i]
			}
			p.Queries = append(p.Queries, q)
		}
		ok, err := smt.Verify(c.ll(0), p, c.b(0), int(int32(c.u(0))))
		return outcome{class: ifs(err != nil, "err", ifs(ok, "true", "false")), passed: err == nil}
	}})
	register(&target{name: "rmt.VerifyProof", group: "proof", run: func(c *Case) outcome {
		p := &rmt.Proof{Size: c.u(0), SiblingHashes: c.ll(1)}
		if len(c.U) > 1 {
			p.Idxs = c.U[1:]
		}
		ok := rmt.VerifyProof(c.ll(0), p, c.b(0))
		return outcome{class: ifs(ok, "true", "false"), passed: true}
	}})
	register(&target{name: "rmt.CalculateRootFromUpdateData", group: "proof", run: func(c *Case) outcome {
		p := &rmt.Proof{Size: c.u(0), SiblingHashes: c.ll(1)}
		if len(c.U) > 1 {
			p.Idxs = c.U[1:]
		}
		_, err := rmt.CalculateRootFromUpdateData(c.ll(0), p)
		return errClass(err)
	}})
	register(&target{name: "rmt.VerifyRightWitness", group: "proof", run: func(c *Case) outcome {
		ok := rmt.VerifyRightWitness(c.u(0), c.ll(0), c.ll(1), c.b(0))
		return outcome{class: ifs(ok, "true", "false"), passed: true}
	}})
}

func cloneLL(in [][]byte) [][]byte {
	out := make([][]byte, len(in))
	for i, b := range in {
		out[i] = bytes.Clone(b)
	}
	return out
}
