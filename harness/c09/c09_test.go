// Package c09 checks property C09: no byte string or message received from a peer or an RPC client can crash or hang
// the node. Every network-facing decoder, validator and verifier is called in-process behind recover, a watchdog and
// allocation accounting with (1) structure-aware mutations of valid messages, (2) every byte string of length <= 2 (<= 3
// for the cheap ones in the thorough tier), (3) seed corpora of native fuzz targets.
package c09

import (
	"bytes"
	"encoding/hex"
	"encoding/json"
	"fmt"
	"os"
	"regexp"
	"runtime"
	"runtime/debug"
	"runtime/metrics"
	"sort"
	"strings"
	"sync"
	"sync/atomic"
	"testing"
	"time"

	"verifharness/evid"
)

func TestMain(m *testing.M) {
	startWatchdog()
	openCaseLog()
	if os.Getenv("VERIF_C09_DISCOVER") != "" {
		// development aid: collect every distinct failure (smallest input per signature) instead of stopping at the first
		discover = map[string]*discovered{}
	}
	evid.Main(m, "C09")
}

// strict: VERIF_C09_STRICT=1 treats every listed known finding as if it had been flipped to fixed (used to verify the
// proposed repairs and to run the sensitivity mutants without the list masking them).
var strict = os.Getenv("VERIF_C09_STRICT") != ""

func knownFinding(sig string) bool { return !strict && evid.R.KnownFinding(sig) }
func isKnown(sig string) bool      { return !strict && evid.R.IsKnown(sig) }

type discovered struct {
	c   *Case
	msg string
	n   int
}

var (
	discover   map[string]*discovered
	discoverN  = map[string]int{}
	discoverMu sync.Mutex
)

func dumpDiscovered() {
	var sigs []string
	for s := range discover {
		sigs = append(sigs, s)
	}
	sort.Strings(sigs)
	for _, s := range sigs {
		d := discover[s]
		fmt.Printf("DISCOVERED %s  (%d cases)\n   %s\n   minimal: %s\n", s, discoverN[s], d.msg, d.c.json())
	}
}

func firstLines(s string, n int) string {
	l := strings.Split(s, "\n")
	if len(l) > n {
		l = l[:n]
	}
	return strings.Join(l, " | ")
}

func ifi(c bool, a, b int) int {
	if c {
		return a
	}
	return b
}

// ---------------------------------------------------------------------------------------------------------------
// Case: the uniform, JSON-able description of one call (replayable with VERIF_REPLAY_CASE).

// Case carries the arguments of one call in generic slots; each target documents how it reads them.
type Case struct {
	Target string   `json:"target"`
	B      []hexb   `json:"b,omitempty"`  // byte-string arguments (B[0] = the wire input of byte-string targets)
	LL     [][]hexb `json:"ll,omitempty"` // lists of byte strings (key lists, sibling hashes, ...)
	U      []uint64 `json:"u,omitempty"`  // integer arguments
	S      string   `json:"s,omitempty"`  // text argument
	Gen    string   `json:"gen,omitempty"`
	NMut   int      `json:"nmut,omitempty"` // number of mutations applied to a valid message/argument set (0 = unrelated to one)
	fromOK bool     // derived from a valid message
	_      struct{}
}

type hexb []byte

func (h hexb) MarshalJSON() ([]byte, error) { return json.Marshal(hex.EncodeToString(h)) }
func (h *hexb) UnmarshalJSON(b []byte) error {
	var s string
	if err := json.Unmarshal(b, &s); err != nil {
		return err
	}
	d, err := hex.DecodeString(s)
	if err != nil {
		return err
	}
	*h = d
	return nil
}

func hexbs(in [][]byte) []hexb {
	out := make([]hexb, len(in))
	for i, b := range in {
		out[i] = b
	}
	return out
}

func raws(in []hexb) [][]byte {
	out := make([][]byte, len(in))
	for i, b := range in {
		out[i] = b
	}
	return out
}

// size is the attacker-controlled input length the time/allocation envelopes are expressed in.
func (c *Case) size() int {
	n := len(c.S) + 8*len(c.U)
	for _, b := range c.B {
		n += len(b)
	}
	for _, l := range c.LL {
		for _, b := range l {
			n += len(b) + 1
		}
	}
	return n
}

func (c *Case) key() string {
	var sb strings.Builder
	sb.WriteString(c.Target)
	for _, b := range c.B {
		sb.WriteByte('|')
		sb.Write(b)
	}
	for _, l := range c.LL {
		sb.WriteByte('#')
		for _, b := range l {
			sb.WriteByte('|')
			sb.Write(b)
		}
	}
	for _, u := range c.U {
		fmt.Fprintf(&sb, ",%d", u)
	}
	sb.WriteString(c.S)
	return sb.String()
}

func (c *Case) json() string {
	b, _ := json.Marshal(c)
	return string(b)
}

func (c *Case) b(i int) []byte {
	if i < len(c.B) {
		return c.B[i]
	}
	return nil
}

func (c *Case) u(i int) uint64 {
	if i < len(c.U) {
		return c.U[i]
	}
	return 0
}

func (c *Case) ll(i int) [][]byte {
	if i < len(c.LL) {
		return raws(c.LL[i])
	}
	return nil
}

func bcase(target string, in []byte, gen string, nmut int, fromOK bool) *Case {
	return &Case{Target: target, B: []hexb{in}, Gen: gen, NMut: nmut, fromOK: fromOK}
}

// ---------------------------------------------------------------------------------------------------------------
// Targets.

// outcome of one call: class is a label (ok/err/accept/reject/ignore/true/false), passed = the input passed at least the
// target's first decoding step, viol = an oracle violation other than panic/time/allocation.
type outcome struct {
	class  string
	passed bool
	viol   string
	slow   bool // set by protectTimed
}

type target struct {
	name  string
	run   func(c *Case) outcome
	seeds func() [][]byte // valid wire inputs (byte-string targets only)
	bytes bool            // takes a single byte string
	cheap bool            // pure and fast: 3-byte exhaustive in the thorough tier
	heavy int             // > 0: cap for the exhaustive short-string loop (expensive targets)
	slack int             // extra allocation allowance in bytes (justified per target in notes/C09.md)
	soft  time.Duration   // soft time bound override (targets that cross the loopback network)
	perB  int             // allocation allowance per input byte if larger than the default 256 (justified in notes/C09.md)
	group string          // which test drives it
}

var (
	targets   = map[string]*target{}
	targetSeq []string
)

func register(t *target) {
	if _, dup := targets[t.name]; dup {
		panic("duplicate target " + t.name)
	}
	targets[t.name] = t
	targetSeq = append(targetSeq, t.name)
}

func bytesTargets(group string) []*target {
	var out []*target
	for _, n := range targetSeq {
		if t := targets[n]; t.bytes && (group == "" || t.group == group) {
			out = append(out, t)
		}
	}
	return out
}

// ---------------------------------------------------------------------------------------------------------------
// Execution guard: recover, watchdog, time and allocation envelopes.

const (
	softTime  = 2 * time.Second  // per call, inputs <= 64 KiB; a slow call is repeated three times
	hardTime  = 90 * time.Second // watchdog: a call still running after this is reported as a hang (goroutine dump)
	allocBase = 1 << 20
	allocPerB = 256
	bigInput  = 64 << 10
)

type failer interface {
	Fatalf(format string, args ...any)
}

type inflight struct {
	c     *Case
	start time.Time
}

var (
	current    atomic.Pointer[inflight]
	caseLog    *os.File
	caseLogMu  sync.Mutex
	allocName  = "/gc/heap/allocs:bytes"
	slowSeen   atomic.Int64
	allocRerun atomic.Int64
)

func openCaseLog() {
	if p := os.Getenv("VERIF_C09_LOG"); p != "" {
		f, err := os.OpenFile(p, os.O_CREATE|os.O_WRONLY|os.O_APPEND, 0o644)
		if err == nil {
			caseLog = f
		}
	}
}

// startWatchdog reports a call that does not return: positive evidence (the goroutine dump shows where it sits).
func startWatchdog() {
	go func() {
		for {
			time.Sleep(time.Second)
			cur := current.Load()
			if cur == nil || time.Since(cur.start) < hardTime {
				continue
			}
			// the same call must still be in flight after a grace period measured in this goroutine's own time
			time.Sleep(5 * time.Second)
			if current.Load() != cur {
				continue
			}
			buf := make([]byte, 1<<20)
			buf = buf[:runtime.Stack(buf, true)]
			p := ""
			if evid.R != nil {
				p = evid.R.FailCase("hang", cur.c)
			}
			// dump first, verdict last: the driver shows the tail of the output. The in-flight goroutine is the one whose stack
			// contains c09.protect.
			dump := string(buf)
			var mine []string
			for _, g := range strings.Split(dump, "\n\n") {
				if strings.Contains(g, "c09.protect") || strings.Contains(g, "c09.execBulk") {
					mine = append(mine, g)
				}
			}
			if len(dump) > 200000 {
				dump = dump[:200000] + "\n...(truncated)"
			}
			fmt.Printf("goroutine dump at the time of the hang:\n%s\n\n", dump)
			fmt.Printf("--- FAIL: C09 hang: target %s did not return within %v (case file %s)\ncase: %s\nstack of the call:\n%s\n", cur.c.Target, time.Since(cur.start).Round(time.Second), p, cur.c.json(), strings.Join(mine, "\n\n"))
			if evid.R != nil {
				evid.R.Flush()
			}
			os.Exit(1)
		}
	}()
}

func heapAllocs() uint64 {
	s := []metrics.Sample{{Name: allocName}}
	metrics.Read(s)
	if s[0].Value.Kind() != metrics.KindUint64 {
		return 0
	}
	return s[0].Value.Uint64()
}

type panicInfo struct {
	val   string
	site  string // innermost lisk-engine (or dependency) function on the panicking stack
	stack string
}

var frameRe = regexp.MustCompile(`(?m)^(\S+)\(.*\)\n\t(\S+):(\d+)`)

// panicSite extracts the innermost frame below the runtime's panic machinery that is not part of this harness.
func panicSite(stack string) string {
	ms := frameRe.FindAllStringSubmatch(stack, -1)
	seenPanic := false
	for _, m := range ms {
		fn := m[1]
		if strings.HasPrefix(fn, "panic") || strings.HasPrefix(fn, "runtime.") || strings.HasPrefix(fn, "runtime/debug.") {
			if strings.HasPrefix(fn, "panic") || strings.Contains(fn, "runtime.gopanic") || strings.Contains(fn, "runtime.panic") || strings.Contains(fn, "runtime.goPanic") {
				seenPanic = true
			}
			continue
		}
		if !seenPanic {
			continue
		}
		if strings.Contains(fn, "verifharness/") {
			continue
		}
		fn = strings.TrimPrefix(fn, "github.com/LiskHQ/lisk-engine/pkg/")
		return fn
	}
	return "unknown"
}

func protect(t *target, c *Case) (out outcome, pi *panicInfo) {
	defer func() {
		if r := recover(); r != nil {
			st := string(debug.Stack())
			pi = &panicInfo{val: fmt.Sprint(r), site: panicSite(st), stack: st}
		}
	}()
	out = t.run(c)
	return
}

// protectTimed is protect plus the soft time bound (used by the bulk loop).
func protectTimed(t *target, c *Case) (outcome, *panicInfo) {
	s := time.Now()
	out, pi := protect(t, c)
	if time.Since(s) > timeBound(t, c.size()) {
		out.slow = true
	}
	return out, pi
}

func timeBound(t *target, size int) time.Duration {
	base := softTime
	if t.soft > base {
		base = t.soft
	}
	if size <= bigInput {
		return base
	}
	return base * time.Duration(1+size/bigInput)
}

func allocBound(t *target, size int) uint64 {
	per := allocPerB
	if t.perB > per {
		per = t.perB
	}
	return uint64(allocBase + t.slack + per*size)
}

// execResult is what the callers use for labels.
type execResult struct {
	out      outcome
	panicked bool
	known    bool
}

// exec runs one case under the guard, applies the oracle and registers the case in the evidence.
func exec(f failer, c *Case, enumerating bool) execResult {
	t := targets[c.Target]
	if t == nil {
		f.Fatalf("unknown target %q", c.Target)
		return execResult{}
	}
	if caseLog != nil {
		caseLogMu.Lock()
		caseLog.WriteString(c.json() + "\n")
		caseLogMu.Unlock()
	}
	size := c.size()
	fl := &inflight{c: c, start: time.Now()}
	current.Store(fl)
	a0 := heapAllocs()
	out, pi := protect(t, c)
	a1 := heapAllocs()
	dt := time.Since(fl.start)
	current.Store(nil)

	fail := func(kind, msg string) {
		if discover != nil {
			discoverMu.Lock()
			sig := kind + ":" + c.Target
			if kind == "panic" {
				sig = strings.SplitN(msg, "\"", 3)[1]
			}
			if old, ok := discover[sig]; !ok || c.size() < old.c.size() {
				cc := *c
				discover[sig] = &discovered{c: &cc, msg: firstLines(msg, 2), n: 1 + ifi(ok, 0, 0)}
			}
			discoverN[sig]++
			discoverMu.Unlock()
			return
		}
		p := ""
		if enumerating {
			p = evid.R.FailCase(kind, c)
		}
		f.Fatalf("C09 %s: target %s: %s\ncase (replay: VERIF_REPLAY_CASE=<file with this JSON>%s): %s", kind, c.Target, msg, ifs(p != "", " written to "+p, ""), c.json())
	}

	res := execResult{out: out}
	if pi != nil {
		res.panicked = true
		sig := "panic:" + c.Target + ":" + pi.site
		if knownFinding(sig) {
			res.known = true
			evid.R.Excluded(1)
			evid.R.Case(c.key(), false, nil, "t:"+c.Target, "t:"+c.Target+"/known-panic", "g:"+c.Gen)
			return res
		}
		fail("panic", fmt.Sprintf("signature %q: %s\n%s", sig, pi.val, trimStack(pi.stack)))
		return res
	}
	if dt > timeBound(t, size) {
		slowSeen.Add(1)
		worst := dt
		reproduced := true
		for i := 0; i < 3; i++ {
			s := time.Now()
			current.Store(&inflight{c: c, start: s})
			protect(t, c)
			current.Store(nil)
			d := time.Since(s)
			if d <= timeBound(t, size) {
				reproduced = false
				break
			}
			if d > worst {
				worst = d
			}
		}
		if reproduced {
			if !knownFinding("slow:" + c.Target) {
				fail("time", fmt.Sprintf("took %v (worst of 4 runs %v) for %d input bytes, bound %v", dt, worst, size, timeBound(t, size)))
				return res
			}
			res.known = true
		} else {
			evid.R.Label("slow-not-reproduced", 1)
		}
	}
	if used := a1 - a0; a1 >= a0 && used > allocBound(t, size) {
		allocRerun.Add(1)
		min := used
		for i := 0; i < 3; i++ {
			b0 := heapAllocs()
			protect(t, c)
			b1 := heapAllocs()
			if b1 >= b0 && b1-b0 < min {
				min = b1 - b0
			}
		}
		if min > allocBound(t, size) {
			if !knownFinding("alloc:" + c.Target) {
				fail("allocation", fmt.Sprintf("allocated %d bytes (minimum of 4 runs) for %d input bytes, bound %d", min, size, allocBound(t, size)))
				return res
			}
			res.known = true
		} else {
			evid.R.Label("alloc-not-reproduced", 1)
		}
	}
	if out.viol != "" {
		if !knownFinding("oracle:" + c.Target + ":" + firstWord(out.viol)) {
			fail("oracle", out.viol)
			return res
		}
		res.known = true
	}
	nontrivial := (c.fromOK && c.NMut <= 3) || out.passed
	var sample func() any
	if nontrivial {
		sample = func() any {
			return map[string]any{"case": c, "class": out.class, "ns": dt.Nanoseconds(), "alloc": a1 - a0}
		}
	}
	evid.R.Case(c.key(), nontrivial, sample, "t:"+c.Target, "t:"+c.Target+"/"+out.class, "g:"+c.Gen)
	return res
}

func ifs(c bool, a, b string) string {
	if c {
		return a
	}
	return b
}

func firstWord(s string) string {
	if i := strings.IndexAny(s, " :"); i > 0 {
		return s[:i]
	}
	return s
}

func trimStack(s string) string {
	lines := strings.Split(s, "\n")
	if len(lines) > 40 {
		lines = lines[:40]
	}
	return strings.Join(lines, "\n")
}

// ---------------------------------------------------------------------------------------------------------------
// Replay of a saved case: VERIF_REPLAY_CASE=<json file> go test -run TestReplayCase

func TestReplayCase(t *testing.T) {
	p := os.Getenv("VERIF_REPLAY_CASE")
	if p == "" {
		t.Skip("VERIF_REPLAY_CASE not set")
	}
	b, err := os.ReadFile(p)
	if err != nil {
		t.Fatalf("%v", err)
	}
	c := &Case{}
	if err := json.Unmarshal(b, c); err != nil {
		t.Fatalf("bad case file: %v", err)
	}
	if c.Target == "" && bytes.Contains(b, []byte(`"answers"`)) {
		t.Skip("a download script, not a Case: see TestReplayDownload")
	}
	if c.Target == "" && bytes.Contains(b, []byte(`"conv"`)) {
		t.Skip("a sync conversation script, not a Case: see TestReplayConversation")
	}
	c.fromOK = c.NMut > 0
	r := exec(t, c, false)
	t.Logf("replayed %s: class=%s panicked=%v known=%v", c.Target, r.out.class, r.panicked, r.known)
}

// reportCounts makes the per-target call counts of one driver visible and fails if a target of the group was never
// called (guards the generators, not the engine).
func reportCounts(t *testing.T, counts map[string]int, group string, bytesOnly bool) {
	var names []string
	for _, n := range targetSeq {
		if targets[n].group == group && (!bytesOnly || targets[n].bytes) {
			names = append(names, n)
		}
	}
	sort.Strings(names)
	var sb strings.Builder
	for _, n := range names {
		fmt.Fprintf(&sb, "%s=%d ", n, counts[n])
		if counts[n] == 0 {
			t.Errorf("target %s was never called in group %s (generator starvation)", n, group)
		}
	}
	t.Logf("calls per target: %s", sb.String())
}
