package c09

// sigWitnessHang is the known-finding signature of the non-terminating loop in rmt.CalculateRootFromRightWitness.
const sigWitnessHang = "hang:rmt.VerifyRightWitness:trie/rmt.CalculateRootFromRightWitness"

// witnessHangs predicts (from the argument lengths and the node index only, which is all the loop's control flow depends
// on) whether rmt.CalculateRootFromRightWitness never terminates: the loop consumes an append-path element only at a
// layer where the node index has a 1 bit and a witness element only where the running index has one; once the layer
// counter passes 64 every shift yields 0 and nothing is consumed any more.
func witnessHangs(nodeIndex uint64, nAppend, nWitness int) bool {
	if nAppend == 0 || nWitness == 0 {
		return false
	}
	a, w := nAppend-1, nWitness-1
	layer := 0
	inc := nodeIndex
	initDone := false
	for a > 0 || w > 0 {
		if layer > 200 {
			return true
		}
		if a > 0 && (nodeIndex>>layer)&1 == 1 {
			if !initDone {
				inc += 1 << layer
				initDone = true
			} else {
				a--
			}
		}
		if w > 0 && (inc>>layer)&1 == 1 {
			w--
			inc += 1 << layer
		}
		layer++
	}
	return false
}
