package c09

import (
	"fmt"
	"os"
	"strconv"
	"testing"
	"time"

	"pgregory.net/rapid"

	"verifharness/evid"
)

func shard() (int, int) {
	s, _ := strconv.Atoi(os.Getenv("VERIF_SHARD"))
	n, _ := strconv.Atoi(os.Getenv("VERIF_SHARDS"))
	if n <= 0 {
		n = 1
	}
	if s < 0 || s >= n {
		s = 0
	}
	return s, n
}

// ---------------------------------------------------------------------------------------------------------------
// (1) structure-aware, enumerated: the complete single-mutation neighbourhood of every seed of every byte-string target.

func runMutationEnumeration(t *testing.T, group string) {
	sh, nsh := shard()
	counts := map[string]int{}
	maxSeeds := evid.Scale(ifi(evid.Thorough(), 64, 10))
	unit := 0
	for _, tg := range bytesTargets(group) {
		seeds := tg.seeds()
		if len(seeds) == 0 {
			t.Fatalf("target %s has no seeds", tg.name)
		}
		// seeds must be valid: the target has to accept them (guards the generator)
		for i, s := range seeds {
			r := exec(t, bcase(tg.name, s, "seed", 0, true), true)
			counts[tg.name]++
			if i == 0 && !r.out.passed {
				t.Fatalf("harness: first seed of %s is not accepted by the target (class %s): %x", tg.name, r.out.class, s)
			}
		}
		if len(seeds) > maxSeeds {
			seeds = spread(seeds, maxSeeds)
		}
		for i, s := range seeds {
			unit++
			if unit%nsh != sh {
				continue
			}
			others := [][]byte{seeds[(i+1)%len(seeds)]}
			if len(seeds) > 2 {
				others = append(others, seeds[(i+len(seeds)/2)%len(seeds)])
			}
			allMutants(s, others, ifi(evid.Thorough(), 4096, 384), ifi(evid.Thorough(), 400, 120), func(m mutant) {
				exec(t, bcase(tg.name, m.data, m.kind, 1, true), true)
				counts[tg.name]++
			})
		}
	}
	if nsh == 1 {
		reportCounts(t, counts, group, true)
	}
}

// spread picks n elements evenly, always keeping the first and the last.
func spread(in [][]byte, n int) [][]byte {
	if n >= len(in) {
		return in
	}
	out := make([][]byte, 0, n)
	for i := 0; i < n; i++ {
		out = append(out, in[i*(len(in)-1)/(n-1)])
	}
	return out
}

func TestDecodeMutations(t *testing.T) { runMutationEnumeration(t, "decode") }
func TestNodeMutations(t *testing.T)   { runMutationEnumeration(t, "node") }

// ---------------------------------------------------------------------------------------------------------------
// (2) every byte string of length <= 2 for every byte-string target (<= 3 for the cheap ones in the thorough tier,
// partitioned over the shards by the first byte).

func runShortStrings(t *testing.T, group string) {
	sh, nsh := shard()
	counts := map[string]int{}
	for _, tg := range bytesTargets(group) {
		n := 0
		call := func(b []byte) {
			exec(t, bcase(tg.name, b, fmt.Sprintf("short-%d", len(b)), 0, false), true)
			n++
		}
		limit := -1
		if tg.heavy > 0 {
			limit = evid.Scale(tg.heavy)
		}
		if sh == 0 {
			call([]byte{})
		}
		for a := 0; a < 256; a++ {
			if a%nsh != sh {
				continue
			}
			call([]byte{byte(a)})
			for b := 0; b < 256 && (limit < 0 || n < limit); b++ {
				call([]byte{byte(a), byte(b)})
			}
		}
		if evid.Thorough() && tg.cheap {
			// length 3: bulk (one evidence registration per first byte) to keep the recorder out of the inner loop
			for a := 0; a < 256; a++ {
				if a%nsh != sh {
					continue
				}
				for b := 0; b < 256; b++ {
					current.Store(&inflight{c: &Case{Target: tg.name, B: []hexb{{byte(a), byte(b)}}, Gen: "short-3 (one of the 256 three-byte strings with this prefix)"}, start: time.Now()})
					for c := 0; c < 256; c++ {
						execBulk(t, tg, []byte{byte(a), byte(b), byte(c)})
					}
					current.Store(nil)
				}
				evid.R.Count(65536, "t:"+tg.name, "g:short-3")
				n += 65536
			}
		}
		counts[tg.name] = n
	}
	if nsh == 1 {
		reportCounts(t, counts, group, true)
	}
}

// execBulk is exec without per-case evidence registration (same oracle); used for the 2^24 three-byte strings.
func execBulk(f failer, tg *target, in []byte) {
	c := Case{Target: tg.name, B: []hexb{in}, Gen: "short-3"}
	a0 := heapAllocs()
	out, pi := protectTimed(tg, &c)
	a1 := heapAllocs()
	if pi != nil || out.viol != "" || (a1 >= a0 && a1-a0 > allocBound(tg, len(in))) || out.slow {
		// let the full path decide (re-runs, known findings, messages)
		cc := c
		cc.B = []hexb{append([]byte{}, in...)}
		exec(f, &cc, true)
	}
}

func TestDecodeShortStrings(t *testing.T) { runShortStrings(t, "decode") }
func TestNodeShortStrings(t *testing.T)   { runShortStrings(t, "node") }

// ---------------------------------------------------------------------------------------------------------------
// (1b) structure-aware, random: stacked mutations drawn by rapid (shrinkable).

func TestRandomMutations(t *testing.T) {
	tgs := bytesTargets("")
	names := make([]string, len(tgs))
	for i, tg := range tgs {
		names[i] = tg.name
	}
	seedCache := map[string][][]byte{}
	rapid.Check(t, func(t *rapid.T) {
		name := rapid.SampledFrom(names).Draw(t, "target") // uniform: no target starved
		tg := targets[name]
		seeds, ok := seedCache[name]
		if !ok {
			seeds = tg.seeds()
			seedCache[name] = seeds
		}
		m := seeds[rapid.IntRange(0, len(seeds)-1).Draw(t, "seed")]
		k := rapid.SampledFrom([]int{1, 1, 2, 2, 3, 3, 4, 6}).Draw(t, "mutations")
		gen := ""
		for i := 0; i < k; i++ {
			var kind string
			m, kind = drawMutation(t, m, seeds)
			if i == 0 {
				gen = "rnd-" + kind
			}
		}
		if k > 1 {
			gen = fmt.Sprintf("rnd-stacked-%d", k)
		}
		exec(t, bcase(name, m, gen, k, true), false)
	})
}

// TestRandomBytes: unstructured byte strings (short, and a few long ones up to 64 KiB and beyond) for every target.
func TestRandomBytes(t *testing.T) {
	tgs := bytesTargets("")
	rapid.Check(t, func(t *rapid.T) {
		tg := tgs[rapid.IntRange(0, len(tgs)-1).Draw(t, "target")]
		var in []byte
		switch rapid.IntRange(0, 9).Draw(t, "shape") {
		case 0: // long run of one byte (deep nesting / long varints)
			n := rapid.SampledFrom([]int{100, 1000, 10000, 65536, 200000}).Draw(t, "runLen")
			b := rapid.SampledFrom([]byte{0x00, 0x0a, 0x7a, 0x80, 0xff, 0x12, 0x72}).Draw(t, "runByte")
			in = make([]byte, n)
			for i := range in {
				in[i] = b
			}
		case 1: // nested length-delimited openings: 0a xx 0a xx ...
			depth := rapid.IntRange(1, 2000).Draw(t, "depth")
			key := rapid.SampledFrom([]byte{0x0a, 0x12, 0x1a, 0x72}).Draw(t, "nestKey")
			for i := 0; i < depth; i++ {
				in = append(in, key, byte(rapid.IntRange(0, 127).Draw(t, "nestLen")))
			}
		case 2: // many repeated tiny fields (element-count amplification)
			n := rapid.SampledFrom([]int{10, 1000, 20000}).Draw(t, "reps")
			key := rapid.SampledFrom([]byte{0x0a, 0x12, 0x1a, 0x3a}).Draw(t, "repKey")
			for i := 0; i < n; i++ {
				in = append(in, key, 0x00)
			}
		default:
			in = rapid.SliceOfN(rapid.Byte(), 0, 40).Draw(t, "bytes")
		}
		exec(t, bcase(tg.name, in, "random-bytes", 0, false), false)
	})
}
