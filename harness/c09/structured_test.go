package c09

import (
	"bytes"
	"fmt"
	"os"
	"sort"
	"testing"
	"time"

	"pgregory.net/rapid"

	"github.com/LiskHQ/lisk-engine/pkg/blockchain"
	"github.com/LiskHQ/lisk-engine/pkg/crypto"

	"verifharness/evid"
	"verifharness/node"
)

// Structured targets (verifiers taking keys, signatures, bitmaps, proofs): valid argument sets ("bases") and a generic
// mutation of the argument slots: every length of every byte string, elements of lists dropped / added / resized,
// integers moved to boundaries, curve-point encodings replaced by hostile ones.

func (c *Case) clone() *Case {
	n := &Case{Target: c.Target, S: c.S, Gen: c.Gen, NMut: c.NMut, fromOK: c.fromOK}
	for _, b := range c.B {
		n.B = append(n.B, bytes.Clone(b))
	}
	for _, l := range c.LL {
		nl := make([]hexb, len(l))
		for i, b := range l {
			nl[i] = bytes.Clone(b)
		}
		n.LL = append(n.LL, nl)
	}
	n.U = append([]uint64{}, c.U...)
	return n
}

// hostile byte strings of curve-point / hash / key sizes.
func hostileOfLen(n int) [][]byte {
	if n == 0 {
		return nil
	}
	z := make([]byte, n)
	ff := bytes.Repeat([]byte{0xff}, n)
	inf := make([]byte, n) // compressed point at infinity
	inf[0] = 0xc0
	infBad := make([]byte, n) // infinity flag with garbage
	infBad[0], infBad[n-1] = 0xc0, 0x01
	uncompr := make([]byte, n) // compression flag missing
	uncompr[0] = 0x00
	uncompr[n-1] = 0x01
	sign := make([]byte, n)
	sign[0] = 0xa0
	return [][]byte{z, ff, inf, infBad, uncompr, sign}
}

// bytesMutants yields variants of one byte string: every prefix (all lengths for short strings), extensions, hostile
// contents, bit flips.
func bytesMutants(b []byte, emit func([]byte, string)) {
	step := 1
	if len(b) > 128 {
		step = len(b) / 64
	}
	for i := 0; i < len(b); i += step {
		emit(bytes.Clone(b[:i]), "len-shorter")
	}
	if len(b) > 0 {
		emit(bytes.Clone(b[:len(b)-1]), "len-shorter")
	}
	for _, k := range []int{1, 2, 8, 16, 17, 33} {
		emit(append(bytes.Clone(b), make([]byte, k)...), "len-longer")
	}
	emit(append(bytes.Clone(b), b...), "len-longer")
	for _, h := range hostileOfLen(len(b)) {
		emit(h, "hostile-content")
	}
	for _, p := range []int{0, len(b) / 2, len(b) - 1} {
		if p >= 0 && p < len(b) {
			for _, m := range []byte{0x01, 0x80, 0x20} {
				o := bytes.Clone(b)
				o[p] ^= m
				emit(o, "bit-flip")
			}
		}
	}
	emit(nil, "nil")
}

var uBoundaries = []uint64{0, 1, 2, 3, 7, 8, 9, 1<<31 - 1, 1 << 31, 1<<32 - 1, 1 << 32, 1<<53 + 1, 1<<63 - 1, 1 << 63, 1<<64 - 1}

// structuredMutants enumerates the single-mutation neighbourhood of an argument set.
func structuredMutants(base *Case, emit func(*Case)) {
	mk := func(kind string, f func(c *Case)) {
		c := base.clone()
		c.Gen, c.NMut, c.fromOK = kind, 1, true
		f(c)
		emit(c)
	}
	for i := range base.B {
		i := i
		bytesMutants(base.B[i], func(nb []byte, kind string) { mk(fmt.Sprintf("B%d-%s", i, kind), func(c *Case) { c.B[i] = nb }) })
	}
	for li := range base.LL {
		li := li
		l := base.LL[li]
		name := fmt.Sprintf("L%d", li)
		mk(name+"-emptied", func(c *Case) { c.LL[li] = nil })
		for k := 1; k < len(l); k++ {
			k := k
			mk(name+"-truncated", func(c *Case) { c.LL[li] = c.LL[li][:k] })
		}
		if len(l) > 0 {
			mk(name+"-first-dropped", func(c *Case) { c.LL[li] = c.LL[li][1:] })
			for _, extra := range []int{1, 2, 7, 8, 9, 16, 64} {
				extra := extra
				mk(name+"-extended", func(c *Case) {
					for k := 0; k < extra; k++ {
						c.LL[li] = append(c.LL[li], bytes.Clone(l[k%len(l)]))
					}
				})
			}
			mk(name+"-extended-empty-element", func(c *Case) { c.LL[li] = append(c.LL[li], hexb{}) })
			mk(name+"-reversed", func(c *Case) {
				for a, b := 0, len(c.LL[li])-1; a < b; a, b = a+1, b-1 {
					c.LL[li][a], c.LL[li][b] = c.LL[li][b], c.LL[li][a]
				}
			})
			mk(name+"-all-same", func(c *Case) {
				for k := range c.LL[li] {
					c.LL[li][k] = bytes.Clone(l[0])
				}
			})
		} else {
			mk(name+"-extended", func(c *Case) { c.LL[li] = []hexb{make([]byte, 32)} })
		}
		for ei := range l {
			ei := ei
			if len(l) > 6 && ei != 0 && ei != len(l)-1 && ei != len(l)/2 {
				continue
			}
			bytesMutants(l[ei], func(nb []byte, kind string) {
				mk(fmt.Sprintf("%s-elem-%s", name, kind), func(c *Case) { c.LL[li][ei] = nb })
			})
		}
	}
	for ui := range base.U {
		ui := ui
		vals := append([]uint64{base.U[ui] - 1, base.U[ui] + 1, base.U[ui] * 2, base.U[ui] << 32}, uBoundaries...)
		for _, v := range vals {
			v := v
			if v == base.U[ui] {
				continue
			}
			mk(fmt.Sprintf("U%d-boundary", ui), func(c *Case) { c.U[ui] = v })
		}
	}
	if len(base.U) > 1 {
		for k := 1; k < len(base.U); k++ {
			k := k
			mk("U-list-truncated", func(c *Case) { c.U = c.U[:k] })
		}
		mk("U-list-extended", func(c *Case) { c.U = append(c.U, c.U[len(c.U)-1], 0, 1<<64-1) })
		mk("U-list-duplicate", func(c *Case) { c.U[len(c.U)-1] = c.U[1] })
	}
}

// drawStructuredMutation applies one random slot mutation.
func drawStructuredMutation(t *rapid.T, c *Case) string {
	drawBytes := func(b []byte, label string) []byte {
		switch rapid.IntRange(0, 5).Draw(t, label+"-op") {
		case 0:
			return bytes.Clone(b[:rapid.IntRange(0, len(b)).Draw(t, label+"-cut")])
		case 1:
			return append(bytes.Clone(b), rapid.SliceOfN(rapid.Byte(), 1, 40).Draw(t, label+"-ext")...)
		case 2:
			if h := hostileOfLen(len(b)); len(h) > 0 {
				return h[rapid.IntRange(0, len(h)-1).Draw(t, label+"-h")]
			}
			return []byte{0xc0}
		case 3:
			if len(b) > 0 {
				o := bytes.Clone(b)
				o[rapid.IntRange(0, len(b)-1).Draw(t, label+"-pos")] ^= 1 << rapid.IntRange(0, 7).Draw(t, label+"-bit")
				return o
			}
			return []byte{0}
		case 4:
			return rapid.SliceOfN(rapid.Byte(), 0, 100).Draw(t, label+"-rnd")
		}
		return nil
	}
	var slots []string
	for i := range c.B {
		slots = append(slots, fmt.Sprintf("B%d", i))
	}
	for i := range c.LL {
		slots = append(slots, fmt.Sprintf("L%d", i), fmt.Sprintf("E%d", i))
	}
	for i := range c.U {
		slots = append(slots, fmt.Sprintf("U%d", i))
	}
	if len(c.U) > 1 {
		slots = append(slots, "UL")
	}
	slot := rapid.SampledFrom(slots).Draw(t, "slot")
	var i int
	fmt.Sscanf(slot[1:], "%d", &i)
	switch slot[0] {
	case 'B':
		c.B[i] = drawBytes(c.B[i], "b")
		return "rnd-bytes"
	case 'L':
		l := c.LL[i]
		switch rapid.IntRange(0, 3).Draw(t, "listOp") {
		case 0:
			c.LL[i] = l[:rapid.IntRange(0, len(l)).Draw(t, "listCut")]
		case 1:
			n := rapid.IntRange(1, 20).Draw(t, "listExt")
			for k := 0; k < n; k++ {
				if len(l) > 0 && rapid.Bool().Draw(t, "extCopy") {
					c.LL[i] = append(c.LL[i], bytes.Clone(l[k%len(l)]))
				} else {
					c.LL[i] = append(c.LL[i], rapid.SliceOfN(rapid.Byte(), 0, 50).Draw(t, "extElem"))
				}
			}
		case 2:
			if len(l) > 1 {
				a, b := rapid.IntRange(0, len(l)-1).Draw(t, "swapA"), rapid.IntRange(0, len(l)-1).Draw(t, "swapB")
				l[a], l[b] = l[b], l[a]
			}
		default:
			if len(l) > 0 {
				k := rapid.IntRange(0, len(l)-1).Draw(t, "dropAt")
				c.LL[i] = append(append([]hexb{}, l[:k]...), l[k+1:]...)
			}
		}
		return "rnd-list"
	case 'E':
		if l := c.LL[i]; len(l) > 0 {
			k := rapid.IntRange(0, len(l)-1).Draw(t, "elem")
			l[k] = drawBytes(l[k], "e")
		}
		return "rnd-elem"
	case 'U':
		if slot == "UL" {
			if rapid.Bool().Draw(t, "ulCut") {
				c.U = c.U[:rapid.IntRange(1, len(c.U)).Draw(t, "ulLen")]
			} else {
				c.U = append(c.U, rapid.Uint64().Draw(t, "ulExt"))
			}
			return "rnd-ulist"
		}
		if rapid.Bool().Draw(t, "uBoundary") {
			c.U[i] = rapid.SampledFrom(uBoundaries).Draw(t, "uVal")
		} else {
			c.U[i] = rapid.Uint64().Draw(t, "uRnd")
		}
		return "rnd-uint"
	}
	return "none"
}

// ---------------------------------------------------------------------------------------------------------------
// bases

type blsKeys struct {
	pks, sks [][]byte
}

func sortedBLS(n int) blsKeys {
	ks := node.Keys()[:n]
	idx := make([]int, n)
	for i := range idx {
		idx[i] = i
	}
	sort.Slice(idx, func(a, b int) bool { return bytes.Compare(ks[idx[a]].BLSPub, ks[idx[b]].BLSPub) < 0 })
	var out blsKeys
	for _, i := range idx {
		out.pks = append(out.pks, ks[i].BLSPub)
		out.sks = append(out.sks, ks[i].BLSPriv)
	}
	return out
}

func cryptoBases() []*Case {
	var out []*Case
	k := node.Keys()
	msg := crypto.Hash([]byte("c09 message"))
	sig := crypto.BLSSign(msg, k[0].BLSPriv)
	out = append(out, &Case{Target: "crypto.BLSVerify", B: []hexb{msg, sig, k[0].BLSPub}})
	out = append(out, &Case{Target: "crypto.BLSPopVerify", B: []hexb{k[1].BLSPub, crypto.BLSPopProve(k[1].BLSPriv)}})
	for _, n := range []int{3, 9, 10} {
		ks := sortedBLS(n)
		var pairs []*crypto.BLSPublicKeySignaturePair
		for i := 0; i < n; i++ {
			if i%3 != 1 {
				pairs = append(pairs, &crypto.BLSPublicKeySignaturePair{PublicKey: ks.pks[i], Signature: crypto.BLSSign(msg, ks.sks[i])})
			}
		}
		bits, agg := crypto.BLSCreateAggSig(ks.pks, pairs)
		if !crypto.BLSVerifyAggSig(ks.pks, bits, agg, msg) {
			panic("harness: honest aggregate signature does not verify")
		}
		out = append(out, &Case{Target: "crypto.BLSVerifyAggSig", LL: [][]hexb{hexbs(ks.pks)}, B: []hexb{bits, agg, msg}})
		u := []uint64{uint64(len(pairs))}
		for i := 0; i < n; i++ {
			u = append(u, 1+uint64(i%2))
		}
		if !crypto.BLSVerifyWeightedAggSig(ks.pks, bits, agg, u[1:], u[0], msg) {
			panic("harness: honest weighted aggregate signature does not verify")
		}
		out = append(out, &Case{Target: "crypto.BLSVerifyWeightedAggSig", LL: [][]hexb{hexbs(ks.pks)}, B: []hexb{bits, agg, msg}, U: u})
	}
	edSig := crypto.Sign(k[2].EdPriv, msg)
	if crypto.VerifySignature(k[2].EdPub, edSig, msg) != nil {
		panic("harness: honest Ed25519 signature does not verify")
	}
	out = append(out, &Case{Target: "crypto.VerifySignature", B: []hexb{k[2].EdPub, edSig, msg}})
	w := getWorld()
	for _, hb := range [][]byte{w.headers[0], w.headers[len(w.headers)-2]} {
		h, _ := blockchain.NewBlockHeader(hb)
		gen := node.KeyByAddr(h.GeneratorAddress)
		if !h.VerifySignature(node.ChainID, gen.EdPub) {
			panic("harness: seed header signature does not verify")
		}
		out = append(out, &Case{Target: "BlockHeader.VerifySignature", B: []hexb{hb, node.ChainID, gen.EdPub}})
		// the header's own signature field with every length (the decoder accepts any)
		for _, l := range []int{0, 1, 63, 65, 128} {
			c := node.CloneBlock(&blockchain.Block{Header: h, Transactions: []*blockchain.Transaction{}, Assets: []*blockchain.BlockAsset{}})
			c.Header.Signature = bytes.Repeat([]byte{7}, l)
			out = append(out, &Case{Target: "BlockHeader.VerifySignature", B: []hexb{c.Header.Encode(), node.ChainID, gen.EdPub}, Gen: "variant"})
		}
	}
	return out
}

func aggBases() []*Case {
	var out []*Case
	for _, a := range getWorld().aggs {
		out = append(out, &Case{Target: "Executer.verifyAggregateCommit", U: []uint64{uint64(a.Height)}, B: []hexb{hexb(a.AggregationBits), hexb(a.CertificateSignature)}})
	}
	return out
}

func proofBases() []*Case {
	var out []*Case
	sf, rf := proofFixtures()
	for _, f := range sf {
		for i, p := range f.proofs {
			out = append(out, smtCase(f.qkeys[i], p, f.root, f.keyLen))
		}
	}
	for _, f := range rf {
		for i, p := range f.proofs {
			u := append([]uint64{p.Size}, p.Idxs...)
			out = append(out, &Case{Target: "rmt.VerifyProof", LL: [][]hexb{hexbs(f.queries[i]), hexbs(p.SiblingHashes)}, B: []hexb{f.root}, U: u})
			upd := make([][]byte, len(p.Idxs))
			for k := range upd {
				upd[k] = []byte(fmt.Sprintf("new-%d", k))
			}
			out = append(out, &Case{Target: "rmt.CalculateRootFromUpdateData", LL: [][]hexb{hexbs(upd), hexbs(p.SiblingHashes)}, U: u})
		}
		for i := range f.witIdx {
			out = append(out, &Case{Target: "rmt.VerifyRightWitness", LL: [][]hexb{hexbs(f.witPaths[i]), hexbs(f.witness[i])}, B: []hexb{f.root}, U: []uint64{f.witIdx[i]}})
		}
	}
	return out
}

// ---------------------------------------------------------------------------------------------------------------
// drivers

// avoid handles argument sets that are predicted to hang (a hang cannot be recovered from in-process): while the finding
// is listed as known they are excluded by construction; otherwise the prediction is confirmed on the real code in a
// separate goroutine and only a call that really does not return is reported (with the fix applied the calls return and
// the cases run normally).
func avoid(f failer, c *Case) bool {
	if c.Target == "rmt.VerifyRightWitness" && witnessHangs(c.u(0), len(c.ll(0)), len(c.ll(1))) {
		if isKnown(sigWitnessHang) {
			knownFinding(sigWitnessHang)
			evid.R.Excluded(1)
			return true
		}
		done := make(chan struct{})
		go func() {
			defer func() { recover(); close(done) }()
			targets[c.Target].run(c)
		}()
		select {
		case <-done:
			return false
		case <-time.After(20 * time.Second):
			// A spinning call cannot be abandoned: its goroutine keeps a core busy, and letting the test go on (rapid would shrink by
			// trying more such cases) only piles up spinning goroutines until the shard runs into its test timeout (seeded change C09-u was
			// reported that way after 15 minutes). Same ending as the general watchdog: case file, verdict, process exit.
			pth := ""
			if evid.R != nil {
				pth = evid.R.FailCase("hang", c)
			}
			fmt.Printf("--- FAIL: C09 hang: target %s did not return within 20 s (signature %q; the loop of CalculateRootFromRightWitness consumes nothing once the layer index passes the bits of the node index; case file %s)\ncase: %s\n", c.Target, sigWitnessHang, pth, c.json())
			if evid.R != nil {
				evid.R.Flush()
			}
			os.Exit(1)
			return true
		}
	}
	return false
}

func runStructuredEnumeration(t *testing.T, bases []*Case, group string, capPerTarget int) {
	counts := map[string]int{}
	sh, nsh := shard()
	for bi, base := range bases {
		base.fromOK = true
		variant := base.Gen == "variant" // a deliberately invalid argument set used as a second starting point
		base.Gen = "base"
		r := exec(t, base, true)
		counts[base.Target]++
		if variant {
			base.NMut = 1
		} else if !r.out.passed || (r.out.class != "true" && r.out.class != "ok") {
			t.Fatalf("harness: valid argument set %d of %s is not accepted (class %s): %s", bi, base.Target, r.out.class, base.json())
		}
		if bi%nsh != sh {
			continue
		}
		structuredMutants(base, func(c *Case) {
			if capPerTarget > 0 && counts[c.Target] >= capPerTarget {
				return
			}
			if avoid(t, c) {
				evid.R.Excluded(1)
				return
			}
			exec(t, c, true)
			counts[c.Target]++
		})
	}
	var sb []string
	for k, v := range counts {
		sb = append(sb, fmt.Sprintf("%s=%d", k, v))
	}
	sort.Strings(sb)
	t.Logf("calls per target (%s): %v", group, sb)
}

func TestCryptoEnumerated(t *testing.T) {
	runStructuredEnumeration(t, cryptoBases(), "crypto", evid.Scale(ifi(evid.Thorough(), 20000, 2500)))
}
func TestAggregateCommitEnumerated(t *testing.T) {
	runStructuredEnumeration(t, aggBases(), "node", evid.Scale(ifi(evid.Thorough(), 20000, 2500)))
}
func TestProofsEnumerated(t *testing.T) {
	runStructuredEnumeration(t, proofBases(), "proof", 0)
}

func TestStructuredRandom(t *testing.T) {
	var bases []*Case
	bases = append(bases, cryptoBases()...)
	bases = append(bases, aggBases()...)
	bases = append(bases, proofBases()...)
	byTarget := map[string][]*Case{}
	var names []string
	for _, b := range bases {
		if len(byTarget[b.Target]) == 0 {
			names = append(names, b.Target)
		}
		byTarget[b.Target] = append(byTarget[b.Target], b)
	}
	rapid.Check(t, func(t *rapid.T) {
		name := rapid.SampledFrom(names).Draw(t, "target")
		bs := byTarget[name]
		c := bs[rapid.IntRange(0, len(bs)-1).Draw(t, "base")].clone()
		k := rapid.SampledFrom([]int{1, 1, 2, 2, 3, 3, 5}).Draw(t, "mutations")
		for i := 0; i < k; i++ {
			c.Gen = drawStructuredMutation(t, c)
		}
		if k > 1 {
			c.Gen = fmt.Sprintf("rnd-stacked-%d", k)
		}
		c.NMut, c.fromOK = k, true
		if avoid(t, c) {
			evid.R.Excluded(1)
			return
		}
		exec(t, c, false)
	})
}
