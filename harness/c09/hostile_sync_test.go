package c09

import (
	"context"
	"encoding/hex"
	"encoding/json"
	"fmt"
	"os"
	"runtime"
	"strings"
	"sync"
	"sync/atomic"
	"testing"
	"time"

	"pgregory.net/rapid"

	"github.com/LiskHQ/lisk-engine/pkg/blockchain"
	csync "github.com/LiskHQ/lisk-engine/pkg/consensus/sync"
	"github.com/LiskHQ/lisk-engine/pkg/p2p"

	"verifharness/evid"
	"verifharness/node"
)

// ---------------------------------------------------------------------------------------------------------------------
// Sync downloads against hostile-but-well-formed peers.
//
// Every answer of the scripted peer is a correctly encoded getBlocksFromId response made of blocks that decode; what is
// hostile is WHICH blocks it contains: only the requested block, the same segment again and again, blocks below the
// start, nothing, descending order, duplicates, one block per answer, an endless run of valid-looking blocks past the
// announced tip. The Downloader is driven exactly as fast sync / block sync drive it (hook VerifDownload: read
// Downloaded() until it is closed) on the world node's started connection.
//
// Oracle - termination with POSITIVE evidence for the opposite, never "wait, then pass":
//   (a) the requester asks for the same block ID `dlSameLimit` times in a row (an answer that makes progress changes the
//       ID the next request starts from, so on a terminating implementation this happens at most twice), or
//   (b) it has sent more than span + dlExtra requests, span = announced end height - start height (every answer must
//       advance by at least one height and heights above the end are refused, so span requests are the maximum), or
//   (c) the download neither ended nor sent a request for dlIdle (the stack of Downloader.Start is attached).
// The harness then cancels the context (the engine's callers never do) and reports the request log. A download that ends
// - with blocks or with an error - is fine whatever it delivered: what is delivered is processed by block validation,
// which is the subject of other checks.

const (
	dlSameLimit = 20
	dlExtra     = 25
	dlIdle      = 45 * time.Second
)

// dlScript is one replayable scenario. Heights are heights of the world chain (0 = genesis ... worldBlocks); heights
// above the chain are served as fabricated blocks (a re-stamped, re-signed copy of the tip: decodes, fresh ID).
type dlScript struct {
	Name    string  `json:"name"`
	Start   int     `json:"start"`   // height of the block the download starts from
	End     int     `json:"end"`     // announced end height
	EndFake bool    `json:"endFake"` // the announced end ID is one the peer never serves
	Rel     bool    `json:"rel"`     // answers are offsets relative to the height of the requested block (0 = the requested block itself)
	Answers [][]int `json:"answers"` // answer k = heights/offsets in serving order; after the last one continue at Loop
	Loop    int     `json:"loop"`
}

type dlReq struct {
	from   string
	height int
	served []int
	at     time.Time
}

type hostilePeer struct {
	conn  *p2p.Connection
	mu    sync.Mutex
	serve func(from []byte) []*blockchain.Block
	used  int
}

var (
	hostileMu  sync.Mutex
	hostile    *hostilePeer
	hostileSeq int
)

// getHostile returns a connected scripted peer on its own loopback address; it is replaced after 40 downloads so that
// the requester's per-peer message accounting (100 responses / 10 s) never comes into play.
func getHostile() (*hostilePeer, error) {
	hostileMu.Lock()
	defer hostileMu.Unlock()
	if hostile != nil && hostile.used < 40 {
		hostile.used++
		return hostile, nil
	}
	if hostile != nil {
		old := hostile.conn
		getWorld().n.Conn.Disconnect(old.ID())
		go old.Stop()
		hostile = nil
	}
	w := getWorld()
	var last error
	for try := 0; try < 3; try++ {
		hostileSeq++
		sh, _ := shard()
		h := &hostilePeer{used: 1}
		h.conn = p2p.NewConnection(node.NopLogger(), &p2p.Config{ChainID: node.ChainID, Version: "1.0", Addresses: []string{fmt.Sprintf("/ip4/127.79.%d.%d/tcp/0", sh%250, 2+hostileSeq%200)}, MinNumOfConnections: 1, MaxNumOfConnections: 20})
		reg := func(name string, f p2p.RPCHandler) {
			if err := h.conn.RegisterRPCHandler(name, f); err != nil {
				panic(err)
			}
		}
		reg(csync.RPCEndpointGetLastBlock, func(rw p2p.ResponseWriter, r *p2p.Request) { rw.Write(nil) })
		reg(csync.RPCEndpointGetHighestCommonBlock, func(rw p2p.ResponseWriter, r *p2p.Request) { rw.Write(nil) })
		reg(csync.RPCEndpointGetBlocksFromID, func(rw p2p.ResponseWriter, r *p2p.Request) {
			req := &csync.GetBlocksFromIDRequest{}
			if err := req.Decode(r.Data); err != nil {
				rw.Error(err)
				return
			}
			h.mu.Lock()
			f := h.serve
			h.mu.Unlock()
			var bl []*blockchain.Block
			if f != nil {
				bl = f(req.ID)
			}
			rw.Write((&csync.GetBlocksFromIDResponse{Blocks: bl}).Encode())
		})
		if err := h.conn.Start(nil); err != nil {
			last = err
			continue
		}
		info, err := addrInfoOf(h.conn)
		if err == nil {
			ctx, cancel := context.WithTimeout(context.Background(), 20*time.Second)
			err = w.n.Conn.Connect(ctx, *info)
			cancel()
		}
		if err != nil {
			last = err
			go h.conn.Stop()
			continue
		}
		hostile = h
		return h, nil
	}
	return nil, last
}

// chain blocks by height, fabricated ones above the tip (cached: the same height always yields the same block)
var (
	dlBlocksMu sync.Mutex
	dlBlocks   = map[int]*blockchain.Block{}
	dlHeights  = map[string]int{}
)

func dlBlock(h int) *blockchain.Block {
	dlBlocksMu.Lock()
	defer dlBlocksMu.Unlock()
	if b, ok := dlBlocks[h]; ok {
		return b
	}
	w := getWorld()
	var b *blockchain.Block
	switch {
	case h < 0:
		return nil
	case h == 0:
		b = w.n.Genesis
	case h <= worldBlocks:
		var err error
		if b, err = w.n.Chain.DataAccess().GetBlockByHeight(uint32(h)); err != nil {
			panic(fmt.Sprintf("harness: world block %d: %v", h, err))
		}
	default:
		b = node.CloneBlock(w.n.Tip())
		b.Header.Height = uint32(h)
		b.Header.Timestamp += uint32(h-worldBlocks) * 10
		node.Resign(b, node.KeyByAddr(b.Header.GeneratorAddress))
	}
	dlBlocks[h] = b
	dlHeights[string(b.Header.ID)] = h
	return b
}

func dlHeightOf(id []byte) (int, bool) {
	dlBlocksMu.Lock()
	defer dlBlocksMu.Unlock()
	h, ok := dlHeights[string(id)]
	return h, ok
}

type dlResult struct {
	ended    bool
	items    int
	err      error
	requests []dlReq
	verdict  string // "" = terminated; otherwise the evidence for non-termination
	unserved bool   // the peer was never asked (environment)
	dur      time.Duration
}

func runDownload(s *dlScript) (*dlResult, error) {
	w := getWorld()
	h, err := getHostile()
	if err != nil {
		return nil, err
	}
	for i := 0; i <= worldBlocks; i++ {
		dlBlock(i)
	}
	var mu sync.Mutex
	var reqs []dlReq
	call := 0
	h.mu.Lock()
	h.serve = func(from []byte) []*blockchain.Block {
		mu.Lock()
		defer mu.Unlock()
		base, known := dlHeightOf(from)
		if !known {
			base = s.Start
		}
		var ans []int
		if len(s.Answers) > 0 {
			k := call
			if k >= len(s.Answers) {
				lp := s.Loop
				if lp < 0 || lp >= len(s.Answers) {
					lp = len(s.Answers) - 1
				}
				k = lp + (k-len(s.Answers))%(len(s.Answers)-lp)
			}
			ans = s.Answers[k]
		}
		call++
		var out []*blockchain.Block
		var served []int
		for _, x := range ans {
			hh := x
			if s.Rel {
				hh = base + x
			}
			if b := dlBlock(hh); b != nil && len(out) < 120 {
				out = append(out, b)
				served = append(served, hh)
			}
		}
		reqs = append(reqs, dlReq{from: hex.EncodeToString(from[:min(4, len(from))]), height: base, served: served, at: time.Now()})
		return out
	}
	h.mu.Unlock()
	defer func() {
		h.mu.Lock()
		h.serve = nil
		h.mu.Unlock()
	}()
	startB, endB := dlBlock(s.Start), dlBlock(s.End)
	endID := endB.Header.ID
	if s.EndFake {
		endID = append([]byte{0xfa, 0x4e}, endID[2:]...)
	}
	ctx, cancel := context.WithCancel(context.Background())
	defer cancel()
	type fin struct {
		n   int
		err error
	}
	done := make(chan fin, 1)
	t0 := time.Now()
	var delivered atomic.Int64
	go func() {
		n, err := csync.VerifDownload(ctx, node.NopLogger(), w.n.Conn, w.n.Chain, h.conn.ID(), startB.Header.ID, uint32(s.Start), endID, uint32(s.End),
			func(n int, b *blockchain.Block, err error) bool { delivered.Add(1); return false })
		done <- fin{n, err}
	}()
	res := &dlResult{}
	span := s.End - s.Start
	if span < 0 {
		span = 0
	}
	tick := time.NewTicker(20 * time.Millisecond)
	defer tick.Stop()
	for res.verdict == "" && !res.ended {
		select {
		case f := <-done:
			res.ended, res.items, res.err = true, f.n, f.err
		case <-tick.C:
			mu.Lock()
			n := len(reqs)
			same := 0
			for i := n - 1; i >= 0 && reqs[i].from == reqs[n-1].from; i-- {
				same++
			}
			lastAt := t0
			if n > 0 {
				lastAt = reqs[n-1].at
			}
			mu.Unlock()
			switch {
			case same >= dlSameLimit:
				res.verdict = fmt.Sprintf("the last %d requests all asked for the blocks after the same ID (no progress), and the download is still running", same)
			case n > span+dlExtra:
				res.verdict = fmt.Sprintf("%d requests for a range of %d heights (every answer has to advance by at least one height), and the download is still running", n, span)
			case time.Since(lastAt) > dlIdle:
				res.verdict = fmt.Sprintf("the download neither ended nor sent a request for %v; goroutines inside the sync package:\n%s", dlIdle, syncGoroutines())
			}
		}
	}
	if !res.ended {
		res.items = int(delivered.Load())
		cancel() // the harness ends it; the engine's callers never cancel
		select {
		case <-done:
		case <-time.After(30 * time.Second):
		}
	}
	res.dur = time.Since(t0)
	mu.Lock()
	res.requests = append([]dlReq{}, reqs...)
	mu.Unlock()
	res.unserved = len(res.requests) == 0
	return res, nil
}

func syncGoroutines() string {
	buf := make([]byte, 4<<20)
	buf = buf[:runtime.Stack(buf, true)]
	var out []string
	for _, g := range strings.Split(string(buf), "\n\n") {
		if strings.Contains(g, "consensus/sync.") && len(out) < 10 {
			out = append(out, g)
		}
	}
	return strings.Join(out, "\n\n")
}

func (r *dlResult) log() string {
	var sb strings.Builder
	for i, q := range r.requests {
		if i >= 12 && i < len(r.requests)-6 {
			if i == 12 {
				fmt.Fprintf(&sb, "  ... %d more ...\n", len(r.requests)-18)
			}
			continue
		}
		fmt.Fprintf(&sb, "  #%d +%dms from=%s(height %d) served heights %v\n", i+1, q.at.Sub(r.requests[0].at).Milliseconds(), q.from, q.height, q.served)
	}
	return sb.String()
}

const sigDownloaderNoProgress = "hang:sync.Downloader:hostile-well-formed-peer"

type dlFailer interface {
	Fatalf(format string, args ...any)
}

// checkDownload runs one script and applies the oracle; returns the class for labels.
func checkDownload(t dlFailer, s *dlScript, enumerating bool) string {
	js, _ := json.Marshal(s)
	res, err := runDownload(s)
	if err != nil {
		evid.R.Inconclusive("hostile sync peer cannot be started/connected: %v", err)
		return "no-peer"
	}
	if res.verdict != "" {
		if knownFinding(sigDownloaderNoProgress) {
			evid.R.Excluded(1)
			evid.R.Case("dl|"+string(js), false, nil, "t:sync.Downloader.hostile", "t:sync.Downloader.hostile/known-hang", "g:dl-"+s.Name)
			return "known-hang"
		}
		p := ""
		if enumerating {
			p = evid.R.FailCase("downloader", s)
		}
		t.Fatalf("C09 hang: sync.Downloader against a peer that answers every getBlocksFromId with well-formed blocks (script %s) does not terminate: %s. Blocks delivered so far: %d, no error. The download runs in the consensus goroutine: the node stops processing blocks for as long as the peer keeps answering (only the harness' cancel ended it after %v). Signature %q\nrequest log (%d requests):\n%sscript (replay: VERIF_REPLAY_DOWNLOAD=<file with this JSON>%s): %s",
			s.Name, res.verdict, res.items, res.dur.Round(time.Millisecond), sigDownloaderNoProgress, len(res.requests), res.log(), ifs(p != "", " written to "+p, ""), js)
		return "hang"
	}
	cls := "ended-ok"
	if res.err != nil {
		cls = "ended-error"
	}
	if res.unserved {
		cls = "peer-never-asked"
	}
	nreq := len(res.requests)
	evid.R.Case("dl|"+string(js), !res.unserved, func() any {
		return map[string]any{"kind": "hostile-download", "script": s, "requests": nreq, "items": res.items, "err": fmt.Sprint(res.err), "ms": res.dur.Milliseconds()}
	}, "t:sync.Downloader.hostile", "t:sync.Downloader.hostile/"+cls, "g:dl-"+s.Name)
	evid.R.Label(fmt.Sprintf("dl-requests:%s", bucket(nreq)), 1)
	return cls
}

func bucket(n int) string {
	switch {
	case n == 0:
		return "0"
	case n == 1:
		return "1"
	case n <= 3:
		return "2-3"
	case n <= 10:
		return "4-10"
	}
	return ">10"
}

func seq(from, to int) []int {
	var out []int
	for i := from; i <= to; i++ {
		out = append(out, i)
	}
	return out
}

// TestDownloaderHostilePeers: the scripted repertoire.
func TestDownloaderHostilePeers(t *testing.T) {
	// the honest peer first: the whole range in one answer must be delivered, otherwise the scripted peer is not reachable
	// and nothing below would mean anything
	honest := &dlScript{Name: "honest-full-range", Start: 2, End: 9, Rel: true, Answers: [][]int{seq(1, 7)}}
	ok := false
	for try := 0; try < 3 && !ok; try++ {
		res, err := runDownload(honest)
		ok = err == nil && res.ended && res.err == nil && res.items == 7
		if !ok {
			time.Sleep(2 * time.Second)
		}
	}
	if !ok {
		evid.R.Inconclusive("hostile sync peers: an honest download over loopback did not get through; test skipped")
		t.Logf("skipping: honest download does not get through")
		return
	}
	scripts := []*dlScript{
		honest,
		{Name: "only-requested-block", Start: 5, End: 12, Rel: true, Answers: [][]int{{0}}},
		{Name: "only-requested-block", Start: 0, End: 6, Rel: true, Answers: [][]int{{0}}},
		{Name: "only-requested-block-after-progress", Start: 5, End: 12, Rel: true, Answers: [][]int{{1, 2}, {0}}},
		{Name: "requested-block-then-successors", Start: 5, End: 12, Rel: true, Answers: [][]int{{0, 1, 2}}},
		{Name: "requested-block-twice", Start: 5, End: 12, Rel: true, Answers: [][]int{{0, 0}}},
		{Name: "requested-or-empty-alternating", Start: 5, End: 12, Rel: true, Answers: [][]int{{0}, {}}, Loop: 0},
		{Name: "same-segment-again", Start: 3, End: 20, Answers: [][]int{{4, 5, 6}}},
		{Name: "same-segment-again", Start: 3, End: 20, EndFake: true, Answers: [][]int{{4, 5, 6}, {7, 8}, {7, 8}}},
		{Name: "descending-order", Start: 3, End: 12, Rel: true, Answers: [][]int{{3, 2, 1}}},
		{Name: "shuffled-with-duplicate", Start: 3, End: 12, Rel: true, Answers: [][]int{{2, 1, 3, 2}}},
		{Name: "blocks-below-start", Start: 8, End: 14, Rel: true, Answers: [][]int{{-3, -2, -1}}},
		{Name: "blocks-below-start", Start: 8, End: 14, Answers: [][]int{{0, 1, 2}}},
		{Name: "below-and-above-start", Start: 8, End: 14, Rel: true, Answers: [][]int{{-1, 0, 1, 2}}},
		{Name: "empty-list", Start: 4, End: 9, Answers: [][]int{{}}},
		{Name: "empty-after-progress", Start: 4, End: 9, Rel: true, Answers: [][]int{{1, 2}, {}}},
		{Name: "one-block-per-answer", Start: 14, End: 22, Rel: true, Answers: [][]int{{1}}},
		{Name: "one-block-per-answer-past-fake-tip", Start: 16, End: 21, EndFake: true, Rel: true, Answers: [][]int{{1}}},
		{Name: "endless-past-announced-tip", Start: 20, End: 24, EndFake: true, Rel: true, Answers: [][]int{seq(1, 10)}},
		{Name: "endless-past-announced-tip", Start: 23, End: 24, EndFake: true, Rel: true, Answers: [][]int{{1}, {1}, seq(1, 100)}},
		{Name: "endless-fabricated-only", Start: 24, End: 30, EndFake: true, Rel: true, Answers: [][]int{{1, 2}}},
		{Name: "gaps", Start: 2, End: 12, Rel: true, Answers: [][]int{{2, 4}}},
		{Name: "jump-to-end", Start: 2, End: 12, Answers: [][]int{{12}}},
		{Name: "end-block-then-more", Start: 2, End: 6, Answers: [][]int{{3, 4, 5, 6, 7, 8}}},
		{Name: "end-height-wrong-id-then-repeat", Start: 2, End: 6, EndFake: true, Answers: [][]int{{3, 4, 5, 6}, {6}}},
		{Name: "far-above-end", Start: 2, End: 6, Answers: [][]int{{1000000}}},
		{Name: "start-above-end", Start: 9, End: 4, Rel: true, Answers: [][]int{{1}}},
		{Name: "start-equals-end", Start: 9, End: 9, EndFake: true, Rel: true, Answers: [][]int{{0}}},
		{Name: "start-equals-end", Start: 9, End: 9, Rel: true, Answers: [][]int{{1}}},
	}
	counts := map[string]int{}
	for _, s := range scripts {
		cls := checkDownload(t, s, true)
		counts[s.Name+":"+cls]++
	}
	t.Logf("%d scripts: %v", len(scripts), counts)
}

// TestDownloaderRandomPeer: rapid-drawn scripts (answers as offsets relative to the requested block).
func TestDownloaderRandomPeer(t *testing.T) {
	rapid.Check(t, func(t *rapid.T) {
		s := &dlScript{Name: "random", Rel: true}
		s.Start = rapid.IntRange(0, worldBlocks).Draw(t, "start")
		s.End = s.Start + rapid.IntRange(0, 6).Draw(t, "span")
		s.EndFake = rapid.Bool().Draw(t, "endFake")
		n := rapid.IntRange(1, 4).Draw(t, "answers")
		for i := 0; i < n; i++ {
			var a []int
			switch rapid.IntRange(0, 7).Draw(t, fmt.Sprintf("shape%d", i)) {
			case 0, 1: // honest run (progress), so that what follows meets a download that is under way
				a = seq(1, rapid.IntRange(1, 3).Draw(t, fmt.Sprintf("run%d", i)))
			case 2:
				a = []int{0}
			case 3:
				a = []int{}
			case 4: // the requested block first, then successors
				a = seq(0, rapid.IntRange(1, 3).Draw(t, fmt.Sprintf("incl%d", i)))
			case 5: // descending
				k := rapid.IntRange(1, 4).Draw(t, fmt.Sprintf("desc%d", i))
				for x := k; x >= 1; x-- {
					a = append(a, x)
				}
			default:
				a = rapid.SliceOfN(rapid.IntRange(-2, 6), 0, 5).Draw(t, fmt.Sprintf("answer%d", i))
			}
			s.Answers = append(s.Answers, a)
		}
		s.Loop = rapid.IntRange(0, n-1).Draw(t, "loop")
		checkDownload(t, s, false)
	})
}

// TestReplayDownload re-runs one saved script: VERIF_REPLAY_DOWNLOAD=<json file>.
func TestReplayDownload(t *testing.T) {
	p := os.Getenv("VERIF_REPLAY_DOWNLOAD")
	if p == "" {
		p = os.Getenv("VERIF_REPLAY_CASE")
	}
	if p == "" {
		t.Skip("VERIF_REPLAY_DOWNLOAD not set")
	}
	b, err := os.ReadFile(p)
	if err != nil {
		t.Fatalf("%v", err)
	}
	s := &dlScript{}
	if err := json.Unmarshal(b, s); err != nil || !strings.Contains(string(b), `"answers"`) {
		t.Skipf("not a download script (%v)", err)
	}
	t.Logf("replayed %s: %s", s.Name, checkDownload(t, s, false))
}
