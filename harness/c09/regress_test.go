package c09

import (
	"bytes"
	"encoding/hex"
	"testing"

	"github.com/LiskHQ/lisk-engine/pkg/crypto"

	"verifharness/node"
)

// Regression cases with the minimal inputs inline. They run in every tier through the same guard as the search: on a tree
// without the repair they stop at the panic (reported as KNOWN-FINDING while the entry is listed as known, as a
// failure otherwise); on a repaired tree they additionally assert the rejection.

func unhex(s string) []byte {
	b, err := hex.DecodeString(s)
	if err != nil {
		panic(err)
	}
	return b
}

func regress(t *testing.T, c *Case, wantClass ...string) {
	t.Helper()
	c.Gen = "regress"
	r := exec(t, c, false)
	if r.known || r.panicked {
		return
	}
	for _, w := range wantClass {
		if r.out.class == w {
			return
		}
	}
	if len(wantClass) > 0 {
		t.Fatalf("%s: class %q, want one of %v\ncase: %s", c.Target, r.out.class, wantClass, c.json())
	}
}

// C09-F1: codec.Reader.readBool reads data[index] without a bounds check; a block header that ends right after the key
// of its bool field (field 12, key byte 0x60) panics every consumer of NewBlockHeader.
func TestRegressReadBoolTruncatedHeader(t *testing.T) {
	header := unhex("60")
	block := unhex("0a0160")          // RawBlock{Header: 60}
	gossip := unhex("0a030a0160")     // p2p.Message{Data: block}
	blocksResp := unhex("0a030a0160") // getBlocksFromIDResponse{blocks: [block]}
	regress(t, bcase("NewBlockHeader", header, "", 0, false), "err")
	regress(t, bcase("NewBlock", block, "", 0, false), "err")
	regress(t, bcase("Block.Validate", block, "", 0, false), "err")
	regress(t, bcase("Executer.blockValidator", block, "", 0, false), "reject")
	regress(t, bcase("gossip(blockValidator)", gossip, "", 0, false), "reject")
	regress(t, bcase("sync.resp.getLastBlock", block, "", 0, false), "err")
	regress(t, bcase("sync.resp.getBlocksFromId", blocksResp, "", 0, false), "err-block")
	regress(t, &Case{Target: "BlockHeader.VerifySignature", B: []hexb{header, node.ChainID, node.Keys()[0].EdPub}}, "header-err")
	// and over the wire: a peer answering getLastBlock / getBlocksFromId with it
	regress(t, &Case{Target: "sync.requestLastBlockHeader", B: []hexb{block}, U: []uint64{0}}, "err")
	regress(t, &Case{Target: "sync.requestBlocksFromID", B: []hexb{blocksResp}, U: []uint64{0}}, "err")
	// a full valid header cut right after that key (what the exhaustive truncation found first)
	w := getWorld()
	h := w.headers[0]
	i := bytes.LastIndex(h, []byte{0x60, 0x00, 0x6a}) // ...impliesMaxPrevotes=false, validatorsHash...
	if i < 0 {
		t.Fatalf("harness: bool field not found in the seed header")
	}
	regress(t, bcase("NewBlockHeader", h[:i+1], "", 1, true), "err")
}

// C09-F2: crypto.Bits.read indexes the aggregation bitmap without a length check, BLSVerifyWeightedAggSig indexes the
// weights without one.
func TestRegressShortAggregationBits(t *testing.T) {
	ks := sortedBLS(9)
	msg := crypto.Hash([]byte("m"))
	sig := crypto.BLSSign(msg, ks.sks[0])
	one := [][]hexb{hexbs(ks.pks[:1])}
	nine := [][]hexb{hexbs(ks.pks)}
	regress(t, &Case{Target: "crypto.BLSVerifyAggSig", LL: one, B: []hexb{{}, sig, msg}}, "false")
	regress(t, &Case{Target: "crypto.BLSVerifyAggSig", LL: nine, B: []hexb{{0x01}, sig, msg}}, "false") // 9 keys, 8 bits
	regress(t, &Case{Target: "crypto.BLSVerifyWeightedAggSig", LL: one, B: []hexb{{}, sig, msg}, U: []uint64{1, 1}}, "false")
	regress(t, &Case{Target: "crypto.BLSVerifyWeightedAggSig", LL: nine, B: []hexb{{0x01}, sig, msg}, U: []uint64{1, 1, 1, 1, 1, 1, 1, 1, 1, 1}}, "false")
	// weights list shorter than the key list (bit 0 set, no weight for it)
	regress(t, &Case{Target: "crypto.BLSVerifyWeightedAggSig", LL: one, B: []hexb{{0x01}, sig, msg}, U: []uint64{1}}, "false")
	// through the node: ten validators need two bitmap bytes; a block header may carry any bitmap
	w := getWorld()
	a := w.aggs[0]
	regress(t, &Case{Target: "Executer.verifyAggregateCommit", U: []uint64{uint64(a.Height)}, B: []hexb{{0xff}, hexb(a.CertificateSignature)}}, "err")
}

// C09-F3: smt.Verify slices the bit expansion of a proof query's key by the bitmap length without checking either.
func TestRegressSMTVerifyBitmapLongerThanKey(t *testing.T) {
	root := crypto.Hash([]byte("r"))
	// key length 1, query key 00, proof query {key 00, empty value, bitmap 01ff = 9 levels}
	regress(t, &Case{Target: "smt.Verify", B: []hexb{root}, U: []uint64{1}, LL: [][]hexb{{{0x00}}, {}, {{0x00}}, {{}}, {{0x01, 0xff}}}}, "false")
	// proof query key shorter than the key length (empty), bitmap 03
	regress(t, &Case{Target: "smt.Verify", B: []hexb{root}, U: []uint64{1}, LL: [][]hexb{{{0x00}}, {}, {{}}, {{}}, {{0x03}}}}, "false")
	regress(t, bcase("smt.Proof.Decode+Verify", unhex("120912001a0103"), "", 0, false), "verify-false", "err")
}

// C09-F4: rmt.calculatePathNodes takes copiedSiblings[0] from an empty list.
func TestRegressRMTProofWithoutSiblings(t *testing.T) {
	h := crypto.Hash([]byte("leaf"))
	regress(t, &Case{Target: "rmt.VerifyProof", B: []hexb{h}, LL: [][]hexb{{h}, {}}, U: []uint64{2, 4}}, "false")
	regress(t, &Case{Target: "rmt.CalculateRootFromUpdateData", LL: [][]hexb{{[]byte("x")}, {}}, U: []uint64{2, 4}}, "err")
	regress(t, bcase("rmt.Proof.Decode+VerifyProof", unhex("0802120104"), "", 0, false), "verify-false")
}

// C09-F5: crypto.VerifySignature hands a public key of any length to ed25519.Verify, which panics unless it is 32 bytes.
func TestRegressEd25519PublicKeyLength(t *testing.T) {
	k := node.Keys()[0]
	msg := crypto.Hash([]byte("m"))
	sig := crypto.Sign(k.EdPriv, msg)
	for _, pk := range [][]byte{{}, k.EdPub[:31], append(bytes.Clone(k.EdPub), 0)} {
		regress(t, &Case{Target: "crypto.VerifySignature", B: []hexb{pk, sig, msg}}, "err")
		regress(t, &Case{Target: "BlockHeader.VerifySignature", B: []hexb{getWorld().headers[0], node.ChainID, pk}}, "false")
	}
}

// C09-F6: rmt.VerifyRightWitness never returns when hashes are left over that no layer of the index consumes.
func TestRegressRightWitnessLoop(t *testing.T) {
	h := crypto.Hash([]byte("h"))
	c := &Case{Target: "rmt.VerifyRightWitness", B: []hexb{h}, LL: [][]hexb{{h, h}, {h}}, U: []uint64{0}}
	if !witnessHangs(0, 2, 1) {
		t.Fatalf("harness: hang predictor does not flag the minimal input")
	}
	if avoid(t, c) {
		return // listed as known (line printed) or reported
	}
	regress(t, c, "false")
	// an empty calculated root must not verify against an empty root either
	regress(t, &Case{Target: "rmt.VerifyRightWitness", B: []hexb{{}}, LL: [][]hexb{{h, h}, {h}}, U: []uint64{0}}, "false")
}

// Seeded defect (round 7b): forkchoice.receivedLastBlockWithinForgingSlot called IsZero() through the nil *time.Time a node
// holds until it has received a block in order through Executer.process. A competing sibling of the tip (same height,
// previous block and maxHeightPrevoted, another generator, later slot) then crashes the consensus goroutine of a node that
// was just started or restarted, or that has only synced. The cases: node restarted after it had received a block; node as
// opened on an existing database; history applied through the sync path only (incl. the very first block after genesis).
// The unchanged engine takes a tip without reception time as received inside its slot and discards the sibling.
func TestRegressTieBreakSiblingAfterRestart(t *testing.T) {
	before := signedNoRecvSiblings.Load()
	applicable := []string{"discarded", "accepted", "tiebreak-reverted", "tiebreak-lost-tip"}
	for _, c := range []*Case{
		signedCase(signedCfg{nVal: 4, hist: 9}, "pre=recv:1;pre=restart;sib=1", ""),
		signedCase(signedCfg{nVal: 4, hist: 9}, "pre=asis;sib=1", ""),
		signedCase(signedCfg{nVal: 4, hist: 9}, "pre=sync:1;sib=1", ""),
		signedCase(signedCfg{nVal: 4, hist: 0}, "pre=sync:1;sib=1", ""),
		signedCase(signedCfg{nVal: 3, standby: 1, hist: 10}, "pre=restart;sib=1", ""),
	} {
		regress(t, c, applicable...)
	}
	if got := signedNoRecvSiblings.Load() - before; got != 5 {
		t.Fatalf("harness: %d of the 5 siblings reached fork choice on a node without a reception time on record", got)
	}
}
