package c09

import (
	"bytes"
	"runtime"
	"testing"
	"time"

	"github.com/LiskHQ/lisk-engine/pkg/blockchain"
	"github.com/LiskHQ/lisk-engine/pkg/codec"

	"github.com/LiskHQ/lisk-engine/pkg/db"
	"github.com/LiskHQ/lisk-engine/pkg/db/diffdb"

	"verifharness/evid"
)

// Regression (C09-F8): db.iterateRange never closed its pebble iterator. Every range read leaked one (pinning its memtable /
// version), and range reads happen for every gossiped single commit and every processed block (BFT parameter lookups), so the
// memory a peer can make the node retain was unbounded. pebble reports leaked iterators when the database is closed.
func TestRegressRangeReadsReleaseIterators(t *testing.T) {
	d, err := db.NewInMemoryDB()
	if err != nil {
		t.Fatal(err)
	}
	for i := 0; i < 20; i++ {
		d.Set([]byte{10, byte(i)}, bytes.Repeat([]byte{byte(i)}, 8))
	}
	for i := 0; i < 200; i++ {
		if got := d.IterateRange([]byte{10, 0}, []byte{10, 9}, -1, i%2 == 0); len(got) != 10 {
			t.Fatalf("IterateRange returned %d records", len(got))
		}
		st := diffdb.New(d, []byte{10})
		if got := st.Range([]byte{0}, []byte{9}, 1, true); len(got) != 1 {
			t.Fatalf("Range returned %d records", len(got))
		}
		r := d.NewReader()
		r.IterateRange([]byte{10, 0}, []byte{10, 9}, 3, false)
		if err := r.Close(); err != nil {
			t.Fatalf("snapshot reader close after a range read: %v", err)
		}
	}
	if err := d.Close(); err != nil {
		t.Fatalf("database close after range reads reports: %v", err)
	}
	evid.R.Case("regress-iterator-leak", true, func() any { return "600 range reads, then Close() must not report leaked iterators" }, "regress")
}

// Regression (C09-F9): CalculateEventRoot left one open pebble database (and its goroutines) behind per call.
func TestRegressEventRootReleasesScratchDB(t *testing.T) {
	ev := []*blockchain.Event{blockchain.NewEventFromValues("verif", "ev", []byte{1}, []codec.Hex{{1, 2}}, 1, 0)}
	if _, err := blockchain.CalculateEventRoot(ev); err != nil {
		t.Fatal(err)
	}
	runtime.GC()
	before := runtime.NumGoroutine()
	for i := 0; i < 50; i++ {
		if _, err := blockchain.CalculateEventRoot(ev); err != nil {
			t.Fatal(err)
		}
	}
	// closing is synchronous; allow the runtime a moment to retire exiting goroutines
	deadline := time.Now().Add(5 * time.Second)
	for runtime.NumGoroutine() > before+20 && time.Now().Before(deadline) {
		time.Sleep(20 * time.Millisecond)
	}
	if after := runtime.NumGoroutine(); after > before+20 {
		t.Fatalf("50 event-root computations left %d goroutines behind (a pebble instance per call is never closed)", after-before)
	}
	evid.R.Case("regress-eventroot-leak", true, func() any { return "50 CalculateEventRoot calls must not accumulate goroutines" }, "regress")
}
