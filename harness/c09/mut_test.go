package c09

import (
	"bytes"
	"encoding/binary"
	"fmt"

	"pgregory.net/rapid"
)

// Structure-aware mutation of lisk-codec (protobuf-like) messages: the wire form is tokenised generically (key varint,
// then a varint value or a length-delimited payload, recursively when the payload itself parses as a message), and the
// mutators rewrite tokens.

type token struct {
	keyStart, keyEnd int // key varint
	valStart, valEnd int // varint value (wire type 0) or length varint (wire type 2)
	payEnd           int // end of payload (wire type 2), == valEnd for wire type 0
	field            uint64
	wt               int
	depth            int
}

func uvarint(b []byte) (uint64, int) {
	v, n := binary.Uvarint(b)
	if n <= 0 {
		return 0, 0
	}
	return v, n
}

func putUvarint(v uint64) []byte {
	var buf [10]byte
	n := binary.PutUvarint(buf[:], v)
	return append([]byte{}, buf[:n]...)
}

// overlong encodes v with one superfluous continuation byte (non-canonical).
func overlong(v uint64) []byte {
	b := putUvarint(v)
	b[len(b)-1] |= 0x80
	return append(b, 0x00)
}

// tokenize parses data[from:to] as a message; ok=false if it does not parse completely.
func tokenize(data []byte, from, to, depth int, out *[]token) bool {
	i := from
	for i < to {
		k, n := uvarint(data[i:to])
		if n == 0 {
			return false
		}
		t := token{keyStart: i, keyEnd: i + n, field: k >> 3, wt: int(k & 7), depth: depth}
		i += n
		switch t.wt {
		case 0:
			_, m := uvarint(data[i:to])
			if m == 0 {
				return false
			}
			t.valStart, t.valEnd, t.payEnd = i, i+m, i+m
			i += m
			*out = append(*out, t)
		case 2:
			l, m := uvarint(data[i:to])
			if m == 0 || l > uint64(to-i-m) {
				return false
			}
			t.valStart, t.valEnd = i, i+m
			t.payEnd = i + m + int(l)
			i = t.payEnd
			*out = append(*out, t)
			if l > 0 && depth < 6 {
				var sub []token
				if tokenize(data, t.valEnd, t.payEnd, depth+1, &sub) && t.field != 0 {
					*out = append(*out, sub...)
				}
			}
		default:
			return false
		}
	}
	return true
}

func tokens(data []byte) []token {
	var out []token
	if !tokenize(data, 0, len(data), 0, &out) {
		// keep the prefix that parsed (top level only)
		var top []token
		for _, t := range out {
			if t.depth == 0 {
				top = append(top, t)
			}
		}
		return top
	}
	return out
}

func splice(data []byte, from, to int, repl []byte) []byte {
	out := make([]byte, 0, len(data)-(to-from)+len(repl))
	out = append(out, data[:from]...)
	out = append(out, repl...)
	out = append(out, data[to:]...)
	return out
}

type mutant struct {
	data []byte
	kind string
}

var boundaryLens = func(l uint64, remaining uint64) []uint64 {
	return []uint64{0, l - 1, l + 1, remaining, remaining + 1, 1<<31 - 1, 1 << 31, 1 << 32, 1<<63 - 1, 1 << 63, 1<<64 - 1, 1<<64 - 8, 1<<63 + l}
}

var boundaryVals = []uint64{0, 1, 0x7f, 0x80, 1<<31 - 1, 1 << 31, 1<<32 - 1, 1 << 32, 1<<63 - 1, 1 << 63, 1<<64 - 1}

// hostileVarints are byte strings that are not valid minimal varints.
var hostileVarints = [][]byte{
	{0x80},       // unterminated
	{0x80, 0x00}, // overlong zero
	{0xff, 0xff, 0xff, 0xff, 0xff, 0xff, 0xff, 0xff, 0xff, 0x01}, // 2^64-1
	{0xff, 0xff, 0xff, 0xff, 0xff, 0xff, 0xff, 0xff, 0xff, 0x02}, // out of range in the 10th byte
	{0xff, 0xff, 0xff, 0xff, 0xff, 0xff, 0xff, 0xff, 0xff, 0x7f},
	{0xff, 0xff, 0xff, 0xff, 0xff, 0xff, 0xff, 0xff, 0xff, 0xff, 0x01}, // 11 bytes
	{0x80, 0x80, 0x80, 0x80, 0x80, 0x80, 0x80, 0x80, 0x80, 0x80, 0x80, 0x80},
}

// everyPrefix: exhaustive truncation.
func everyPrefix(m []byte, emit func(mutant)) {
	for i := 0; i <= len(m); i++ {
		emit(mutant{m[:i:i], "prefix"})
	}
}

// lengthLies: every length prefix (all depths) replaced by boundary values, canonical and overlong; the enclosing
// lengths are left as they are (nested-length lie) or, variant "fix", adjusted so only the innermost claim is wrong.
func lengthLies(m []byte, emit func(mutant)) {
	ts := tokens(m)
	for _, t := range ts {
		if t.wt != 2 {
			continue
		}
		l := uint64(t.payEnd - t.valEnd)
		rem := uint64(len(m) - t.valEnd)
		for _, nl := range boundaryLens(l, rem) {
			if nl == l {
				continue
			}
			emit(mutant{splice(m, t.valStart, t.valEnd, putUvarint(nl)), ifs(t.depth == 0, "len-lie", "nested-len-lie")})
		}
		emit(mutant{splice(m, t.valStart, t.valEnd, overlong(l)), "len-overlong"})
		for _, h := range hostileVarints {
			emit(mutant{splice(m, t.valStart, t.valEnd, h), "len-hostile-varint"})
		}
		// the length claims the rest of the buffer and the buffer ends inside the payload
		if t.payEnd-t.valEnd > 1 {
			cut := t.valEnd + (t.payEnd-t.valEnd)/2
			emit(mutant{m[:cut:cut], "cut-in-payload"})
		}
		// cut right after the length prefix
		emit(mutant{m[:t.valEnd:t.valEnd], "cut-after-len"})
	}
	// nested: inner length grown by d with every enclosing length grown by the same d, without adding bytes
	for i, t := range ts {
		if t.wt != 2 || t.depth == 0 {
			continue
		}
		for _, d := range []uint64{1, 2, 127, 128} {
			out := append([]byte{}, m...)
			// rewrite from the innermost outwards; positions shift, so rebuild by walking enclosing tokens last to first
			encl := []token{t}
			for j := i - 1; j >= 0; j-- {
				if ts[j].wt == 2 && ts[j].depth < encl[len(encl)-1].depth && ts[j].valEnd <= t.keyStart && ts[j].payEnd >= t.payEnd {
					encl = append(encl, ts[j])
				}
			}
			for _, e := range encl { // innermost first; inner positions are to the right of outer prefixes, so go inner -> outer
				l := uint64(e.payEnd - e.valEnd)
				out = splice(out, e.valStart, e.valEnd, putUvarint(l+d))
			}
			emit(mutant{out, "nested-len-grow-all"})
		}
	}
}

// enclosing returns the length-delimited tokens that contain token i (innermost first), token i itself included when it
// is length-delimited.
func enclosing(ts []token, i int) []token {
	t := ts[i]
	var encl []token
	if t.wt == 2 {
		encl = append(encl, t)
	}
	for j := i - 1; j >= 0; j-- {
		e := ts[j]
		if e.wt == 2 && e.depth < t.depth && e.valEnd <= t.keyStart && e.payEnd >= t.payEnd && (len(encl) == 0 || e.depth < encl[len(encl)-1].depth) {
			encl = append(encl, e)
		}
	}
	return encl
}

// nestedPrefixes: exhaustive truncation INSIDE every nested message with all enclosing length prefixes corrected, so the
// inner decoder sees a well-delimited buffer that simply ends early (a prefix of the whole message only produces an
// outer length that points past the buffer). Bytes after the nested message are kept ("tail") or dropped.
func nestedPrefixes(m []byte, emit func(mutant)) {
	ts := tokens(m)
	for i, t := range ts {
		if t.wt != 2 || t.payEnd == t.valEnd {
			continue
		}
		// only payloads that are messages themselves: the next token is a child
		if i+1 >= len(ts) || ts[i+1].depth != t.depth+1 || ts[i+1].keyStart != t.valEnd {
			continue
		}
		encl := enclosing(ts, i)
		afterKey := map[int]bool{}
		for _, c := range ts[i+1:] {
			if c.keyStart >= t.payEnd {
				break
			}
			afterKey[c.keyEnd] = true
		}
		for cut := t.valEnd; cut < t.payEnd; cut++ {
			removed := uint64(t.payEnd - cut)
			out := splice(m, cut, t.payEnd, nil)
			for _, e := range encl { // innermost first: rewriting never moves the prefixes further out (they are to the left)
				l := uint64(e.payEnd - e.valEnd)
				out = splice(out, e.valStart, e.valEnd, putUvarint(l-removed))
			}
			emit(mutant{out, ifs(afterKey[cut], "nested-cut-after-key", "nested-prefix")})
		}
	}
}

// keyRewrites: wire type and field number of every key rewritten.
func keyRewrites(m []byte, emit func(mutant)) {
	for _, t := range tokens(m) {
		for wt := 0; wt < 8; wt++ {
			if wt == t.wt {
				continue
			}
			emit(mutant{splice(m, t.keyStart, t.keyEnd, putUvarint(t.field<<3|uint64(wt))), "key-wiretype"})
		}
		for _, f := range []uint64{0, t.field - 1, t.field + 1, 15, 16, 1 << 28, 1<<29 - 1, 1 << 60} {
			if f == t.field {
				continue
			}
			emit(mutant{splice(m, t.keyStart, t.keyEnd, putUvarint(f<<3|uint64(t.wt))), "key-field"})
		}
		emit(mutant{splice(m, t.keyStart, t.keyEnd, overlong(t.field<<3|uint64(t.wt))), "key-overlong"})
		for _, h := range hostileVarints {
			emit(mutant{splice(m, t.keyStart, t.keyEnd, h), "key-hostile-varint"})
		}
		// cut right after the key (reaches "value missing" for every field of every message)
		emit(mutant{m[:t.keyEnd:t.keyEnd], "cut-after-key"})
	}
}

// valueRewrites: varint values replaced by boundary values / hostile encodings; one-byte payload (bool-like) values.
func valueRewrites(m []byte, emit func(mutant)) {
	for _, t := range tokens(m) {
		if t.wt != 0 {
			continue
		}
		for _, v := range boundaryVals {
			emit(mutant{splice(m, t.valStart, t.valEnd, putUvarint(v)), "varint-boundary"})
		}
		for _, h := range hostileVarints {
			emit(mutant{splice(m, t.valStart, t.valEnd, h), "varint-hostile"})
		}
		emit(mutant{splice(m, t.valStart, t.valEnd, nil), "varint-removed"})
		emit(mutant{splice(m, t.valStart, t.valEnd, []byte{0x02}), "varint-2"})
	}
}

// byteFlips: single-byte rewrites (every position up to limit, strided beyond).
func byteFlips(m []byte, limit int, emit func(mutant)) {
	step := 1
	if len(m) > limit {
		step = len(m)/limit + 1
	}
	for i := 0; i < len(m); i += step {
		for _, f := range []func(byte) byte{
			func(b byte) byte { return b ^ 0x01 },
			func(b byte) byte { return b ^ 0x80 },
			func(b byte) byte { return 0x00 },
			func(b byte) byte { return 0xff },
		} {
			nb := f(m[i])
			if nb == m[i] {
				continue
			}
			out := append([]byte{}, m...)
			out[i] = nb
			emit(mutant{out, "byte-flip"})
		}
	}
}

// fieldEdits: delete / duplicate / swap whole fields, append trailing bytes.
func fieldEdits(m []byte, emit func(mutant)) {
	ts := tokens(m)
	for i, t := range ts {
		emit(mutant{splice(m, t.keyStart, t.payEnd, nil), "field-deleted"})
		emit(mutant{splice(m, t.payEnd, t.payEnd, m[t.keyStart:t.payEnd]), "field-duplicated"})
		if i+1 < len(ts) && ts[i+1].depth == t.depth && ts[i+1].keyStart == t.payEnd {
			n := ts[i+1]
			sw := append([]byte{}, m[:t.keyStart]...)
			sw = append(sw, m[n.keyStart:n.payEnd]...)
			sw = append(sw, m[t.keyStart:t.payEnd]...)
			sw = append(sw, m[n.payEnd:]...)
			emit(mutant{sw, "fields-swapped"})
		}
		if t.wt == 2 {
			// payload emptied but length kept; payload replaced by 0xff..
			emit(mutant{splice(m, t.valEnd, t.payEnd, nil), "payload-removed-len-kept"})
			emit(mutant{splice(m, t.valEnd, t.payEnd, bytes.Repeat([]byte{0xff}, t.payEnd-t.valEnd)), "payload-ff"})
		}
	}
	for _, tail := range [][]byte{{0x00}, {0x08}, {0x0a}, {0x0a, 0xff}, {0x60}, {0x7a, 0x01}, {0xff}} {
		emit(mutant{append(append([]byte{}, m...), tail...), "trailing-bytes"})
	}
}

// splices: head of one message up to a token boundary + tail of another from a token boundary.
func splices(a, b []byte, max int, emit func(mutant)) {
	ta, tb := tokens(a), tokens(b)
	n := 0
	for _, x := range ta {
		for _, y := range tb {
			for _, cut := range []int{x.keyStart, x.keyEnd, x.valEnd} {
				for _, from := range []int{y.keyStart, y.valStart, y.valEnd} {
					if n >= max {
						return
					}
					n++
					out := append(append([]byte{}, a[:cut]...), b[from:]...)
					emit(mutant{out, "splice"})
				}
			}
		}
	}
}

// allMutants enumerates the deterministic single-mutation neighbourhood of a valid message.
func allMutants(m []byte, others [][]byte, flipLimit, spliceMax int, emit func(mutant)) {
	everyPrefix(m, emit)
	nestedPrefixes(m, emit)
	lengthLies(m, emit)
	keyRewrites(m, emit)
	valueRewrites(m, emit)
	byteFlips(m, flipLimit, emit)
	fieldEdits(m, emit)
	for _, o := range others {
		splices(m, o, spliceMax, emit)
	}
}

// drawMutation applies one randomly drawn mutation (rapid) to m.
func drawMutation(t *rapid.T, m []byte, pool [][]byte) ([]byte, string) {
	ts := tokens(m)
	kind := rapid.SampledFrom([]string{"prefix", "len", "key", "value", "flip", "field", "splice", "insert", "nested-cut"}).Draw(t, "mutKind")
	if len(m) == 0 {
		kind = "insert"
	}
	pickTok := func(wt int) (token, bool) {
		var c []token
		for _, x := range ts {
			if wt < 0 || x.wt == wt {
				c = append(c, x)
			}
		}
		if len(c) == 0 {
			return token{}, false
		}
		return c[rapid.IntRange(0, len(c)-1).Draw(t, "tok")], true
	}
	drawVarint := func(label string, around uint64) []byte {
		switch rapid.IntRange(0, 3).Draw(t, label+"-style") {
		case 0:
			return putUvarint(rapid.SampledFrom(append(boundaryLens(around, around+3), boundaryVals...)).Draw(t, label))
		case 1:
			return hostileVarints[rapid.IntRange(0, len(hostileVarints)-1).Draw(t, label+"-h")]
		case 2:
			return overlong(rapid.Uint64().Draw(t, label+"-o"))
		}
		return putUvarint(rapid.Uint64().Draw(t, label+"-r"))
	}
	switch kind {
	case "prefix":
		i := rapid.IntRange(0, len(m)).Draw(t, "cut")
		return m[:i:i], kind
	case "len":
		if x, ok := pickTok(2); ok {
			return splice(m, x.valStart, x.valEnd, drawVarint("len", uint64(x.payEnd-x.valEnd))), ifs(x.depth > 0, "nested-len-lie", "len-lie")
		}
	case "key":
		if x, ok := pickTok(-1); ok {
			if rapid.Bool().Draw(t, "keyRaw") {
				return splice(m, x.keyStart, x.keyEnd, drawVarint("key", x.field<<3)), "key-varint"
			}
			f := rapid.SampledFrom([]uint64{0, 1, x.field, x.field + 1, x.field - 1, 12, 14, 15, 16, 1 << 28}).Draw(t, "field")
			wt := rapid.IntRange(0, 7).Draw(t, "wt")
			return splice(m, x.keyStart, x.keyEnd, putUvarint(f<<3|uint64(wt))), "key-rewrite"
		}
	case "value":
		if x, ok := pickTok(0); ok {
			return splice(m, x.valStart, x.valEnd, drawVarint("val", 1)), "varint-rewrite"
		}
	case "flip":
		i := rapid.IntRange(0, len(m)-1).Draw(t, "pos")
		out := append([]byte{}, m...)
		out[i] = rapid.Byte().Draw(t, "byte")
		return out, "byte-flip"
	case "field":
		if x, ok := pickTok(-1); ok {
			switch rapid.IntRange(0, 3).Draw(t, "fieldOp") {
			case 0:
				return splice(m, x.keyStart, x.payEnd, nil), "field-deleted"
			case 1:
				return splice(m, x.payEnd, x.payEnd, m[x.keyStart:x.payEnd]), "field-duplicated"
			case 2:
				return splice(m, x.valEnd, x.payEnd, nil), "payload-removed-len-kept"
			default:
				return m[:x.keyEnd:x.keyEnd], "cut-after-key"
			}
		}
	case "splice":
		o := pool[rapid.IntRange(0, len(pool)-1).Draw(t, "other")]
		i := rapid.IntRange(0, len(m)).Draw(t, "spliceCut")
		j := rapid.IntRange(0, len(o)).Draw(t, "spliceFrom")
		if x, ok := pickTok(-1); ok && rapid.Bool().Draw(t, "atToken") {
			i = x.keyEnd
		}
		return append(append([]byte{}, m[:i]...), o[j:]...), "splice"
	case "insert":
		i := rapid.IntRange(0, len(m)).Draw(t, "insAt")
		ins := rapid.SliceOfN(rapid.Byte(), 1, 12).Draw(t, "ins")
		return splice(m, i, i, ins), "insert"
	case "nested-cut":
		var nested []token
		for _, x := range ts {
			if x.depth > 0 {
				nested = append(nested, x)
			}
		}
		if len(nested) > 0 {
			x := nested[rapid.IntRange(0, len(nested)-1).Draw(t, "ntok")]
			cut := rapid.SampledFrom([]int{x.keyEnd, x.valEnd, x.valStart, x.payEnd - 1}).Draw(t, "ncut")
			if cut < 0 {
				cut = 0
			}
			return m[:cut:cut], "nested-cut"
		}
	}
	i := rapid.IntRange(0, len(m)).Draw(t, "cutFallback")
	return m[:i:i], "prefix"
}

func describeTokens(m []byte) string {
	s := ""
	for _, t := range tokens(m) {
		s += fmt.Sprintf("[d%d f%d wt%d %d..%d]", t.depth, t.field, t.wt, t.keyStart, t.payEnd)
	}
	return s
}
