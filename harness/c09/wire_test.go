package c09

import (
	"bufio"
	"bytes"
	"context"
	"encoding/json"
	"fmt"
	"io"
	"os"
	osexec "os/exec"
	"regexp"
	"runtime"
	"sort"
	"strings"
	"sync"
	"syscall"
	"testing"
	"time"

	"pgregory.net/rapid"

	"github.com/LiskHQ/lisk-engine/pkg/blockchain"
	"github.com/LiskHQ/lisk-engine/pkg/codec"
	"github.com/LiskHQ/lisk-engine/pkg/consensus"
	"github.com/LiskHQ/lisk-engine/pkg/consensus/certificate"
	csync "github.com/LiskHQ/lisk-engine/pkg/consensus/sync"
	"github.com/LiskHQ/lisk-engine/pkg/p2p"

	"verifharness/evid"
	"verifharness/node"
)

// ---------------------------------------------------------------------------------------------------------------------
// Envelope level over REAL connections (target "p2p.wire").
//
// The in-process targets "p2p.Request.Decode" / "p2p.Response.Decode" only run the decoding step of the stream handlers.
// Here the handlers themselves (MessageProtocol.onRequest / onResponse, the rate limiter, the RPC handlers the node
// registers, the ban path) run exactly as in production: a victim node (real Executer, real sync handlers, started
// p2p.Connection) receives attacker-chosen bytes on the request / response protocol streams from a second started
// p2p.Connection (hook VerifRawSend). A panic in a stream-handler goroutine cannot be recovered by anybody - it kills the
// process - therefore the victim, the attackers and the honest prober live in a CHILD process (this test binary,
// TestWireChild); the parent feeds it one Case per line and a dead child is the detection, with the panic trace as
// evidence and the Case as replay file.
//
// Case: S = "req" | "res" (B[0] = the raw bytes written to a stream of the request / response protocol) or
// "res-pending" (the victim itself asks the attacker for procedure U[1] mod 3; while the request is pending the attacker
// sends U[0] forged responses carrying the pending request's ID, procedure name B[2] (empty = the requested one), data
// B[0], error B[1] - one after the other, or all at once if U[3] != 0 -, then - after U[2] ms - the honest answer) or "gossip" (the attacker publishes a payload on the
// GossipSub topic B[1] through Connection.Publish, i.e. inside a valid p2p.Message envelope: U[0] = 0: payload B[0];
// 1: a valid candidate block on the victim's tip; 2: a block of the victim's chain; 3: the genesis block; 4: a valid
// EventPostSingleCommits - each replaced by its U[1]-th structural mutant if U[1] > 0) or "gossip-many-topics" (a peer
// announcing 40 subscriptions, more than the victim's filter admits). 32-byte markers wireIDMarker(k) inside B[0] are
// replaced by the ID of the victim's block k.
//
// Oracle per case: (1) the child is alive; (2) no goroutine stays inside onRequest/onResponse (checked only when the
// expected effect is not seen: same goroutine, same place, twice, 8 s apart = positive evidence); (3) afterwards the
// victim answers a fresh honest peer (getLastBlock, answer = its tip) AND gets its own request to that peer answered;
// three fresh peers fail while an untouched control node next to it answers = violation, otherwise no verdict.
// The effect that proves the envelope was processed is observed through the victim's own state: an undecodable
// envelope or an unregistered procedure name must take the sender's IP to the ban threshold (that is how the engine
// rejects them), a registered name must be counted by the rate limiter; for gossip a fresh valid block published by the
// same peer right after the hostile payload must show up in the victim's EventNetworkBlockNew (one pubsub stream per
// peer pair, in order: the hostile message was delivered and went through the topic validator in a pubsub goroutine).
// An effect not seen within the wait is NOT a violation (class */unobserved, no verdict, never non-trivial).

const (
	wireTarget = "p2p.wire"
	wireMarker = "@@C09WIRE "
)

func wireIDMarker(k int) []byte {
	return []byte(fmt.Sprintf("\xc0\x9fC09-victim-block-id-%02d--------", k))[:32]
}

type wireResult struct {
	Class  string `json:"class"`
	Passed bool   `json:"passed,omitempty"`
	Viol   string `json:"viol,omitempty"`
	Incon  string `json:"incon,omitempty"` // no verdict, with the reason (environment)
	Info   string `json:"info,omitempty"`
}

var wireRegistered = []string{csync.RPCEndpointGetLastBlock, csync.RPCEndpointGetHighestCommonBlock, csync.RPCEndpointGetBlocksFromID}

func wireEnvelope(id, procedure string, data []byte, withData bool, errText string, withErr bool) []byte {
	w := codec.NewWriter()
	w.WriteString(1, id)
	w.WriteString(2, procedure)
	if withData {
		w.WriteBytes(3, data)
	}
	if withErr {
		w.WriteString(4, errText)
	}
	return w.Result()
}

// ---------------------------------------------------------------------------------------------------------------------
// Parent side: the lab process and the target.

type wireLab struct {
	cmd    *osexec.Cmd
	stdin  io.WriteCloser
	lines  chan string
	dead   chan struct{}
	tailMu sync.Mutex
	tail   []string
	err    error
	killed bool // ended by the harness itself
}

var (
	labMu      sync.Mutex
	theLab     *wireLab
	labStarts  int
	wireBudget = 70 * time.Second // < hardTime of the guard's watchdog
)

func (l *wireLab) addTail(s string) {
	l.tailMu.Lock()
	l.tail = append(l.tail, s)
	if len(l.tail) > 1200 {
		l.tail = l.tail[len(l.tail)-800:]
	}
	l.tailMu.Unlock()
}

func (l *wireLab) tailText(max int) string {
	l.tailMu.Lock()
	defer l.tailMu.Unlock()
	t := l.tail
	// keep the head of a panic report (it names the panic and the panicking goroutine), not its end
	for i, s := range t {
		if strings.HasPrefix(s, "panic:") || strings.HasPrefix(s, "fatal error:") {
			t = t[i:]
			break
		}
	}
	if len(t) > max {
		t = t[:max]
	}
	return strings.Join(t, "\n")
}

func startLab() (*wireLab, error) {
	l := &wireLab{lines: make(chan string, 16), dead: make(chan struct{})}
	cmd := osexec.Command(os.Args[0], "-test.run", "^TestWireChild$", "-test.count", "1", "-test.timeout", "0")
	for _, e := range os.Environ() {
		if strings.HasPrefix(e, "VERIF_EVID_OUT=") || strings.HasPrefix(e, "VERIF_C09_LOG=") || strings.HasPrefix(e, "VERIF_REPLAY_CASE=") || strings.HasPrefix(e, "VERIF_C09_DISCOVER=") {
			continue
		}
		cmd.Env = append(cmd.Env, e)
	}
	cmd.Env = append(cmd.Env, "VERIF_C09_WIRE_CHILD=1")
	pr, pw, err := os.Pipe()
	if err != nil {
		return nil, err
	}
	cmd.Stdout, cmd.Stderr = pw, pw
	if l.stdin, err = cmd.StdinPipe(); err != nil {
		return nil, err
	}
	if err := cmd.Start(); err != nil {
		return nil, err
	}
	pw.Close()
	l.cmd = cmd
	go func() {
		rd := bufio.NewReaderSize(pr, 1<<16)
		for {
			line, err := rd.ReadString('\n')
			line = strings.TrimRight(line, "\n")
			if strings.HasPrefix(line, wireMarker) {
				l.lines <- strings.TrimPrefix(line, wireMarker)
			} else if line != "" {
				l.addTail(line)
			}
			if err != nil {
				break
			}
		}
		pr.Close()
		l.err = cmd.Wait()
		close(l.dead)
	}()
	select {
	case s := <-l.lines:
		if s != "ready" {
			l.kill()
			return nil, fmt.Errorf("lab process did not come up: %s", s)
		}
	case <-l.dead:
		return nil, fmt.Errorf("lab process exited while starting (%v):\n%s", l.err, l.tailText(60))
	case <-time.After(120 * time.Second):
		l.kill()
		return nil, fmt.Errorf("lab process not ready after 120 s")
	}
	return l, nil
}

func (l *wireLab) kill() {
	l.killed = true
	l.stdin.Close()
	l.cmd.Process.Kill()
	select {
	case <-l.dead:
	case <-time.After(10 * time.Second):
	}
}

func (l *wireLab) alive() bool {
	select {
	case <-l.dead:
		return false
	default:
		return true
	}
}

func getLab() (*wireLab, error) {
	labMu.Lock()
	defer labMu.Unlock()
	if theLab != nil && (theLab.alive() || !theLab.killed) {
		return theLab, nil // a lab that died by itself is handed out once more: the caller reports the death
	}
	theLab = nil
	if labStarts >= 40 {
		return nil, fmt.Errorf("lab process was started %d times already", labStarts)
	}
	labStarts++
	l, err := startLab()
	if err != nil {
		return nil, err
	}
	theLab = l
	return l, nil
}

func dropLab(l *wireLab) {
	labMu.Lock()
	if theLab == l {
		theLab = nil
	}
	labMu.Unlock()
}

func wireRun(c *Case) outcome {
	l, err := getLab()
	if err != nil {
		evid.R.Inconclusive("p2p.wire: %v", err)
		return outcome{class: "lab-unavailable"}
	}
	line, _ := json.Marshal(c)
	if _, err := l.stdin.Write(append(line, '\n')); err != nil && l.alive() {
		evid.R.Inconclusive("p2p.wire: cannot write to the lab process: %v", err)
		l.kill()
		dropLab(l)
		return outcome{class: "lab-unavailable"}
	}
	died := func() outcome {
		<-l.dead
		dropLab(l)
		return outcome{class: "victim-died", viol: fmt.Sprintf("victim-died: the node process that received this envelope (or, if it died between two cases, the one before) died (%v); its last output:\n%s", l.err, l.tailText(45))}
	}
	select {
	case s, ok := <-l.lines:
		if !ok {
			return died()
		}
		r := &wireResult{}
		if err := json.Unmarshal([]byte(s), r); err != nil {
			return outcome{class: "lab-garbled", viol: "harness: unreadable lab answer " + s}
		}
		if r.Incon != "" {
			evid.R.Inconclusive("p2p.wire %s: %s", r.Class, r.Incon)
		}
		if r.Info != "" {
			evid.R.Label("w:"+r.Info, 1)
		}
		if !r.Passed {
			c.fromOK = false // an envelope whose effect was not seen is no evidence
		}
		if strings.HasPrefix(r.Viol, "victim-") || strings.HasPrefix(r.Viol, "handler-") {
			// the verdict is in; this lab has a wedged goroutine, later cases get a new one
			l.kill()
			dropLab(l)
		}
		return outcome{class: r.Class, passed: r.Passed, viol: r.Viol}
	case <-l.dead:
		return died()
	case <-time.After(wireBudget):
		// the lab has timeouts on every step; not answering is a harness/environment matter - dump and start over
		l.killed = true
		l.cmd.Process.Signal(syscall.SIGQUIT)
		select {
		case <-l.dead:
		case <-time.After(10 * time.Second):
			l.kill()
		}
		dropLab(l)
		dump := l.tailText(60)
		if len(dump) > 3000 {
			dump = dump[:3000] + " ..."
		}
		evid.R.Inconclusive("p2p.wire: lab process did not answer within %v; start of its goroutine dump:\n%s", wireBudget, dump)
		return outcome{class: "lab-timeout"}
	}
}

func init() {
	register(&target{name: wireTarget, group: "wire", slack: 64 << 20, soft: 85 * time.Second, run: wireRun})
}

// ---------------------------------------------------------------------------------------------------------------------
// Child side.

type wirePeer struct {
	conn  *p2p.Connection
	id    p2p.PeerID
	ip    string
	sends int
	mu    sync.Mutex
	onReq func(r *p2p.Request) []byte
	calls int
}

type wireWorld struct {
	victim     *node.Node
	vid        p2p.PeerID
	vinfo      *p2p.AddrInfo
	ids        [][]byte
	tipBytes   []byte
	tipID      []byte
	control    *p2p.Connection
	cinfo      *p2p.AddrInfo
	prober     *wirePeer
	probes     int
	attacker   *wirePeer
	seq        int
	reg        map[string]bool
	lat        []time.Duration
	netCh      chan interface{} // EventNetworkBlockNew of the victim: a gossiped block passed the validator and reached the handler
	gossiper   *wirePeer
	salt       uint32
	commits    []byte
	manyTopics bool
}

var wireTopics = []string{consensus.P2PEventPostBlock, consensus.P2PEventPostSingleCommits, "noSuchTopic", "POSTBLOCK", "postblock", "postBlock ", ""}

func addrInfoOf(c *p2p.Connection) (*p2p.AddrInfo, error) {
	addrs, err := c.MultiAddress()
	if err != nil || len(addrs) == 0 {
		return nil, fmt.Errorf("no listen address: %v", err)
	}
	return p2p.AddrInfoFromMultiAddr(addrs[0])
}

func newWireWorld() (*wireWorld, error) {
	w := &wireWorld{reg: map[string]bool{}}
	for _, n := range wireRegistered {
		w.reg[n] = true
	}
	v, err := node.New(node.Config{Genesis: node.EqualGenesis(4), BatchSize: 4, ListenAddr: "/ip4/127.78.0.1/tcp/0"})
	if err != nil {
		return nil, err
	}
	w.victim = v
	w.ids = append(w.ids, v.Genesis.Header.ID)
	for i := 0; i < 9; i++ {
		s := node.Spec{Script: node.Script{Salt: uint32(i % 3)}}
		if i%4 == 1 {
			s.Txs = append(s.Txs, node.MakeTx(10, uint64(i/4), 1000, node.TxOK, 0, i))
		}
		b, err := v.Apply(s)
		if err != nil {
			return nil, fmt.Errorf("victim chain, block %d: %w", i, err)
		}
		w.ids = append(w.ids, b.Header.ID)
	}
	w.tipBytes, w.tipID = v.Tip().Encode(), v.Tip().Header.ID
	w.netCh = make(chan interface{}, 1<<14)
	v.Exec.VerifOn(consensus.EventNetworkBlockNew, w.netCh)
	if _, pc, cert := v.Heights(); pc > cert {
		if hd, err := v.Chain.DataAccess().GetBlockHeaderByHeight(cert + 1); err == nil {
			if p, err := v.CurrentParams(cert + 1); err == nil && len(p.Idx) > 0 {
				k := node.Keys()[p.Idx[0]]
				w.commits = (&consensus.EventPostSingleCommits{SingleCommits: []*certificate.SingleCommit{certificate.NewSingleCommit(hd, k.Addr, node.ChainID, k.BLSPriv)}}).Encode()
			}
		}
	}
	w.vid = v.Conn.ID()
	if w.vinfo, err = addrInfoOf(v.Conn); err != nil {
		return nil, err
	}
	// the control node: same kind of endpoint, never attacked
	w.control = p2p.NewConnection(node.NopLogger(), &p2p.Config{ChainID: node.ChainID, Version: "1.0", Addresses: []string{"/ip4/127.78.0.2/tcp/0"}, MinNumOfConnections: 1, MaxNumOfConnections: 20})
	for _, n := range wireRegistered {
		if err := w.control.RegisterRPCHandler(n, func(rw p2p.ResponseWriter, r *p2p.Request) { rw.Write(w.tipBytes) }); err != nil {
			return nil, err
		}
	}
	if err := w.control.Start(nil); err != nil {
		return nil, err
	}
	if w.cinfo, err = addrInfoOf(w.control); err != nil {
		return nil, err
	}
	return w, nil
}

// newPeer starts a connection on its own loopback address and connects it to `to`. For the victim the address the victim
// really sees (the one it will penalise) is read back from the victim.
func (w *wireWorld) newPeer(to *p2p.AddrInfo, toVictim bool) (*wirePeer, error) {
	var last error
	for try := 0; try < 3; try++ {
		w.seq++
		p := &wirePeer{ip: fmt.Sprintf("127.77.%d.%d", (w.seq/200)%250, 2+w.seq%200)}
		p.conn = p2p.NewConnection(node.NopLogger(), &p2p.Config{ChainID: node.ChainID, Version: "1.0", Addresses: []string{"/ip4/" + p.ip + "/tcp/0"}, MinNumOfConnections: 1, MaxNumOfConnections: 20})
		for _, n := range wireRegistered {
			if err := p.conn.RegisterRPCHandler(n, func(rw p2p.ResponseWriter, r *p2p.Request) {
				p.mu.Lock()
				f := p.onReq
				p.calls++
				p.mu.Unlock()
				if f != nil {
					rw.Write(f(r))
					return
				}
				rw.Write(w.tipBytes)
			}); err != nil {
				return nil, err
			}
		}
		topics := wireTopics
		if w.manyTopics {
			topics = nil
			for i := 0; i < 40; i++ {
				topics = append(topics, fmt.Sprintf("topic%02d", i))
			}
			topics = append(topics, consensus.P2PEventPostBlock)
		}
		for _, tp := range topics {
			if err := p.conn.RegisterEventHandler(tp, func(*p2p.Event) {}, nil); err != nil {
				return nil, err
			}
		}
		if err := p.conn.Start(nil); err != nil {
			last = err
			continue
		}
		p.id = p.conn.ID()
		ctx, cancel := context.WithTimeout(context.Background(), 15*time.Second)
		err := p.conn.Connect(ctx, *to)
		cancel()
		if err != nil {
			last = err
			go p.conn.Stop()
			continue
		}
		if toVictim {
			seen := ""
			waitUntil(10*time.Second, func() bool {
				for _, a := range w.victim.Conn.VerifRemoteAddrs(p.id) {
					if f := strings.Split(a, "/"); len(f) > 2 && f[1] == "ip4" {
						seen = f[2]
						return true
					}
				}
				return false
			})
			if seen == "" {
				last = fmt.Errorf("victim does not list the new peer as connected")
				go p.conn.Stop()
				continue
			}
			p.ip = seen
			if sc, _, _ := w.victim.Conn.VerifPeerScore(p.ip); sc != 0 {
				last = fmt.Errorf("address %s already has score %d at the victim", p.ip, sc)
				go p.conn.Stop()
				continue
			}
		}
		return p, nil
	}
	return nil, last
}

func waitUntil(d time.Duration, f func() bool) bool {
	end := time.Now().Add(d)
	for i := 0; ; i++ {
		if f() {
			return true
		}
		if time.Now().After(end) {
			return false
		}
		if i < 200 {
			time.Sleep(500 * time.Microsecond)
		} else {
			time.Sleep(5 * time.Millisecond)
		}
	}
}

func (w *wireWorld) retire(p **wirePeer) {
	if *p != nil {
		c := (*p).conn
		go c.Stop()
		*p = nil
	}
}

func (w *wireWorld) connectedToVictim(p *wirePeer) bool {
	return len(w.victim.Conn.VerifRemoteAddrs(p.id)) > 0
}

func (w *wireWorld) ensureAttacker() (*wirePeer, error) {
	if a := w.attacker; a != nil {
		sc, _, _ := w.victim.Conn.VerifPeerScore(a.ip)
		if a.sends < 50 && sc == 0 && w.connectedToVictim(a) {
			return a, nil
		}
		w.retire(&w.attacker)
	}
	a, err := w.newPeer(w.vinfo, true)
	if err != nil {
		return nil, err
	}
	w.attacker = a
	return a, nil
}

var goroutineHdr = regexp.MustCompile(`^goroutine (\d+) \[`)

// stuckHandlers returns goroutine id -> stack of every goroutine inside MessageProtocol.onRequest / onResponse.
func stuckHandlers() map[string]string {
	buf := make([]byte, 4<<20)
	buf = buf[:runtime.Stack(buf, true)]
	out := map[string]string{}
	for _, g := range strings.Split(string(buf), "\n\n") {
		if strings.Contains(g, "p2p.(*MessageProtocol).onRequest") || strings.Contains(g, "p2p.(*MessageProtocol).onResponse") {
			if m := goroutineHdr.FindStringSubmatch(g); m != nil {
				out[m[1]] = g
			}
		}
	}
	return out
}

func p2pGoroutines(max int) string {
	buf := make([]byte, 4<<20)
	buf = buf[:runtime.Stack(buf, true)]
	var out []string
	for _, g := range strings.Split(string(buf), "\n\n") {
		if strings.Contains(g, "lisk-engine/pkg/p2p.") && len(out) < max {
			out = append(out, g)
		}
	}
	return strings.Join(out, "\n\n")
}

// probe: the victim still serves a fresh honest peer and still gets its own requests answered.
func (w *wireWorld) probe() (viol, incon string) {
	var fails []string
	for try := 0; try < 3; try++ {
		if w.prober == nil || w.probes >= 40 {
			w.retire(&w.prober)
			p, err := w.newPeer(w.vinfo, true)
			if err != nil {
				fails = append(fails, "fresh peer cannot connect to the victim: "+err.Error())
				continue
			}
			w.prober, w.probes = p, 0
		}
		w.probes++
		t0 := time.Now()
		ctx, cancel := context.WithTimeout(context.Background(), 8*time.Second)
		r1 := w.prober.conn.RequestFrom(ctx, w.vid, csync.RPCEndpointGetLastBlock, nil)
		var r2 p2p.Response
		if r1.Error() == nil {
			var stuck string
			if r2, stuck = w.victimRequest(w.prober.id, csync.RPCEndpointGetLastBlock, 8*time.Second); stuck != "" {
				cancel()
				return stuck, ""
			}
		}
		cancel()
		switch {
		case r1.Error() != nil:
			fails = append(fails, fmt.Sprintf("getLastBlock asked by a fresh honest peer: %v", r1.Error()))
		case !bytes.Equal(r1.Data(), w.tipBytes) && !bytes.Equal(r1.Data(), w.victim.Tip().Encode()):
			return fmt.Sprintf("victim-wrong-answer: getLastBlock asked by an honest peer returned %d bytes that are not the victim's tip block", len(r1.Data())), ""
		case r2.Error() != nil:
			fails = append(fails, fmt.Sprintf("the victim's own request to an honest peer: %v", r2.Error()))
		case !bytes.Equal(r2.Data(), w.tipBytes):
			return fmt.Sprintf("victim-wrong-answer: the victim's own request returned %d bytes, not what the honest peer sent", len(r2.Data())), ""
		default:
			w.lat = append(w.lat, time.Since(t0))
			return "", ""
		}
		w.retire(&w.prober)
	}
	// three fresh peers failed. Is it the machine? An untouched node of the same kind in this process must answer now.
	c, err := w.newPeer(w.cinfo, false)
	if err == nil {
		ctx, cancel := context.WithTimeout(context.Background(), 8*time.Second)
		r := c.conn.RequestFrom(ctx, w.control.ID(), csync.RPCEndpointGetLastBlock, nil)
		cancel()
		go c.conn.Stop()
		if r.Error() != nil {
			err = r.Error()
		}
	}
	if err != nil {
		return "", fmt.Sprintf("victim did not answer 3 fresh peers (%s) but neither did the untouched control node (%v): environment, no verdict", strings.Join(fails, "; "), err)
	}
	var med time.Duration
	if len(w.lat) > 0 {
		s := append([]time.Duration{}, w.lat...)
		sort.Slice(s, func(i, j int) bool { return s[i] < s[j] })
		med = s[len(s)/2]
	}
	return fmt.Sprintf("victim-silent: after this envelope the victim no longer completes an honest exchange: 3 fresh peers, 8 s each: %s; the untouched control node in the same process answered at the same moment; %d earlier probes took a median of %v. p2p goroutines of the process:\n%s",
		strings.Join(fails, "; "), len(w.lat), med, p2pGoroutines(30)), ""
}

// victimRequest lets the victim itself ask a peer. RequestFrom waits on its context, so a call that has not returned
// 20 s after the context expired is not waiting for the network: it is stuck inside the engine (stack attached).
func (w *wireWorld) victimRequest(to p2p.PeerID, proc string, d time.Duration) (p2p.Response, string) {
	ch := make(chan p2p.Response, 1)
	ctx, cancel := context.WithTimeout(context.Background(), d)
	defer cancel()
	go func() { ch <- w.victim.Conn.RequestFrom(ctx, to, proc, nil) }()
	select {
	case r := <-ch:
		return r, ""
	case <-time.After(d + 20*time.Second):
	}
	buf := make([]byte, 4<<20)
	buf = buf[:runtime.Stack(buf, true)]
	st := ""
	for _, g := range strings.Split(string(buf), "\n\n") {
		if strings.Contains(g, "victimRequest") && strings.Contains(g, "lisk-engine/pkg/p2p.") {
			st = g
		}
	}
	if st == "" {
		select {
		case r := <-ch:
			return r, ""
		default:
		}
		return p2p.Response{}, ""
	}
	return p2p.Response{}, fmt.Sprintf("victim-stuck: a request of the victim itself (%s, context of %v) has not returned 20 s after its context expired - the call is blocked inside the engine:\n%s\nother p2p goroutines:\n%s", proc, d, st, p2pGoroutines(12))
}

func (w *wireWorld) subst(b []byte) []byte {
	if !bytes.Contains(b, []byte("\xc0\x9fC09-victim-block-id-")) {
		return b
	}
	for k := range w.ids {
		b = bytes.ReplaceAll(b, wireIDMarker(k), w.ids[k])
	}
	return b
}

func (w *wireWorld) do(c *Case) (res wireResult) {
	defer func() {
		if res.Viol != "" || res.Incon != "" || strings.HasPrefix(res.Class, "harness") {
			return
		}
		v, inc := w.probe()
		res.Viol, res.Incon = v, inc
	}()
	switch c.S {
	case "req", "res":
		return w.doRaw(c)
	case "res-pending":
		return w.doPending(c)
	case "gossip", "gossip-many-topics":
		return w.doGossip(c)
	}
	return wireResult{Class: "harness-unknown-kind", Viol: "harness: unknown case kind " + c.S}
}

func (w *wireWorld) doRaw(c *Case) wireResult {
	isReq := c.S == "req"
	data := w.subst(c.b(0))
	var proc string
	var derr error
	if isReq {
		q := &p2p.Request{}
		derr = q.Decode(data)
		proc = q.Procedure
	} else {
		proc, derr = p2p.VerifDecodeResponseEnvelope(data)
	}
	expect := "registered"
	switch {
	case derr != nil:
		expect = "undecodable"
	case !w.reg[proc]:
		expect = "unknown-proc"
	}
	a, err := w.ensureAttacker()
	if err != nil {
		return wireResult{Class: c.S + "/" + expect + "/no-attacker", Incon: "cannot connect an attacker to the victim: " + err.Error()}
	}
	before := 0
	if expect == "registered" {
		before = w.victim.Conn.VerifRateCounter(proc, a.id)
	}
	a.sends++
	ctx, cancel := context.WithTimeout(context.Background(), 15*time.Second)
	err = a.conn.VerifRawSend(ctx, w.vid, isReq, data)
	cancel()
	if err != nil {
		w.retire(&w.attacker)
		return wireResult{Class: c.S + "/" + expect + "/send-failed", Info: "send-failed"}
	}
	banned := func() bool { sc, _, _ := w.victim.Conn.VerifPeerScore(a.ip); return sc >= p2p.VerifMaxPenaltyScore }
	seen := waitUntil(10*time.Second, func() bool {
		if banned() {
			return true
		}
		return expect == "registered" && w.victim.Conn.VerifRateCounter(proc, a.id) != before
	})
	if !seen {
		// not processed yet - or stuck in the handler? Only a goroutine that sits inside the stream handler now and still
		// sits there 8 s later counts.
		s1 := stuckHandlers()
		if len(s1) > 0 {
			time.Sleep(8 * time.Second)
			s2 := stuckHandlers()
			for id, st := range s2 {
				if _, ok := s1[id]; ok && !banned() {
					return wireResult{Class: c.S + "/" + expect + "/stuck", Viol: fmt.Sprintf("handler-stuck: 18 s after the envelope was sent its effect is not visible and goroutine %s is still inside the stream handler:\n%s", id, st)}
				}
			}
		}
		w.retire(&w.attacker)
		return wireResult{Class: c.S + "/" + expect + "/unobserved", Info: "effect-unobserved"}
	}
	cls := "counted"
	if expect == "registered" && isReq {
		cls = "served"
	}
	if expect != "registered" {
		cls = "banned"
	} else if waitUntil(20*time.Millisecond, banned) {
		// the handler (or the rate limiter) penalised a well-formed envelope with a registered name: payload rejected
		cls = "banned-by-handler"
	}
	if banned() {
		w.retire(&w.attacker)
	}
	return wireResult{Class: c.S + "/" + expect + "/" + cls, Passed: true}
}

func (w *wireWorld) doPending(c *Case) wireResult {
	a, err := w.ensureAttacker()
	if err != nil {
		return wireResult{Class: "res-pending/no-attacker", Incon: "cannot connect an attacker to the victim: " + err.Error()}
	}
	dup := int(c.u(0))
	if dup > 50 {
		dup = 50
	}
	procName := string(c.b(2))
	delay := c.u(2)
	if delay > 500 {
		delay = 500
	}
	asked := wireRegistered[int(c.u(1))%len(wireRegistered)]
	a.mu.Lock()
	a.calls = 0
	a.onReq = func(r *p2p.Request) []byte {
		name := procName
		if name == "" {
			name = r.Procedure
		}
		env := wireEnvelope(r.ID, name, w.subst(c.b(0)), true, string(c.b(1)), true)
		var wg sync.WaitGroup
		for i := 0; i < dup; i++ {
			send := func() {
				defer wg.Done()
				ctx, cancel := context.WithTimeout(context.Background(), 5*time.Second)
				a.conn.VerifRawSend(ctx, w.vid, false, env)
				cancel()
			}
			wg.Add(1)
			if c.u(3) != 0 {
				go send() // all copies at once: several responses for one pending request inside the same instant
			} else {
				send()
			}
		}
		wg.Wait()
		// without a pause the honest answer usually overtakes the forged ones (they become late duplicates); with one the
		// first forged response is what the victim's caller gets
		time.Sleep(time.Duration(delay) * time.Millisecond)
		return w.tipBytes
	}
	a.mu.Unlock()
	a.sends += dup + 1
	if c.u(3) != 0 {
		// widen the window in which several responses meet one pending entry: every delivery (resMu held) takes 3 ms, so the
		// copies queue up on the mutex ahead of the requester that wants to remove its entry
		p2p.VerifSetSched(func(point, _ string) {
			if point == p2p.VerifPointDeliver {
				time.Sleep(3 * time.Millisecond)
			}
		})
	}
	r, stuck := w.victimRequest(a.id, asked, 4*time.Second)
	p2p.VerifSetSched(nil)
	a.mu.Lock()
	calls := a.calls
	a.onReq = nil
	a.mu.Unlock()
	if stuck != "" {
		return wireResult{Class: "res-pending/stuck", Viol: stuck}
	}
	cls := "answered-honest"
	switch {
	case calls == 0:
		w.retire(&w.attacker)
		return wireResult{Class: "res-pending/request-not-delivered", Info: "effect-unobserved"}
	case r.Error() != nil:
		cls = "error"
	case !bytes.Equal(r.Data(), w.tipBytes):
		cls = "answered-forged"
	}
	if sc, _, _ := w.victim.Conn.VerifPeerScore(a.ip); sc >= p2p.VerifMaxPenaltyScore {
		cls += "+banned"
		w.retire(&w.attacker)
	}
	return wireResult{Class: "res-pending/" + cls, Passed: true}
}

// sentinel publishes fresh valid candidate blocks from g until one of them shows up in the victim's EventNetworkBlockNew.
func (w *wireWorld) sentinel(g *wirePeer, d time.Duration) bool {
	end := time.Now().Add(d)
	for time.Now().Before(end) {
		w.salt++
		b, err := w.victim.Build(node.Spec{Script: node.Script{Salt: 1000 + w.salt}})
		if err != nil {
			return false
		}
		ctx, cancel := context.WithTimeout(context.Background(), 5*time.Second)
		err = g.conn.Publish(ctx, consensus.P2PEventPostBlock, b.Encode())
		cancel()
		if err != nil {
			time.Sleep(50 * time.Millisecond)
			continue
		}
		until := time.Now().Add(400 * time.Millisecond)
		for time.Now().Before(until) {
			select {
			case m := <-w.netCh:
				if ev, ok := m.(*consensus.EventNetworkBlockNewMessage); ok && ev.Block != nil && bytes.Equal(ev.Block.Header.ID, b.Header.ID) {
					return true
				}
			case <-time.After(5 * time.Millisecond):
			}
		}
	}
	return false
}

func (w *wireWorld) gossipPayload(c *Case) ([]byte, error) {
	var base []byte
	switch c.u(0) {
	case 0:
		return w.subst(c.b(0)), nil
	case 1:
		w.salt++
		b, err := w.victim.Build(node.Spec{Script: node.Script{Salt: 5000 + w.salt}})
		if err != nil {
			return nil, err
		}
		base = b.Encode()
	case 2:
		b, err := w.victim.Chain.DataAccess().GetBlockByHeight(3)
		if err != nil {
			return nil, err
		}
		base = b.Encode()
	case 3:
		base = w.victim.Genesis.Encode()
	default:
		if base = w.commits; base == nil {
			return nil, fmt.Errorf("no certifiable height on the victim's chain")
		}
	}
	if c.u(1) == 0 {
		return base, nil
	}
	var all []mutant
	allMutants(base, nil, 384, 0, func(m mutant) { all = append(all, m) })
	return all[int((c.u(1)-1)%uint64(len(all)))].data, nil
}

func (w *wireWorld) doGossip(c *Case) wireResult {
	for len(w.netCh) > 0 {
		<-w.netCh
	}
	if c.S == "gossip-many-topics" {
		w.manyTopics = true
		p, err := w.newPeer(w.vinfo, true)
		w.manyTopics = false
		if err != nil {
			return wireResult{Class: c.S + "/no-attacker", Incon: "cannot connect an attacker to the victim: " + err.Error()}
		}
		seen := w.sentinel(p, 1500*time.Millisecond)
		go p.conn.Stop()
		// whether the victim still takes this peer's publications is the filter's business; what counts is that it survives
		return wireResult{Class: c.S + ifs(seen, "/still-heard", "/not-heard"), Passed: true}
	}
	topic := string(c.b(1))
	payload, err := w.gossipPayload(c)
	if err != nil {
		return wireResult{Class: "gossip/no-payload", Info: "gossip-no-payload"}
	}
	if g := w.gossiper; g != nil && (g.sends >= 2 || !w.connectedToVictim(g)) {
		w.retire(&w.gossiper)
	}
	if w.gossiper == nil {
		g, err := w.newPeer(w.vinfo, true)
		if err != nil {
			return wireResult{Class: "gossip/no-attacker", Incon: "cannot connect an attacker to the victim: " + err.Error()}
		}
		// the channel is up once a valid block gets through (subscriptions exchanged)
		if !w.sentinel(g, 10*time.Second) {
			go g.conn.Stop()
			return wireResult{Class: "gossip/channel-not-up", Info: "effect-unobserved"}
		}
		w.gossiper = g
	}
	g := w.gossiper
	g.sends++
	known := topic == consensus.P2PEventPostBlock || topic == consensus.P2PEventPostSingleCommits
	cls := "gossip/" + ifs(known, topic, "unknown-topic")
	ctx, cancel := context.WithTimeout(context.Background(), 10*time.Second)
	err = g.conn.Publish(ctx, topic, payload)
	cancel()
	if err != nil {
		// not sendable through the engine's own Publish (topic not registered on the sender, message above pubsub's size limit)
		return wireResult{Class: cls + "/publish-refused", Info: "gossip-publish-refused"}
	}
	if !w.sentinel(g, 8*time.Second) {
		w.retire(&w.gossiper)
		return wireResult{Class: cls + "/unobserved", Info: "effect-unobserved"}
	}
	// label only, after the fact: what the topic validator says about this payload
	verdict := ""
	switch topic {
	case consensus.P2PEventPostBlock:
		verdict = "/" + valClass(w.victim.Exec.VerifBlockValidator(&p2p.Message{Data: payload}))
	case consensus.P2PEventPostSingleCommits:
		verdict = "/" + valClass(w.victim.Exec.VerifSingleCommitValidator(&p2p.Message{Data: payload}))
	}
	return wireResult{Class: cls + verdict + "/delivered", Passed: true}
}

// TestWireChild is the lab process (started by the p2p.wire target, never by the driver).
func TestWireChild(t *testing.T) {
	if os.Getenv("VERIF_C09_WIRE_CHILD") == "" {
		t.Skip("lab process of the p2p.wire target; started by the target itself")
	}
	w, err := newWireWorld()
	if err != nil {
		fmt.Println(wireMarker + "cannot build the victim: " + strings.ReplaceAll(err.Error(), "\n", " "))
		return
	}
	fmt.Println(wireMarker + "ready")
	rd := bufio.NewReaderSize(os.Stdin, 1<<20)
	for {
		line, err := rd.ReadBytes('\n')
		if len(bytes.TrimSpace(line)) > 0 {
			c := &Case{}
			var res wireResult
			if jerr := json.Unmarshal(line, c); jerr != nil {
				res = wireResult{Class: "harness-bad-case", Viol: "harness: " + jerr.Error()}
			} else {
				res = w.do(c)
			}
			b, _ := json.Marshal(res)
			fmt.Println(wireMarker + string(b))
		}
		if err != nil {
			return // the parent is gone
		}
	}
}

// ---------------------------------------------------------------------------------------------------------------------
// Generators (parent).

var wireNames = []string{
	"noSuchProcedure", "", " ", "getlastblock", "GETLASTBLOCK", "GetLastBlock", "getLastBlock ", " getLastBlock", "getLastBlock\x00",
	"getLastBloc", "getLastBlockX", "getBlocksFromID", "getblocksfromid", "gethighestcommonblock", "GetHighestCommonBlock",
	"postBlock", "postSingleCommits", "getTransactions", "postTransactionsAnnouncement", "ping", "knownPeers", "\xff\xfe", "процедура", "getLastBlock/../x",
	"/lisk/message/req", "%s%s%s%n", "null",
}

func wireLongNames() []string {
	out := []string{strings.Repeat("a", 255), strings.Repeat("a", 256), strings.Repeat("getLastBlock", 1000), strings.Repeat("x", 65536), strings.Repeat("\x00", 70000), strings.Repeat("N", 1<<20)}
	if evid.Thorough() {
		out = append(out, strings.Repeat("M", 8<<20))
	}
	return out
}

const wireUUID = "7f5c1c4e-0b1f-4b58-9d43-0f6f5b1c2a11"

// wirePayloads: request payloads for a registered procedure, from valid to what the handlers reject.
func wirePayloads(proc string) [][]byte {
	id := func(k int) []byte { return wireIDMarker(k) }
	unknown := bytes.Repeat([]byte{0xee}, 32)
	switch proc {
	case csync.RPCEndpointGetBlocksFromID:
		return [][]byte{
			(&csync.GetBlocksFromIDRequest{ID: id(2)}).Encode(), (&csync.GetBlocksFromIDRequest{ID: id(9)}).Encode(), (&csync.GetBlocksFromIDRequest{ID: id(0)}).Encode(),
			(&csync.GetBlocksFromIDRequest{ID: unknown}).Encode(), (&csync.GetBlocksFromIDRequest{ID: unknown[:31]}).Encode(), (&csync.GetBlocksFromIDRequest{ID: append(unknown, 1)}).Encode(),
			(&csync.GetBlocksFromIDRequest{ID: []byte{}}).Encode(), {}, {0x0a, 0x05, 0x01}, {0x0a}, bytes.Repeat([]byte{0x0a, 0x00}, 3000), make([]byte, 1<<20),
		}
	case csync.RPCEndpointGetHighestCommonBlock:
		many := make([][]byte, 2000)
		for i := range many {
			many[i] = unknown
		}
		return [][]byte{
			(&csync.GetHighestCommonBlockRequest{IDs: [][]byte{id(1), id(3), id(5)}}).Encode(), (&csync.GetHighestCommonBlockRequest{IDs: [][]byte{unknown}}).Encode(),
			(&csync.GetHighestCommonBlockRequest{IDs: [][]byte{id(1), id(1), id(1)}}).Encode(), (&csync.GetHighestCommonBlockRequest{IDs: [][]byte{}}).Encode(),
			(&csync.GetHighestCommonBlockRequest{IDs: [][]byte{id(1), unknown[:31]}}).Encode(), (&csync.GetHighestCommonBlockRequest{IDs: [][]byte{{}}}).Encode(),
			(&csync.GetHighestCommonBlockRequest{IDs: many}).Encode(), {}, {0x0a, 0x21}, bytes.Repeat([]byte{0x0a, 0x00}, 3000),
		}
	}
	return [][]byte{{}, {0x01}, (&csync.GetBlocksFromIDRequest{ID: id(2)}).Encode(), make([]byte, 100000)}
}

func wireCase(kind string, env []byte, gen string, nmut int) *Case {
	return &Case{Target: wireTarget, S: kind, B: []hexb{env}, Gen: gen, NMut: nmut, fromOK: true}
}

// TestWireEnvelopes: the enumerated part - procedure names, request IDs and payloads of well-formed envelopes, the
// structural single-mutation neighbourhood of two valid envelopes (sampled evenly), forged responses for pending requests.
func TestWireEnvelopes(t *testing.T) {
	sh, _ := shard()
	classes := map[string]int{}
	run := func(c *Case) execResult {
		r := exec(t, c, true)
		classes[r.out.class]++
		return r
	}
	valid := (&csync.GetBlocksFromIDRequest{ID: wireIDMarker(2)}).Encode()
	// the honest envelopes first: they must be served / counted, otherwise nothing below means anything
	for _, kind := range []string{"req", "res"} {
		c := wireCase(kind, wireEnvelope(wireUUID, csync.RPCEndpointGetBlocksFromID, valid, true, "", kind == "res"), "wire-honest", 0)
		r := run(c)
		for try := 0; try < 2 && !r.out.passed && r.out.viol == ""; try++ {
			r = run(c)
		}
		if !r.out.passed {
			evid.R.Inconclusive("p2p.wire: an honest %s envelope had no visible effect at the victim (class %s); enumeration skipped", kind, r.out.class)
			t.Logf("skipping: honest %s envelope not observed (class %s)", kind, r.out.class)
			return
		}
	}
	for _, kind := range []string{"req", "res"} {
		isRes := kind == "res"
		// procedure names
		names := append(append([]string{}, wireRegistered...), wireNames...)
		names = append(names, wireLongNames()...)
		for _, n := range names {
			gen := "wire-name-unregistered"
			switch {
			case len(n) >= 255:
				gen = "wire-name-long"
			case n == "":
				gen = "wire-name-empty"
			case n == csync.RPCEndpointGetLastBlock || n == csync.RPCEndpointGetHighestCommonBlock || n == csync.RPCEndpointGetBlocksFromID:
				gen = "wire-name-registered"
			default:
				for _, r := range wireRegistered {
					if strings.EqualFold(n, r) {
						gen = "wire-name-case-variant"
					}
				}
			}
			run(wireCase(kind, wireEnvelope(wireUUID, n, valid, true, "", isRes), gen, 1))
		}
		// request IDs: empty, tiny, duplicate, unknown, very long, not UTF-8 - with a registered and an unregistered name
		for _, id := range []string{"", "x", wireUUID, wireUUID, "00000000-0000-0000-0000-000000000000", strings.Repeat("9", 65536), "\xff\xfe\xfd", "\x00"} {
			for _, n := range []string{csync.RPCEndpointGetLastBlock, "noSuchProcedure"} {
				run(wireCase(kind, wireEnvelope(id, n, nil, true, "", isRes), "wire-id", 1))
			}
		}
		// field presence
		for _, n := range []string{csync.RPCEndpointGetBlocksFromID, "noSuchProcedure"} {
			run(wireCase(kind, wireEnvelope(wireUUID, n, nil, false, "", false), "wire-no-data-field", 1))
			run(wireCase(kind, wireEnvelope(wireUUID, n, valid, true, "boom", true), "wire-error-field", 1))
			run(wireCase(kind, wireEnvelope(wireUUID, n, valid, true, strings.Repeat("E", 1<<20), true), "wire-error-field-long", 1))
		}
		// payloads of well-formed envelopes with registered names (what the RPC handlers accept and reject)
		for _, p := range wireRegistered {
			for _, d := range wirePayloads(p) {
				run(wireCase(kind, wireEnvelope(wireUUID, p, d, true, "", isRes), "wire-payload", 1))
			}
		}
		// structural neighbourhood of a valid envelope, evenly sampled (most of it does not decode: one ban each)
		seed := wireEnvelope(wireUUID, csync.RPCEndpointGetBlocksFromID, valid, true, ifs(isRes, "e", ""), isRes)
		var all []mutant
		nestedPrefixes(seed, func(m mutant) { all = append(all, m) })
		lengthLies(seed, func(m mutant) { all = append(all, m) })
		keyRewrites(seed, func(m mutant) { all = append(all, m) })
		fieldEdits(seed, func(m mutant) { all = append(all, m) })
		everyPrefix(seed, func(m mutant) { all = append(all, m) })
		want := evid.Scale(ifi(evid.Thorough(), 160, 36))
		for i := sh % 5; i < len(all); i += 1 + len(all)/want {
			run(wireCase(kind, all[i].data, "wire-"+all[i].kind, 1))
		}
	}
	// forged / duplicated responses while the victim's own request is pending
	type pend struct {
		dup  int
		name string
		data []byte
		err  string
	}
	pends := []pend{{1, "", []byte("forged"), ""}, {2, "", nil, "boom"}, {5, "", []byte{0x0a, 0x01}, "x"}, {3, csync.RPCEndpointGetHighestCommonBlock, []byte("other registered procedure"), ""}, {1, "GETLASTBLOCK", []byte("y"), ""}}
	if evid.Thorough() {
		pends = append(pends, pend{2, "noSuchProcedure", []byte("z"), ""}, pend{20, "", make([]byte, 100000), ""}, pend{1, "", nil, strings.Repeat("E", 1<<20)})
	}
	for i, p := range pends {
		for _, delay := range []uint64{0, 30} {
			run(&Case{Target: wireTarget, S: "res-pending", B: []hexb{p.data, []byte(p.err), []byte(p.name)}, U: []uint64{uint64(p.dup), uint64(i), delay}, Gen: ifs(delay == 0, "wire-pending-late-duplicates", "wire-pending-forged-first"), NMut: 1, fromOK: true})
		}
	}
	for i, dup := range []int{2, 8, 30} {
		for rep := 0; rep < ifi(evid.Thorough(), 6, 2); rep++ {
			run(&Case{Target: wireTarget, S: "res-pending", B: []hexb{[]byte("burst"), nil, nil}, U: []uint64{uint64(dup), uint64(i + rep), 20, 1}, Gen: "wire-pending-burst", NMut: 1, fromOK: true})
		}
	}
	// gossip: hostile payloads inside valid Message envelopes on subscribed and unknown topics
	gcase := func(topic string, base, mut uint64, lit []byte, gen string) {
		run(&Case{Target: wireTarget, S: "gossip", B: []hexb{lit, []byte(topic)}, U: []uint64{base, mut}, Gen: gen, NMut: 1, fromOK: true})
	}
	gcase(consensus.P2PEventPostBlock, 1, 0, nil, "wire-gossip-valid")
	nmut := uint64(evid.Scale(ifi(evid.Thorough(), 40, 7)))
	for base := uint64(1); base <= 4; base++ {
		topic := consensus.P2PEventPostBlock
		if base == 4 {
			topic = consensus.P2PEventPostSingleCommits
		}
		gcase(topic, base, 0, nil, "wire-gossip-base")
		for i := uint64(0); i < nmut; i++ {
			gcase(topic, base, 1+uint64(sh)+i*7919, nil, "wire-gossip-mutant")
		}
	}
	gcase(consensus.P2PEventPostSingleCommits, 1, 0, nil, "wire-gossip-wrong-topic")
	gcase(consensus.P2PEventPostBlock, 4, 0, nil, "wire-gossip-wrong-topic")
	for _, lit := range [][]byte{{}, {0x0a}, {0x0a, 0x03, 0x0a, 0x01, 0x60}, bytes.Repeat([]byte{0x0a, 0x00}, 20000), make([]byte, 300000), make([]byte, 2<<20)} {
		gcase(consensus.P2PEventPostBlock, 0, 0, lit, "wire-gossip-literal")
		gcase(consensus.P2PEventPostSingleCommits, 0, 0, lit, "wire-gossip-literal")
	}
	for _, tp := range wireTopics[2:] {
		gcase(tp, 1, 0, nil, "wire-gossip-unknown-topic")
	}
	gcase("topicTheSenderDoesNotHave", 1, 0, nil, "wire-gossip-unknown-topic")
	run(&Case{Target: wireTarget, S: "gossip-many-topics", Gen: "wire-gossip-many-topics", NMut: 1, fromOK: true})
	var ks []string
	for k := range classes {
		ks = append(ks, k)
	}
	sort.Strings(ks)
	var sb strings.Builder
	unobs, total := 0, 0
	for _, k := range ks {
		fmt.Fprintf(&sb, "%s=%d ", k, classes[k])
		total += classes[k]
		if strings.HasSuffix(k, "unobserved") || strings.HasSuffix(k, "send-failed") || strings.HasPrefix(k, "lab-") || strings.HasSuffix(k, "no-attacker") || strings.HasSuffix(k, "channel-not-up") {
			unobs += classes[k]
		}
	}
	t.Logf("%d wire cases: %s", total, sb.String())
	wireFinalCheck(t)
	if unobs*5 > total {
		evid.R.Inconclusive("p2p.wire: the effect of %d of %d envelopes was not observed at the victim (slow machine?)", unobs, total)
	}
	for _, must := range []string{"req/unknown-proc/banned", "res/unknown-proc/banned", "req/undecodable/banned", "req/registered/served"} {
		if classes[must] == 0 && unobs*5 <= total {
			t.Errorf("harness: no wire case ended in class %s (generator or observation broken): %s", must, sb.String())
		}
	}
}

// TestWireRandom: rapid-composed envelopes (name / id / payload / error drawn, optionally followed by structural mutations).
func TestWireRandom(t *testing.T) {
	valid := [][]byte{
		(&csync.GetBlocksFromIDRequest{ID: wireIDMarker(2)}).Encode(),
		(&csync.GetHighestCommonBlockRequest{IDs: [][]byte{wireIDMarker(1), wireIDMarker(3)}}).Encode(),
		{},
	}
	rapid.Check(t, func(t *rapid.T) {
		kind := rapid.SampledFrom([]string{"req", "req", "res"}).Draw(t, "kind")
		var name string
		gen := "wire-rnd"
		switch rapid.IntRange(0, 5).Draw(t, "nameShape") {
		case 0:
			name = rapid.SampledFrom(wireRegistered).Draw(t, "registered")
			gen += "-registered"
		case 1:
			name = rapid.SampledFrom(wireNames).Draw(t, "listed")
			gen += "-listed"
		case 2: // one edit of a registered name: case flip, deletion, insertion, replacement
			b := []byte(rapid.SampledFrom(wireRegistered).Draw(t, "base"))
			i := rapid.IntRange(0, len(b)-1).Draw(t, "at")
			switch rapid.IntRange(0, 3).Draw(t, "edit") {
			case 0:
				b[i] ^= 0x20
			case 1:
				b = append(b[:i], b[i+1:]...)
			case 2:
				b = append(b[:i], append([]byte{rapid.Byte().Draw(t, "ins")}, b[i:]...)...)
			default:
				b[i] = rapid.Byte().Draw(t, "repl")
			}
			name = string(b)
			gen += "-edited"
		case 3:
			name = string(rapid.SliceOfN(rapid.Byte(), 0, 12).Draw(t, "nameBytes"))
			gen += "-bytes"
		case 4:
			name = strings.Repeat(rapid.SampledFrom([]string{"a", "getLastBlock", "\x00", "é"}).Draw(t, "unit"), rapid.SampledFrom([]int{2, 100, 5000, 40000}).Draw(t, "times"))
			gen += "-long"
		default:
			name = rapid.SampledFrom(wireRegistered).Draw(t, "base2") + rapid.SampledFrom([]string{" ", "\x00", "\n", "/", "2"}).Draw(t, "suffix")
			gen += "-suffixed"
		}
		id := rapid.SampledFrom([]string{wireUUID, "", "x", "\xff", strings.Repeat("i", 3000)}).Draw(t, "id")
		var data []byte
		withData := true
		switch rapid.IntRange(0, 4).Draw(t, "dataShape") {
		case 0:
			data = valid[rapid.IntRange(0, len(valid)-1).Draw(t, "valid")]
		case 1:
			data = rapid.SliceOfN(rapid.Byte(), 0, 40).Draw(t, "dataBytes")
		case 2:
			d := valid[rapid.IntRange(0, 1).Draw(t, "validBase")]
			data, _ = drawMutation(t, d, valid)
		case 3:
			withData = false
		default:
			ps := wirePayloads(rapid.SampledFrom(wireRegistered).Draw(t, "payloadsOf"))
			data = ps[rapid.IntRange(0, len(ps)-1).Draw(t, "payload")]
		}
		withErr := kind == "res" && rapid.Bool().Draw(t, "withErr")
		errText := ""
		if withErr {
			errText = rapid.SampledFrom([]string{"", "boom", "\xff", strings.Repeat("e", 5000)}).Draw(t, "err")
		}
		env := wireEnvelope(id, name, data, withData, errText, withErr)
		k := rapid.SampledFrom([]int{0, 0, 0, 1, 2}).Draw(t, "mutations")
		for i := 0; i < k; i++ {
			env, _ = drawMutation(t, env, valid)
		}
		if k > 0 {
			gen += fmt.Sprintf("+%dmut", k)
		}
		exec(t, wireCase(kind, env, gen, 1+k), false)
	})
	wireFinalCheck(t)
}

// wireFinalCheck: a panic can also come a moment after the last case was answered.
func wireFinalCheck(t *testing.T) {
	labMu.Lock()
	l := theLab
	labMu.Unlock()
	if l == nil {
		return
	}
	time.Sleep(300 * time.Millisecond)
	if !l.alive() && !l.killed {
		dropLab(l)
		t.Fatalf("C09 oracle: target %s: victim-died: the node process died after the last envelope of this test (%v); its last output:\n%s", wireTarget, l.err, l.tailText(45))
	}
}

var _ = blockchain.IDLength
