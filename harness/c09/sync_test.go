package c09

import (
	"context"
	"fmt"
	"sync"
	"testing"
	"time"

	"github.com/LiskHQ/lisk-engine/pkg/blockchain"
	csync "github.com/LiskHQ/lisk-engine/pkg/consensus/sync"
	"github.com/LiskHQ/lisk-engine/pkg/p2p"

	"verifharness/evid"
	"verifharness/node"
)

// Client side of the sync RPCs, end to end: the unexported request* functions of pkg/consensus/sync/request.go are called
// (through VerifRequest* hooks) on the world node's started connection against a scriptable peer that answers every
// procedure with attacker-chosen bytes (or an error). B[0] = the response payload, U[0] = 1: answer with an error,
// U[0] = 2: answer with a nil payload.

type evilPeer struct {
	conn *p2p.Connection
	mu   sync.Mutex
	data []byte
	mode uint64
	reqs int
	// serve, if set, overrides data/mode for getBlocksFromId (hang check)
	serve func(req []byte) []byte
}

var (
	evilOnce sync.Once
	evil     *evilPeer
	evilErr  error
)

func getEvil() *evilPeer {
	evilOnce.Do(func() {
		w := getWorld()
		e := &evilPeer{}
		e.conn = p2p.NewConnection(node.NopLogger(), &p2p.Config{ChainID: node.ChainID, Version: "1.0", Addresses: []string{"/ip4/127.0.0.1/tcp/0"}, MinNumOfConnections: 1, MaxNumOfConnections: 20})
		h := func(blocks bool) p2p.RPCHandler {
			return func(rw p2p.ResponseWriter, r *p2p.Request) {
				e.mu.Lock()
				data, mode, serve := e.data, e.mode, e.serve
				e.reqs++
				e.mu.Unlock()
				if blocks && serve != nil {
					rw.Write(serve(r.Data))
					return
				}
				switch mode {
				case 1:
					rw.Error(fmt.Errorf("%s", data))
				case 2:
					rw.Write(nil)
				default:
					rw.Write(data)
				}
			}
		}
		for _, name := range []string{csync.RPCEndpointGetLastBlock, csync.RPCEndpointGetHighestCommonBlock} {
			if evilErr = e.conn.RegisterRPCHandler(name, h(false)); evilErr != nil {
				return
			}
		}
		if evilErr = e.conn.RegisterRPCHandler(csync.RPCEndpointGetBlocksFromID, h(true)); evilErr != nil {
			return
		}
		if evilErr = e.conn.Start(nil); evilErr != nil {
			return
		}
		addrs, err := e.conn.MultiAddress()
		if err != nil || len(addrs) == 0 {
			evilErr = fmt.Errorf("peer has no address: %v", err)
			return
		}
		info, err := p2p.AddrInfoFromMultiAddr(addrs[0])
		if err != nil {
			evilErr = err
			return
		}
		ctx, cancel := context.WithTimeout(context.Background(), 20*time.Second)
		defer cancel()
		evilErr = w.n.Conn.Connect(ctx, *info)
		evil = e
	})
	if evilErr != nil {
		panic(fmt.Sprintf("harness: cannot start the scripted peer: %v", evilErr))
	}
	return evil
}

func (e *evilPeer) set(c *Case) {
	e.mu.Lock()
	e.data, e.mode, e.serve = c.b(0), c.u(0), nil
	e.mu.Unlock()
}

func init() {
	e2e := func(name string, call func(ctx context.Context, conn *p2p.Connection, peer p2p.PeerID) (bool, error)) {
		register(&target{name: name, group: "e2e", slack: 16 << 20, soft: 15 * time.Second, run: func(c *Case) outcome {
			e := getEvil()
			e.set(c)
			ctx, cancel := context.WithTimeout(context.Background(), 30*time.Second)
			defer cancel()
			ok, err := call(ctx, getWorld().n.Conn, e.conn.ID())
			if err != nil {
				return outcome{class: "err"}
			}
			return outcome{class: ifs(ok, "ok", "empty"), passed: true}
		}})
	}
	e2e("sync.requestLastBlockHeader", func(ctx context.Context, conn *p2p.Connection, peer p2p.PeerID) (bool, error) {
		h, err := csync.VerifRequestLastBlockHeader(ctx, conn, peer)
		if err == nil && h == nil {
			return false, fmt.Errorf("nil header without error")
		}
		return true, err
	})
	e2e("sync.requestHighestCommonBlock", func(ctx context.Context, conn *p2p.Connection, peer p2p.PeerID) (bool, error) {
		id, err := csync.VerifRequestHighestCommonBlock(ctx, conn, peer, getWorld().ids[:3])
		return len(id) > 0, err
	})
	e2e("sync.requestBlocksFromID", func(ctx context.Context, conn *p2p.Connection, peer p2p.PeerID) (bool, error) {
		bs, err := csync.VerifRequestBlocksFromID(ctx, conn, peer, getWorld().ids[0])
		for _, b := range bs {
			if b == nil || b.Header == nil {
				return false, fmt.Errorf("nil block in result")
			}
		}
		return len(bs) > 0, err
	})
}

// TestSyncClientE2E feeds the three request functions with valid answers and an evenly spread sample of their mutants.
// The number of calls per procedure stays below the p2p rate limit (100 messages per 10 s and procedure), otherwise the
// requester would start penalising the scripted peer.
func TestSyncClientE2E(t *testing.T) {
	w := getWorld()
	var bl []*blockchain.Block
	for _, bb := range w.blocks[:3] {
		b, _ := blockchain.NewBlock(bb)
		bl = append(bl, b)
	}
	seeds := map[string][][]byte{
		"sync.requestLastBlockHeader":    {w.blocks[0], w.blocks[len(w.blocks)-2]},
		"sync.requestHighestCommonBlock": {(&csync.GetHighestCommonBlockResponse{ID: w.ids[2]}).Encode()},
		"sync.requestBlocksFromID":       {(&csync.GetBlocksFromIDResponse{Blocks: bl}).Encode(), (&csync.GetBlocksFromIDResponse{Blocks: bl[:1]}).Encode()},
	}
	perProc := evid.Scale(ifi(evid.Thorough(), 85, 60))
	for _, name := range []string{"sync.requestLastBlockHeader", "sync.requestHighestCommonBlock", "sync.requestBlocksFromID"} {
		n := 0
		for si, s := range seeds[name] {
			c := &Case{Target: name, B: []hexb{s}, U: []uint64{0}, Gen: "seed", fromOK: true}
			r := exec(t, c, true)
			n++
			// the honest answer must get through; on an overloaded machine the loopback round trip may time out, which is
			// no verdict about the engine
			for try := 0; si == 0 && r.out.class != "ok" && try < 3; try++ {
				time.Sleep(2 * time.Second)
				r = exec(t, c, true)
			}
			if si == 0 && r.out.class != "ok" {
				evid.R.Inconclusive("end-to-end %s: the honest answer of the scripted peer did not get through (class %s); procedure skipped", name, r.out.class)
				t.Logf("skipping %s: honest answer not accepted (class %s)", name, r.out.class)
				n = -1
				break
			}
		}
		if n < 0 {
			continue
		}
		exec(t, &Case{Target: name, B: []hexb{[]byte("boom")}, U: []uint64{1}, Gen: "error-response"}, true)
		exec(t, &Case{Target: name, B: []hexb{nil}, U: []uint64{2}, Gen: "nil-response"}, true)
		exec(t, &Case{Target: name, B: []hexb{{}}, U: []uint64{0}, Gen: "empty-response"}, true)
		n += 3
		var all []mutant
		for _, s := range seeds[name] {
			nestedPrefixes(s, func(m mutant) { all = append(all, m) })
			lengthLies(s, func(m mutant) { all = append(all, m) })
			keyRewrites(s, func(m mutant) { all = append(all, m) })
			everyPrefix(s, func(m mutant) { all = append(all, m) })
		}
		// cuts right after a key are the historically dangerous ones: keep all of those that fit, then an even spread
		var pick []mutant
		for _, m := range all {
			if (m.kind == "nested-cut-after-key" || m.kind == "cut-after-key") && len(pick) < perProc/2 {
				pick = append(pick, m)
			}
		}
		sh, _ := shard()
		for i := sh % 7; i < len(all) && len(pick) < perProc-n; i += 1 + len(all)/(perProc-n) {
			pick = append(pick, all[i])
		}
		for _, m := range pick {
			exec(t, &Case{Target: name, B: []hexb{m.data}, U: []uint64{0}, Gen: m.kind, NMut: 1, fromOK: true}, true)
		}
		t.Logf("%s: %d calls", name, n+len(pick))
	}
}

// ---------------------------------------------------------------------------------------------------------------
// Behavioural hang check: a peer that answers getBlocksFromId with segments that never reach the advertised tip. The
// Downloader (driven exactly as fast sync / block sync drive it: read Downloaded() until it is closed) must stop by itself.

const sigDownloaderHang = "hang:sync.Downloader:peer-never-serves-advertised-tip"

func TestDownloaderTerminates(t *testing.T) {
	w := getWorld()
	e := getEvil()
	var seg []*blockchain.Block
	for _, bb := range w.blocks[:3] {
		b, _ := blockchain.NewBlock(bb)
		seg = append(seg, b)
	}
	advertised := w.ids[len(w.ids)-1] // never served
	budget := 12 * time.Second
	for _, mode := range []string{"same-segment-forever", "empty-forever"} {
		e.mu.Lock()
		e.reqs = 0
		e.serve = func(req []byte) []byte {
			if mode == "empty-forever" {
				return (&csync.GetBlocksFromIDResponse{}).Encode()
			}
			return (&csync.GetBlocksFromIDResponse{Blocks: seg}).Encode()
		}
		e.mu.Unlock()
		ctx, cancel := context.WithCancel(context.Background())
		type res struct {
			n   int
			err error
		}
		done := make(chan res, 1)
		start := time.Now()
		go func() {
			n, err := csync.VerifDownload(ctx, node.NopLogger(), w.n.Conn, w.n.Chain, e.conn.ID(), w.n.Genesis.Header.ID, w.n.Genesis.Header.Height, advertised, uint32(len(w.ids)), nil)
			done <- res{n, err}
		}()
		desc := fmt.Sprintf("downloader against a peer in mode %s (advertised tip never served)", mode)
		select {
		case r := <-done:
			cancel()
			evid.R.Case("downloader|"+mode, true, func() any {
				return map[string]any{"kind": "downloader", "mode": mode, "items": r.n, "err": fmt.Sprint(r.err), "ms": time.Since(start).Milliseconds()}
			}, "t:sync.Downloader", "t:sync.Downloader/terminated", "g:"+mode)
		case <-time.After(budget):
			e.mu.Lock()
			reqs := e.reqs
			e.mu.Unlock()
			cancel() // the harness ends it; the engine's callers never cancel
			select {
			case <-done:
			case <-time.After(20 * time.Second):
			}
			if reqs < 30 {
				// under load the limiter-paced loop may simply be slow: no verdict
				evid.R.Inconclusive("%s: only %d requests in %v, no verdict", desc, reqs, budget)
				continue
			}
			if knownFinding(sigDownloaderHang) {
				evid.R.Excluded(1)
				evid.R.Case("downloader|"+mode, true, nil, "t:sync.Downloader", "t:sync.Downloader/known-hang", "g:"+mode)
				continue
			}
			t.Fatalf("C09 hang: %s kept requesting (%d requests in %v, nothing but the harness' cancel stopped it): the sync loop runs in the consensus goroutine, which is stuck for as long as the peer keeps answering (signature %q)", desc, reqs, budget, sigDownloaderHang)
		}
	}
	e.mu.Lock()
	e.serve = nil
	e.mu.Unlock()
}
