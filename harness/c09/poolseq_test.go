package c09

import (
	"bytes"
	"context"
	"fmt"
	"runtime/debug"
	"sync"
	"testing"
	"time"

	"pgregory.net/rapid"

	"github.com/LiskHQ/lisk-engine/pkg/blockchain"
	"github.com/LiskHQ/lisk-engine/pkg/codec"
	"github.com/LiskHQ/lisk-engine/pkg/db"
	"github.com/LiskHQ/lisk-engine/pkg/labi"
	"github.com/LiskHQ/lisk-engine/pkg/log"
	"github.com/LiskHQ/lisk-engine/pkg/p2p"
	"github.com/LiskHQ/lisk-engine/pkg/txpool"

	"verifharness/evid"
)

// SEQUENCES of well-formed, peer-controlled messages through a live transaction pool (added after seeded change C09-w: a replaced
// transaction became a "ghost" without a sender list; every single message was handled fine, the node crashed with a nil dereference
// when a later block containing the replacement made the generator remove it from the pool). The other C09 targets offer one
// untrusted message to a fixed world; here the world is what earlier messages of the same peers left behind.
// Messages: transaction gossip (through the validator and handler the pool registers, as pkg/p2p delivers it), replacements (same
// sender and nonce, higher fee), duplicates, a getTransactions request, and "a block containing these transactions arrived"
// (generator.onNewBlock removes every transaction of a received block from the pool by ID; the IDs are the peer's choice - pooled,
// replaced, or unknown). Oracle: no panic, every call returns. Pool semantics (indexes, bounds) are C14's business.
type seqLogger struct{}

func (seqLogger) Debug(string, ...interface{})     {}
func (seqLogger) Info(string, ...interface{})      {}
func (seqLogger) Error(string, ...interface{})     {}
func (seqLogger) Debugf(string, ...interface{})    {}
func (seqLogger) Infof(string, ...interface{})     {}
func (seqLogger) Errorf(string, ...interface{})    {}
func (seqLogger) Warning(string, ...interface{})   {}
func (seqLogger) Warningf(string, ...interface{})  {}
func (l seqLogger) With(...interface{}) log.Logger { return l }

type seqConn struct {
	mu  sync.Mutex
	rpc map[string]p2p.RPCHandler
	evh map[string]p2p.EventHandler
	val map[string]p2p.Validator
}

func (c *seqConn) Broadcast(context.Context, string, []byte) error { return nil }
func (c *seqConn) RegisterRPCHandler(name string, h p2p.RPCHandler, _ ...p2p.RPCHandlerOption) error {
	c.mu.Lock()
	c.rpc[name] = h
	c.mu.Unlock()
	return nil
}
func (c *seqConn) RegisterEventHandler(name string, h p2p.EventHandler, v p2p.Validator) error {
	c.mu.Lock()
	c.evh[name], c.val[name] = h, v
	c.mu.Unlock()
	return nil
}
func (c *seqConn) ApplyPenalty(p2p.PeerID, int) {}
func (c *seqConn) RequestFrom(context.Context, p2p.PeerID, string, []byte) p2p.Response {
	return *p2p.NewResponse(0, "", nil, nil)
}
func (c *seqConn) Publish(context.Context, string, []byte) error { return nil }

type seqWriter struct{}

func (seqWriter) Write([]byte) {}
func (seqWriter) Error(error)  {}

type seqABI struct{ invalid map[string]bool }

func (a *seqABI) VerifyTransaction(req *labi.VerifyTransactionRequest) (*labi.VerifyTransactionResponse, error) {
	if a.invalid[string(req.Transaction.ID)] {
		return &labi.VerifyTransactionResponse{Result: labi.TxVerifyResultInvalid}, nil
	}
	return &labi.VerifyTransactionResponse{Result: labi.TxVerifyResultOk}, nil
}

func seqTx(sender int, nonce, fee uint64, pad int) *blockchain.Transaction {
	tx := &blockchain.Transaction{Module: "token", Command: "transfer", Nonce: nonce, Fee: fee,
		SenderPublicKey: bytes.Repeat([]byte{byte(0x21 + sender)}, 32), Params: bytes.Repeat([]byte{9}, pad),
		Signatures: []codec.Hex{bytes.Repeat([]byte{byte(1 + sender)}, 64)}}
	tx.Init()
	return tx
}

func TestGossipSequences(t *testing.T) {
	rapid.Check(t, func(t *rapid.T) {
		conn := &seqConn{rpc: map[string]p2p.RPCHandler{}, evh: map[string]p2p.EventHandler{}, val: map[string]p2p.Validator{}}
		abi := &seqABI{invalid: map[string]bool{}}
		diff := rapid.Uint64Range(1, 10).Draw(t, "minReplacementFeeDifference")
		pool := txpool.NewTransactionPool(&txpool.TransactionPoolConfig{
			MaxTransactions: rapid.IntRange(3, 12).Draw(t, "maxTransactions"), MaxTransactionsPerAccount: rapid.IntRange(1, 4).Draw(t, "perAccount"),
			MinReplacementFeeDifference: diff})
		if err := pool.Init(context.Background(), seqLogger{}, (*db.DB)(nil), (*blockchain.Chain)(nil), conn, abi); err != nil {
			t.Fatalf("pool init: %v", err)
		}
		peer := p2p.PeerID("12D3KooWHarnessGossipPeer")
		var hist []string
		var known []*blockchain.Transaction // everything this peer ever gossiped (pooled or not, replaced or not)
		flags := map[string]bool{}
		step := func(desc string, f func()) {
			hist = append(hist, desc)
			done := make(chan string, 1)
			go func() {
				defer func() {
					if p := recover(); p != nil {
						done <- fmt.Sprintf("panic: %v\n%s", p, debug.Stack())
						return
					}
					done <- ""
				}()
				f()
			}()
			select {
			case msg := <-done:
				if msg != "" {
					t.Fatalf("C09 violated: a sequence of well-formed peer messages crashed the node at step %d (%s): %s\nhistory: %v", len(hist)-1, desc, msg, hist)
				}
			case <-time.After(120 * time.Second): // generous: a microsecond operation that has not returned after two minutes is not a scheduling artefact
				t.Fatalf("C09 violated: step %d (%s) did not return within 120 s\nhistory: %v", len(hist)-1, desc, hist)
			}
		}
		gossip := func(tx *blockchain.Transaction, what string) {
			data := tx.Encode()
			known = append(known, tx)
			step(fmt.Sprintf("%s sender=%d nonce=%d fee=%d", what, tx.SenderPublicKey[0]-0x21, tx.Nonce, tx.Fee), func() {
				v := conn.val[txpool.RPCEventPostTransactionAnnouncement]
				if v != nil && v(context.Background(), p2p.NewMessage(data)) != p2p.ValidationAccept {
					return
				}
				conn.evh[txpool.RPCEventPostTransactionAnnouncement](p2p.NewEvent(peer, txpool.RPCEventPostTransactionAnnouncement, data))
			})
		}
		n := rapid.IntRange(3, 14).Draw(t, "messages")
		for i := 0; i < n; i++ {
			switch rapid.SampledFrom([]string{"tx", "tx", "tx", "replacement", "replacement", "duplicate", "block", "block", "rpc", "promote"}).Draw(t, "message") {
			case "tx":
				tx := seqTx(rapid.IntRange(0, 3).Draw(t, "sender"), uint64(rapid.IntRange(0, 3).Draw(t, "nonce")), uint64(rapid.IntRange(1000, 100000).Draw(t, "fee")), rapid.IntRange(0, 40).Draw(t, "pad"))
				if rapid.IntRange(0, 7).Draw(t, "appInvalid") == 0 {
					abi.invalid[string(tx.ID)] = true
				}
				gossip(tx, "gossip")
			case "replacement":
				if len(known) == 0 {
					continue
				}
				old := known[rapid.IntRange(0, len(known)-1).Draw(t, "replaced")]
				bump := diff + uint64(rapid.IntRange(0, 50).Draw(t, "bump"))
				if rapid.IntRange(0, 4).Draw(t, "tooSmall") == 0 {
					bump = diff - 1
				}
				tx := seqTx(int(old.SenderPublicKey[0]-0x21), old.Nonce, old.Fee+bump, len(old.Params))
				gossip(tx, "gossip replacement")
				flags["replacement"] = true
			case "duplicate":
				if len(known) == 0 {
					continue
				}
				gossip(known[rapid.IntRange(0, len(known)-1).Draw(t, "dup")], "gossip duplicate")
			case "block":
				// the transactions of a received block are removed from the pool by ID, latest gossip first in half of the cases
				var ids [][]byte
				k := rapid.IntRange(1, 4).Draw(t, "blockTxs")
				for j := 0; j < k && len(known) > 0; j++ {
					ix := len(known) - 1 - j
					if ix < 0 || rapid.Bool().Draw(t, "anyTx") {
						ix = rapid.IntRange(0, len(known)-1).Draw(t, "blockTx")
					}
					ids = append(ids, known[ix].ID)
				}
				if rapid.IntRange(0, 3).Draw(t, "unknownTx") == 0 {
					ids = append(ids, bytes.Repeat([]byte{0xee}, 32))
				}
				step(fmt.Sprintf("block with %d transactions arrives (pool.Remove per transaction)", len(ids)), func() {
					for _, id := range ids {
						pool.Remove(id)
					}
				})
				if flags["replacement"] {
					flags["removal-after-replacement"] = true
				}
			case "rpc":
				step("getTransactions request", func() {
					pool.HandleRPCEndpointGetTransaction(seqWriter{}, &p2p.Request{ID: "1", Procedure: txpool.RPCEndpointGetTransactions, Data: nil, PeerID: peer})
				})
			case "promote":
				step("promotion pass", func() { pool.VerifReorg() })
			}
		}
		step("final promotion pass and listing", func() { pool.VerifReorg(); pool.GetAll(); pool.GetProcessable() })
		evid.R.Case(fmt.Sprintf("gossipseq|%v", hist), flags["removal-after-replacement"], func() any {
			return map[string]any{"kind": "gossip-sequence", "messages": hist}
		}, "gossip-sequence")
	})
}
