package c09

import (
	"bytes"
	"context"
	"encoding/hex"
	"encoding/json"
	"fmt"
	"os"
	"regexp"
	"runtime/debug"
	"sort"
	"strconv"
	"strings"
	"sync"
	"sync/atomic"
	"testing"
	"time"

	"pgregory.net/rapid"

	"github.com/LiskHQ/lisk-engine/pkg/blockchain"
	"github.com/LiskHQ/lisk-engine/pkg/consensus/forkchoice"
	csync "github.com/LiskHQ/lisk-engine/pkg/consensus/sync"
	"github.com/LiskHQ/lisk-engine/pkg/crypto"
	"github.com/LiskHQ/lisk-engine/pkg/p2p"

	"verifharness/evid"
	"verifharness/node"
)

// ---------------------------------------------------------------------------------------------------------------------
// (7) The WHOLE sync conversation against ONE hostile peer, driven by the real Syncer (target "sync.conversation").
//
// hostile_sync_test.go scripts the getBlocksFromId responder only and drives the Downloader through a hook. Here the
// node itself drives everything: a fresh real node R (real Chain, Executer, Syncer, started p2p.Connection) is OFFERED a
// block by a scripted peer M (a started p2p.Connection with the three sync procedures registered); fork choice inside
// Executer.process answers "different chain", Executer.process builds the SyncContext and calls Syncer.Sync, which picks
// fast sync (offer within two rounds of the tip, generator an active validator) or block sync (everything else) and
// then ASKS M: getLastBlock (block sync: once to poll, once to validate), getHighestCommonBlock (fast sync once, block
// sync up to three times), getBlocksFromId (the Downloader). Every answer of M is scripted per procedure and per call
// (the k-th request of a procedure gets the k-th entry of its list, the last entry is repeated).
//
// M owns a REAL fork: a second node P (no network) with the same genesis shares `Shared` blocks with R and then builds
// `ForkP` valid blocks of its own; R builds `ForkR` valid blocks of its own on the shared prefix. So the honest answers
// are genuine (the honest scripts must make R end on P's tip, both sync kinds: generator guard), the download can get
// under way with valid blocks before the hostile part starts, and "a block R has but did not offer", "a block below the
// finalized height", "a block only the peer has" all exist. Heights above P's tip are served as fabricated blocks
// (re-stamped, re-signed copies of P's tip: they decode, are statically valid, carry a fresh ID).
//
// Oracle (C09 only; whether R bans M, keeps or restores its fork is C18/C19 business and only labelled):
//   (a) Executer.process returns (nil or error) - a panic on the calling goroutine is recovered and reported with its
//       site (in production it is the consensus goroutine: node down);
//   (b) bounded requests, POSITIVE evidence for the opposite only: convSameLimit consecutive getBlocksFromId requests
//       for the same ID, or more requests than 12 + every height the peer can ever serve + dlExtra (every download
//       answer must advance by one height; the other procedures are asked at most 2 + 3 times per Sync round and a
//       round that neither fails nor finishes does not exist), or dlIdle without request or end (stacks attached).
//       The harness then stops the peer (which ends the requests) and reports the request log;
//   (c) once process returned the node sends no further requests (a downloader left running: >= 3 requests later than
//       500 ms after the return);
//   (d) afterwards R processes a fresh valid block built on whatever its tip is now, and
//   (e) answers the three sync procedures of a fresh honest peer W (another loopback address) with its tip; if W gets
//       no answer three times a control node that saw no hostile peer is asked: control answers = violation,
//       control silent = inconclusive (environment).

const convTarget = "sync.conversation"

const (
	convWorkers   = 8 // scenarios in flight (most of a scenario's time is waiting: request pacing, late answers)
	convSameLimit = dlSameLimit
	convLate      = 3500 * time.Millisecond // "none": the answer is sent after the requester's 3 s timeout
	convFabMax    = 60                      // fabricated heights above the peer's tip
)

// convScript is one replayable scenario (JSON; the marker field "conv" tells the replay tests whose file it is).
type convScript struct {
	Conv   int    `json:"conv"`
	Name   string `json:"name"`
	NVal   int    `json:"nVal"`   // active validators (3..5), equal weights
	Shared int    `json:"shared"` // blocks R and the peer have in common
	ForkR  int    `json:"forkR"`  // R's own blocks on top
	ForkP  int    `json:"forkP"`  // the peer's own blocks on top
	// the offered block: "ptip" = the genuine tip of the peer's chain; "fab" = a copy of R's tip with height tip+DH,
	// maxHeightPrevoted +DM, a foreign previousBlockID, generator = pool key Gen (< NVal: active validator), signed by that
	// key or carrying a 64-byte non-signature (the signature is only checked when the block is executed)
	Offer  string `json:"offer"`
	DH     int    `json:"dh,omitempty"`
	DM     int    `json:"dm,omitempty"`
	Gen    int    `json:"gen,omitempty"`
	Signed bool   `json:"signed,omitempty"`
	// the peer's answers, per procedure, k-th request -> k-th entry (last one repeated); see lastAnswer/commonAnswer/blocksAnswer
	Last   []string `json:"last"`
	Common []string `json:"common"`
	Blocks []string `json:"blocks"`
}

func (s *convScript) json() string {
	b, _ := json.Marshal(s)
	return string(b)
}

// ---------------------------------------------------------------------------------------------------------------------
// the peer's chain (built once per (validators, shared, forkP), blocks are immutable afterwards)

type convBase struct {
	nVal      int
	shared    int
	genesisTS uint32
	genesis   *blockchain.Block
	blocks    []*blockchain.Block // blocks[h-1] = the peer's block at height h
	byID      map[string]int
	err       error

	mu  sync.Mutex
	fab map[int]*blockchain.Block
}

var (
	convBaseMu sync.Mutex
	convBases  = map[[3]int]*convBase{}
)

func getConvBase(nVal, shared, forkP int) *convBase {
	convBaseMu.Lock()
	defer convBaseMu.Unlock()
	key := [3]int{nVal, shared, forkP}
	if b := convBases[key]; b != nil {
		return b
	}
	if len(convBases) >= 64 {
		convBases = map[[3]int]*convBase{}
	}
	b := &convBase{nVal: nVal, shared: shared, byID: map[string]int{}, fab: map[int]*blockchain.Block{}}
	convBases[key] = b
	P, err := node.New(node.Config{Genesis: node.EqualGenesis(nVal), BatchSize: nVal})
	if err != nil {
		b.err = err
		return b
	}
	defer P.Close()
	b.genesisTS, b.genesis = P.Cfg.GenesisTS, P.Genesis
	b.byID[string(P.Genesis.Header.ID)] = 0
	for i := 0; i < shared+forkP; i++ {
		salt := uint32(i % 5)
		if i >= shared {
			salt = 80 + uint32(i%5)
		}
		blk, err := P.Apply(node.Spec{Script: node.Script{Salt: salt, EvAfter: i % 2}})
		if err != nil {
			b.err = fmt.Errorf("peer chain block %d: %w", i+1, err)
			return b
		}
		blk = node.CloneBlock(blk)
		b.blocks = append(b.blocks, blk)
		b.byID[string(blk.Header.ID)] = i + 1
	}
	return b
}

func (b *convBase) top() int { return len(b.blocks) }

// block returns the peer's block at a height: genuine up to its tip, fabricated above (nil outside 0..top+convFabMax).
func (b *convBase) block(h int) *blockchain.Block {
	switch {
	case h < 0 || h > b.top()+convFabMax:
		return nil
	case h == 0:
		return b.genesis
	case h <= b.top():
		return b.blocks[h-1]
	}
	b.mu.Lock()
	defer b.mu.Unlock()
	if f := b.fab[h]; f != nil {
		return f
	}
	tip := b.genesis
	if b.top() > 0 {
		tip = b.blocks[b.top()-1]
	}
	f := node.CloneBlock(tip)
	f.Header.Version = 2
	f.Header.Height = uint32(h)
	f.Header.Timestamp += uint32(h-b.top()) * 10000
	if k := node.KeyByAddr(f.Header.GeneratorAddress); k != nil {
		node.Resign(f, k)
	} else {
		f.Header.GeneratorAddress = node.Keys()[0].Addr
		node.Resign(f, node.Keys()[0])
	}
	b.fab[h] = f
	return f
}

func (b *convBase) heightOf(id []byte) (int, bool) {
	if h, ok := b.byID[string(id)]; ok {
		return h, true
	}
	b.mu.Lock()
	defer b.mu.Unlock()
	for h, f := range b.fab {
		if bytes.Equal(f.Header.ID, id) {
			return h, true
		}
	}
	return 0, false
}

// ---------------------------------------------------------------------------------------------------------------------
// one run

type convReq struct {
	proc   string
	key    string // getBlocksFromId: the requested ID
	detail string
	answer string
	at     time.Time
}

type convRun struct {
	s       *convScript
	base    *convBase
	R       *node.Node
	M       *p2p.Connection
	offer   *blockchain.Block
	rIDs    [][]byte // R's chain before the conversation, by height
	rHeight map[string]int
	rTip    *blockchain.Block // R's tip before the conversation
	fin     uint32
	release chan struct{}
	stopM   sync.Once

	mu                  sync.Mutex
	reqs                []convReq
	nLast, nCommon, nBl int
	harnessErr          string
}

var (
	convSeqMu sync.Mutex
	convSeq   int
)

func convAddrs() (r, m string) {
	convSeqMu.Lock()
	convSeq++
	q := convSeq
	convSeqMu.Unlock()
	sh, _ := shard()
	a, b := (sh*13+q/200)%250, 2+q%200
	return fmt.Sprintf("/ip4/127.81.%d.%d/tcp/0", a, b), fmt.Sprintf("/ip4/127.82.%d.%d/tcp/0", a, b)
}

func pick(list []string, k int) string {
	if len(list) == 0 {
		return "nil"
	}
	if k >= len(list) {
		k = len(list) - 1
	}
	return list[k]
}

func patterned(n int, seed byte) []byte {
	out := make([]byte, n)
	for i := range out {
		out[i] = seed + byte(i*7)
	}
	return out
}

// respond writes one scripted payload. tok "none" = answer only after the requester gave up (a late response).
func (x *convRun) respond(rw p2p.ResponseWriter, tok string, data []byte) {
	switch tok {
	case "error":
		rw.Error(fmt.Errorf("scripted error"))
	case "none":
		select {
		case <-time.After(convLate):
		case <-x.release:
		}
		rw.Write(data)
	case "nil":
		rw.Write(nil)
	default:
		rw.Write(data)
	}
}

// lastAnswer: the getLastBlock payload for a token.
//
//	ptip / offer / rtip / genesis / shared (the fork point: lower height, no priority) / low (height 1)
//	fab+D+M (R's tip height + D, maxHeightPrevoted + M, unsigned) / fabhuge (height and maxHeightPrevoted 2^31)
//	invalid (transaction root does not match: decodes, Validate fails) / invalid-sig (63-byte signature) / huge (1 MiB asset, statically valid)
//	undecodable (cut in the middle of the header) / garbage / empty / nil / error / none
func (x *convRun) lastAnswer(tok string) []byte {
	b := x.base
	switch {
	case tok == "ptip":
		return b.block(b.top()).Encode()
	case tok == "offer":
		return x.offer.Encode()
	case tok == "rtip":
		return x.rTip.Encode()
	case tok == "genesis":
		return b.genesis.Encode()
	case tok == "shared":
		return b.block(b.shared).Encode()
	case tok == "low":
		return b.block(1).Encode()
	case tok == "fabhuge":
		f := node.CloneBlock(b.block(b.top()))
		f.Header.Height, f.Header.MaxHeightPrevoted = 1<<31, 1<<31
		f.Header.Signature = patterned(64, 3)
		f.Init()
		return f.Encode()
	case strings.HasPrefix(tok, "fab"):
		var d, m int
		if _, err := fmt.Sscanf(tok, "fab%d%d", &d, &m); err != nil {
			x.fail("bad getLastBlock token %q: %v", tok, err)
			return nil
		}
		return x.fabricate(d, m, 0, false).Encode()
	case tok == "invalid":
		f := node.CloneBlock(b.block(b.top()))
		f.Header.TransactionRoot = crypto.Hash([]byte("no such payload"))
		node.Resign(f, node.KeyByAddr(f.Header.GeneratorAddress))
		return f.Encode()
	case tok == "invalid-sig":
		f := node.CloneBlock(b.block(b.top()))
		f.Header.Signature = patterned(63, 5)
		f.Init()
		return f.Encode()
	case tok == "huge":
		f := node.CloneBlock(b.block(b.top()))
		f.Assets = append(f.Assets, &blockchain.BlockAsset{Module: "zzzz", Data: patterned(1<<20, 9)})
		as := blockchain.BlockAssets(f.Assets)
		as.Sort()
		f.Assets = as
		f.Header.AssetRoot = as.GetRoot()
		node.Resign(f, node.KeyByAddr(f.Header.GeneratorAddress))
		return f.Encode()
	case tok == "undecodable":
		e := b.block(b.top()).Encode()
		return e[:len(e)/3]
	case tok == "garbage":
		return patterned(97, 0xf1)
	case tok == "empty":
		return []byte{}
	case tok == "nil" || tok == "error" || tok == "none":
		if tok == "none" {
			return b.block(b.top()).Encode()
		}
		return nil
	}
	x.fail("unknown getLastBlock token %q", tok)
	return nil
}

// fabricate: a copy of R's tip (before the conversation) moved to another chain.
func (x *convRun) fabricate(dh, dm, gen int, signed bool) *blockchain.Block {
	tipH := len(x.rIDs) - 1
	src := node.CloneBlock(x.rTip)
	tipMHP := x.rTip.Header.MaxHeightPrevoted
	if src.Header.Version != 2 {
		src = node.CloneBlock(x.base.block(1)) // R has only the genesis block: take the shape of any version-2 block
	}
	h := tipH + dh
	if h < 1 {
		h = 1
	}
	src.Header.Height = uint32(h)
	src.Header.MaxHeightPrevoted = tipMHP + uint32(dm)
	src.Header.PreviousBlockID = crypto.Hash([]byte(fmt.Sprintf("other chain %d", h)))
	k := node.Keys()[gen%node.PoolSize]
	src.Header.GeneratorAddress = k.Addr
	if signed {
		node.Resign(src, k)
	} else {
		src.Header.Signature = patterned(64, 0x21)
		src.Init()
	}
	return src
}

// commonAnswer: the getHighestCommonBlock payload for a token, given the offered IDs.
//
//	honest (highest offered ID the peer really has) / first / last / mid (offered, whether the peer has them or not)
//	random / random2.. (32 bytes nobody has) / unoffered-own (a block R has, not among the offered ones) / genesis /
//	finalized / below-finalized / peer-only (only the peer has it) / offer (the ID of the offered block)
//	empty (response with an empty ID) / short (31) / long (33) / one (1 byte) / undecodable / garbage / nil / error / none
func (x *convRun) commonAnswer(tok string, ids [][]byte) (data []byte, detail string) {
	enc := func(id []byte) []byte { return (&csync.GetHighestCommonBlockResponse{ID: id}).Encode() }
	offered := map[string]bool{}
	for _, id := range ids {
		offered[string(id)] = true
	}
	switch {
	case tok == "honest":
		best, bestH := []byte(nil), -1
		for _, id := range ids {
			if h, ok := x.base.byID[string(id)]; ok && h > bestH {
				best, bestH = id, h
			}
		}
		if best == nil {
			return nil, "honest:none-known"
		}
		return enc(best), fmt.Sprintf("honest:height %d", bestH)
	case tok == "first" || tok == "last" || tok == "mid":
		if len(ids) == 0 {
			return enc(nil), tok + ":nothing-offered"
		}
		i := map[string]int{"first": 0, "last": len(ids) - 1, "mid": len(ids) / 2}[tok]
		return enc(ids[i]), fmt.Sprintf("%s:R height %d", tok, x.rHeight[string(ids[i])])
	case strings.HasPrefix(tok, "random"):
		return enc(crypto.Hash([]byte("conv " + tok))), "not-offered:nobody-has-it"
	case tok == "unoffered-own":
		for h := len(x.rIDs) - 1; h >= 0; h-- {
			if !offered[string(x.rIDs[h])] {
				return enc(x.rIDs[h]), fmt.Sprintf("not-offered:R height %d", h)
			}
		}
		return enc(crypto.Hash([]byte("conv everything was offered"))), "not-offered:nobody-has-it(all of R's blocks were offered)"
	case tok == "genesis":
		return enc(x.rIDs[0]), ifs(offered[string(x.rIDs[0])], "offered", "not-offered") + ":genesis"
	case tok == "finalized":
		return enc(x.rIDs[x.fin]), fmt.Sprintf("%s:finalized height %d", ifs(offered[string(x.rIDs[x.fin])], "offered", "not-offered"), x.fin)
	case tok == "below-finalized":
		h := int(x.fin) - 1
		if h < 0 {
			h = 0
		}
		return enc(x.rIDs[h]), fmt.Sprintf("%s:height %d below finalized %d", ifs(offered[string(x.rIDs[h])], "offered", "not-offered"), h, x.fin)
	case tok == "peer-only":
		return enc(x.base.block(x.base.top()).Header.ID), "not-offered:peer-only"
	case tok == "offer":
		return enc(x.offer.Header.ID), "not-offered:the offered block"
	case tok == "empty":
		return enc([]byte{}), "empty-id"
	case tok == "short":
		return enc(patterned(31, 1)), "31-byte-id"
	case tok == "long":
		id := append([]byte{}, x.rIDs[len(x.rIDs)-1]...)
		return enc(append(id, 0)), "33-byte-id(tip+00)"
	case tok == "one":
		return enc([]byte{7}), "1-byte-id"
	case tok == "undecodable":
		return []byte{0x0a, 0x40, 1, 2, 3}, "undecodable(length past the end)"
	case tok == "garbage":
		return patterned(41, 0xee), "garbage"
	case tok == "nil" || tok == "error":
		return nil, tok
	case tok == "none":
		return enc(ids[0]), "late"
	}
	x.fail("unknown getHighestCommonBlock token %q", tok)
	return nil, ""
}

// blocksAnswer: the getBlocksFromId payload.
//
//	honest            all genuine successors of the requested block (at most 100)
//	"" or "-"         a response with no blocks
//	"1,2,3"           offsets relative to the requested block's height in the peer's chain (0 = the requested block)
//	"@4,5"            absolute heights of the peer's chain (heights above its tip: fabricated blocks)
//	...!bad=K         the K-th block served has a state root that does not match execution (correctly signed)
//	...!unsigned=K    the K-th block served carries a 64-byte non-signature
//	...!invalid=K     the K-th block served is statically invalid (transaction root)
//	undecodable / garbage / nil / error / none
func (x *convRun) blocksAnswer(tok string, from []byte) (data []byte, detail string) {
	switch tok {
	case "nil", "error":
		return nil, tok
	case "garbage":
		return patterned(53, 0xd0), tok
	case "undecodable":
		e := (&csync.GetBlocksFromIDResponse{Blocks: []*blockchain.Block{x.base.block(1)}}).Encode()
		return e[:len(e)/2], tok
	}
	base, known := x.base.heightOf(from)
	if !known {
		if h, ok := x.rHeight[string(from)]; ok {
			base, known = h, true
		} else {
			base = x.base.shared
		}
	}
	spec, mods, _ := strings.Cut(tok, "!")
	var heights []int
	switch {
	case spec == "none":
		spec = "honest"
		fallthrough
	case spec == "honest":
		for h := base + 1; h <= x.base.top() && len(heights) < 100; h++ {
			heights = append(heights, h)
		}
	case spec == "" || spec == "-":
	default:
		abs := strings.HasPrefix(spec, "@")
		for _, f := range strings.Split(strings.TrimPrefix(spec, "@"), ",") {
			v, err := strconv.Atoi(strings.TrimSpace(f))
			if err != nil {
				x.fail("bad getBlocksFromId token %q: %v", tok, err)
				return nil, ""
			}
			if !abs {
				v += base
			}
			heights = append(heights, v)
		}
	}
	var out []*blockchain.Block
	var served []int
	for _, h := range heights {
		if b := x.base.block(h); b != nil && len(out) < 120 {
			out = append(out, b)
			served = append(served, h)
		}
	}
	if mods != "" {
		kind, ks, _ := strings.Cut(mods, "=")
		k, err := strconv.Atoi(ks)
		if err != nil || k < 1 {
			x.fail("bad getBlocksFromId modifier in %q", tok)
			return nil, ""
		}
		if k <= len(out) {
			c := node.CloneBlock(out[k-1])
			key := node.KeyByAddr(c.Header.GeneratorAddress)
			switch kind {
			case "bad":
				sr := append([]byte{}, c.Header.StateRoot...)
				if len(sr) > 5 {
					sr[5] ^= 1
				}
				c.Header.StateRoot = sr
				if key != nil {
					node.Resign(c, key)
				}
			case "unsigned":
				c.Header.Signature = patterned(64, 0x33)
				c.Init()
			case "invalid":
				c.Header.TransactionRoot = crypto.Hash([]byte("no such payload"))
				if key != nil {
					node.Resign(c, key)
				}
			default:
				x.fail("bad getBlocksFromId modifier in %q", tok)
				return nil, ""
			}
			out = append(append(append([]*blockchain.Block{}, out[:k-1]...), c), out[k:]...)
		}
	}
	return (&csync.GetBlocksFromIDResponse{Blocks: out}).Encode(), fmt.Sprintf("from %s height %d -> heights %v%s", ifs(known, "known", "unknown"), base, served, ifs(mods != "", " !"+mods, ""))
}

func (x *convRun) fail(format string, a ...any) {
	x.mu.Lock()
	if x.harnessErr == "" {
		x.harnessErr = fmt.Sprintf(format, a...)
	}
	x.mu.Unlock()
}

func (x *convRun) record(proc, key, detail, answer string) {
	x.mu.Lock()
	x.reqs = append(x.reqs, convReq{proc: proc, key: key, detail: detail, answer: answer, at: time.Now()})
	x.mu.Unlock()
}

func (x *convRun) stopPeer(wait bool) {
	x.stopM.Do(func() {
		if x.M == nil {
			return
		}
		if wait {
			x.M.Stop()
		} else {
			go x.M.Stop()
		}
	})
}

func (x *convRun) startPeer(addr string) error {
	x.M = p2p.NewConnection(node.NopLogger(), &p2p.Config{ChainID: node.ChainID, Version: "1.0", Addresses: []string{addr}, MinNumOfConnections: 1, MaxNumOfConnections: 20})
	// the hostile peer does not throttle its victim (production: 100 requests per procedure and 10 s, then silence): a node
	// that asks in a loop is then seen asking, instead of being slowed down to one timed-out request every 3 s
	x.M.VerifSetRateLimitInterval(250 * time.Millisecond)
	reg := func(name string, f p2p.RPCHandler) error { return x.M.RegisterRPCHandler(name, f) }
	if err := reg(csync.RPCEndpointGetLastBlock, func(rw p2p.ResponseWriter, r *p2p.Request) {
		x.mu.Lock()
		k := x.nLast
		x.nLast++
		x.mu.Unlock()
		tok := pick(x.s.Last, k)
		data := x.lastAnswer(tok)
		x.record("getLastBlock", "", fmt.Sprintf("%d bytes", len(data)), tok)
		x.respond(rw, tok, data)
	}); err != nil {
		return err
	}
	if err := reg(csync.RPCEndpointGetHighestCommonBlock, func(rw p2p.ResponseWriter, r *p2p.Request) {
		x.mu.Lock()
		k := x.nCommon
		x.nCommon++
		x.mu.Unlock()
		tok := pick(x.s.Common, k)
		req := &csync.GetHighestCommonBlockRequest{}
		if err := req.Decode(r.Data); err != nil || len(req.IDs) == 0 {
			x.record("getHighestCommonBlock", "", fmt.Sprintf("request does not decode / offers nothing (%v)", err), "error")
			rw.Error(fmt.Errorf("bad request"))
			return
		}
		data, detail := x.commonAnswer(tok, req.IDs)
		hs := make([]int, 0, len(req.IDs))
		for _, id := range req.IDs {
			hs = append(hs, x.rHeight[string(id)])
		}
		x.record("getHighestCommonBlock", "", fmt.Sprintf("offered R heights %v -> %s", hs, detail), tok)
		x.respond(rw, tok, data)
	}); err != nil {
		return err
	}
	if err := reg(csync.RPCEndpointGetBlocksFromID, func(rw p2p.ResponseWriter, r *p2p.Request) {
		x.mu.Lock()
		k := x.nBl
		x.nBl++
		x.mu.Unlock()
		tok := pick(x.s.Blocks, k)
		req := &csync.GetBlocksFromIDRequest{}
		if err := req.Decode(r.Data); err != nil {
			x.record("getBlocksFromId", "", "request does not decode", "error")
			rw.Error(err)
			return
		}
		data, detail := x.blocksAnswer(tok, req.ID)
		x.record("getBlocksFromId", string(req.ID), fmt.Sprintf("%s: %s", hex.EncodeToString([]byte(req.ID)[:min(4, len(req.ID))]), detail), tok)
		rtok := tok
		if strings.HasPrefix(tok, "none") {
			rtok = "none"
		}
		x.respond(rw, rtok, data)
	}); err != nil {
		return err
	}
	return x.M.Start(nil)
}

type convResult struct {
	class     string
	viol      string // oracle violation ("" = none); first word = signature class
	sig       string // signature of a panic
	stuck     bool   // hang verdict, and Executer.process did not even return once the peer was gone
	offer     string // the offered block as R saw it
	kind      string // observed: fast / block / not-asked
	intended  string
	err       error
	reqs      []convReq
	dur       time.Duration
	tip       string
	banned    bool
	inconcl   string
	different bool
}

func (r *convResult) log() string {
	var sb strings.Builder
	for i, q := range r.reqs {
		if i >= 14 && i < len(r.reqs)-6 {
			if i == 14 {
				fmt.Fprintf(&sb, "  ... %d more ...\n", len(r.reqs)-20)
			}
			continue
		}
		fmt.Fprintf(&sb, "  #%d +%dms %s [%s] answer %q\n", i+1, q.at.Sub(r.reqs[0].at).Milliseconds(), q.proc, q.detail, q.answer)
	}
	return sb.String()
}

func buildConvVictim(s *convScript, base *convBase, addr string) (*node.Node, error) {
	R, err := node.New(node.Config{Genesis: node.EqualGenesis(s.NVal), BatchSize: s.NVal, ListenAddr: addr, GenesisTS: base.genesisTS})
	if err != nil {
		return nil, err
	}
	for h := 1; h <= s.Shared; h++ {
		if err := R.Exec.VerifProcess(node.CloneBlock(base.block(h)), "x"); err != nil {
			R.Close()
			return nil, fmt.Errorf("shared block %d: %w", h, err)
		}
	}
	for i := 0; i < s.ForkR; i++ {
		if _, err := R.Apply(node.Spec{SlotGap: 2, Script: node.Script{Salt: 50 + uint32(i)}}); err != nil {
			R.Close()
			return nil, fmt.Errorf("own block %d: %w", i+1, err)
		}
	}
	if got := int(R.Tip().Header.Height); got != s.Shared+s.ForkR {
		R.Close()
		return nil, fmt.Errorf("victim is at height %d, expected %d", got, s.Shared+s.ForkR)
	}
	return R, nil
}

func normConv(s *convScript) {
	clamp := func(v *int, lo, hi int) {
		if *v < lo {
			*v = lo
		}
		if *v > hi {
			*v = hi
		}
	}
	s.Conv = 1
	clamp(&s.NVal, 1, 8)
	clamp(&s.Shared, 0, 40)
	clamp(&s.ForkR, 0, 20)
	clamp(&s.ForkP, 0, 40)
	clamp(&s.Gen, 0, node.PoolSize-1)
	clamp(&s.DH, -100, 1000)
	clamp(&s.DM, 0, 1000)
	if s.Shared+s.ForkP == 0 {
		s.ForkP = 1
	}
}

// runConv executes one scenario. error = the scenario could not be set up (environment / harness), never a verdict.
func runConv(s *convScript) (*convResult, error) {
	normConv(s)
	base := getConvBase(s.NVal, s.Shared, s.ForkP)
	if base.err != nil {
		return nil, fmt.Errorf("peer chain: %w", base.err)
	}
	rAddr, mAddr := convAddrs()
	R, err := buildConvVictim(s, base, rAddr)
	if err != nil {
		return nil, fmt.Errorf("victim node: %w", err)
	}
	x := &convRun{s: s, base: base, R: R, rHeight: map[string]int{}, release: make(chan struct{})}
	rClosed := false
	defer func() {
		close(x.release)
		if !rClosed {
			R.Close()
		}
		x.stopPeer(false)
	}()
	for h := 0; h <= s.Shared+s.ForkR; h++ {
		hd, err := R.Chain.DataAccess().GetBlockHeaderByHeight(uint32(h))
		if err != nil {
			return nil, fmt.Errorf("victim header %d: %w", h, err)
		}
		x.rIDs = append(x.rIDs, hd.ID)
		x.rHeight[string(hd.ID)] = h
	}
	x.fin = R.Finalized()
	x.rTip = node.CloneBlock(R.Tip())
	if s.Offer == "ptip" {
		x.offer = node.CloneBlock(base.block(base.top()))
	} else {
		x.offer = x.fabricate(s.DH, s.DM, s.Gen, s.Signed)
	}
	res := &convResult{}
	res.offer = fmt.Sprintf("%s: height %d, maxHeightPrevoted %d, generator %s, %s", ifs(s.Offer == "ptip", "the genuine tip of its chain", "fabricated"), x.offer.Header.Height, x.offer.Header.MaxHeightPrevoted,
		ifs(node.KeyByAddr(x.offer.Header.GeneratorAddress) != nil && node.KeyByAddr(x.offer.Header.GeneratorAddress).Index < s.NVal, "an active validator", "not a validator"), ifs(s.Offer == "ptip" || s.Signed, "signed", "not signed"))
	tip0 := R.Tip().Header
	res.different = forkchoice.IsDifferentChain(tip0.MaxHeightPrevoted, x.offer.Header.MaxHeightPrevoted, tip0.Height, x.offer.Header.Height) &&
		!(tip0.Height+1 == x.offer.Header.Height && bytes.Equal(tip0.ID, x.offer.Header.PreviousBlockID)) && !bytes.Equal(tip0.ID, x.offer.Header.ID)
	active := false
	for i := 0; i < s.NVal; i++ {
		active = active || bytes.Equal(node.Keys()[i].Addr, x.offer.Header.GeneratorAddress)
	}
	dh := int(x.offer.Header.Height) - int(tip0.Height)
	if dh < 0 {
		dh = -dh
	}
	switch {
	case !res.different:
		res.intended = "no-sync"
	case dh <= 2*s.NVal && active:
		res.intended = "fast"
	default:
		res.intended = "block"
	}
	if err := x.startPeer(mAddr); err != nil {
		return nil, fmt.Errorf("scripted peer: %w", err)
	}
	info, err := addrInfoOf(x.M)
	if err == nil {
		ctx, cancel := context.WithTimeout(context.Background(), 20*time.Second)
		err = R.Conn.Connect(ctx, *info)
		cancel()
	}
	if err != nil {
		return nil, fmt.Errorf("connect to the scripted peer: %w", err)
	}

	// --- the conversation
	type fin struct {
		err   error
		panic string
		stack string
	}
	done := make(chan fin, 1)
	t0 := time.Now()
	go func() {
		var f fin
		defer func() {
			if r := recover(); r != nil {
				f.panic, f.stack = fmt.Sprint(r), string(debug.Stack())
			}
			done <- f
		}()
		wire, err := blockchain.NewBlock(x.offer.Encode()) // as it arrives
		if err != nil {
			f.err = fmt.Errorf("harness: offer does not decode: %w", err)
			return
		}
		f.err = R.Exec.VerifProcess(wire, x.M.ID())
	}()
	maxReq := 12 + base.top() + convFabMax + len(x.rIDs) + dlExtra
	var f fin
	ended := false
	tick := time.NewTicker(20 * time.Millisecond)
	defer tick.Stop()
	for res.viol == "" && !ended {
		select {
		case f = <-done:
			ended = true
		case <-tick.C:
			x.mu.Lock()
			n := len(x.reqs)
			same := 0
			for i := n - 1; i >= 0 && x.reqs[i].proc == "getBlocksFromId" && x.reqs[i].key == x.reqs[n-1].key; i-- {
				same++
			}
			lastAt := t0
			if n > 0 {
				lastAt = x.reqs[n-1].at
			}
			x.mu.Unlock()
			switch {
			case same >= convSameLimit:
				res.viol = fmt.Sprintf("hang: the last %d requests all asked for the blocks after the same ID (no progress) and Executer.process is still running", same)
			case n > maxReq:
				res.viol = fmt.Sprintf("hang: %d requests to a peer that can serve %d heights at most (every download answer has to advance by one height; the other procedures are asked at most 5 times per round) and Executer.process is still running", n, base.top()+convFabMax)
			case time.Since(lastAt) > dlIdle:
				res.viol = fmt.Sprintf("hang: Executer.process neither returned nor sent a request for %v; goroutines inside the sync package:\n%s", dlIdle, syncGoroutines())
			}
		}
	}
	if !ended {
		// the harness ends it by taking the peer away (every further request fails)
		x.stopPeer(true)
		select {
		case f = <-done:
		case <-time.After(10 * time.Second):
			res.stuck = true
		}
	}
	tRet := time.Now()
	res.dur = tRet.Sub(t0)
	res.err = f.err
	snapshot := func() {
		x.mu.Lock()
		res.reqs = append([]convReq{}, x.reqs...)
		x.mu.Unlock()
	}
	snapshot()
	res.kind = "not-asked"
	if len(res.reqs) > 0 {
		res.kind = map[string]string{"getLastBlock": "block", "getHighestCommonBlock": "fast", "getBlocksFromId": "download-first?"}[res.reqs[0].proc]
	}
	x.mu.Lock()
	herr := x.harnessErr
	x.mu.Unlock()
	if herr != "" {
		return nil, fmt.Errorf("harness: %s", herr)
	}
	if f.err != nil && strings.HasPrefix(f.err.Error(), "harness:") {
		return nil, f.err
	}
	if res.viol != "" {
		res.class = "hang"
		return res, nil
	}
	if f.panic != "" {
		res.class = "panic"
		res.sig = "panic:" + convTarget + ":" + panicSite(f.stack)
		res.viol = fmt.Sprintf("panic: Executer.process (-> Syncer.Sync) panicked on the answers of a peer - in the node this is the consensus goroutine, which has no recover: %s\n%s", f.panic, trimStack(f.stack))
		return res, nil
	}

	// --- afterwards
	tip1 := R.Tip().Header
	switch {
	case bytes.Equal(tip1.ID, tip0.ID):
		res.tip = "unchanged"
	case bytes.Equal(tip1.ID, base.block(base.top()).Header.ID):
		res.tip = "peer-tip"
	case x.rHeight[string(tip1.ID)] > 0 || bytes.Equal(tip1.ID, x.rIDs[0]):
		res.tip = "cut-back"
	default:
		if _, ok := base.byID[string(tip1.ID)]; ok {
			res.tip = "on-peer-chain"
		} else {
			res.tip = "other"
		}
	}
	res.banned = len(R.Conn.VerifBannedIPs()) > 0
	// (d) alive: the next honest block on whatever the tip is now
	fresh, _, err := buildValidSuccessor(R, node.Spec{Script: node.Script{Salt: 77, EvAfter: 1}, Txs: []*blockchain.Transaction{node.MakeTx(12, 1<<40, 3, node.TxOK, 1, 4)}})
	if err != nil {
		res.class, res.viol = "wedged", fmt.Sprintf("wedged: after the conversation (process returned %v, tip %s at height %d) the state needed to build the next block cannot be read: %v", f.err, res.tip, tip1.Height, err)
		return res, nil
	}
	if err := R.Exec.VerifProcess(node.CloneBlock(fresh), "peer"); err != nil || !bytes.Equal(R.Tip().Header.ID, fresh.Header.ID) {
		res.class, res.viol = "wedged", fmt.Sprintf("wedged: after the conversation (process returned %v, tip %s at height %d) the node does not process a fresh valid block any more: err=%v (fresh header %+v)", f.err, res.tip, tip1.Height, err, *fresh.Header)
		return res, nil
	}
	// (e) still serving honest peers
	if msg, inconcl := convWitness(R); msg != "" {
		if inconcl {
			res.inconcl = msg
		} else {
			res.class, res.viol = "unresponsive", "unresponsive: "+msg
			return res, nil
		}
	}
	// (c) nothing left running
	x.mu.Lock()
	nb := x.nBl
	x.mu.Unlock()
	if nb > 0 {
		// the Downloader paces itself at 10 requests per second: one that is still running shows within 100 ms + a round trip
		if d := 160*time.Millisecond - time.Since(tRet); d > 0 {
			time.Sleep(d)
		}
		late := func(after time.Duration) int {
			x.mu.Lock()
			defer x.mu.Unlock()
			n := 0
			for _, q := range x.reqs {
				if q.at.After(tRet.Add(after)) {
					n++
				}
			}
			return n
		}
		if late(50*time.Millisecond) > 0 {
			time.Sleep(1500 * time.Millisecond)
			if n := late(500 * time.Millisecond); n >= 3 {
				snapshot()
				res.class, res.viol = "left-running", fmt.Sprintf("left-running: Executer.process returned (%v) but the node keeps requesting: %d requests arrived later than 500 ms after the return", f.err, n)
				return res, nil
			}
		}
	}
	snapshot()
	switch {
	case len(res.reqs) == 0:
		res.class = "peer-never-asked"
	case f.err == nil:
		res.class = "returned-nil"
	default:
		res.class = "returned-error"
	}
	R.Close()
	rClosed = true
	return res, nil
}

// ---------------------------------------------------------------------------------------------------------------------
// the honest witness

var (
	witnessMu   sync.Mutex
	witnessConn *p2p.Connection
	witnessErr  error
)

func getWitness() (*p2p.Connection, error) {
	witnessMu.Lock()
	defer witnessMu.Unlock()
	if witnessConn != nil || witnessErr != nil {
		return witnessConn, witnessErr
	}
	sh, _ := shard()
	c := p2p.NewConnection(node.NopLogger(), &p2p.Config{ChainID: node.ChainID, Version: "1.0", Addresses: []string{fmt.Sprintf("/ip4/127.83.%d.1/tcp/0", sh%250)}, MinNumOfConnections: 1, MaxNumOfConnections: 200})
	for _, name := range []string{csync.RPCEndpointGetLastBlock, csync.RPCEndpointGetHighestCommonBlock, csync.RPCEndpointGetBlocksFromID} {
		if err := c.RegisterRPCHandler(name, func(rw p2p.ResponseWriter, r *p2p.Request) { rw.Write(nil) }); err != nil {
			witnessErr = err
			return nil, err
		}
	}
	if err := c.Start(nil); err != nil {
		witnessErr = err
		return nil, err
	}
	witnessConn = c
	return c, nil
}

// askHonestly: W connects to n and asks the three sync procedures; "" = all three answered with n's tip.
func askHonestly(n *node.Node) string {
	W, err := getWitness()
	if err != nil {
		return "witness cannot be started: " + err.Error()
	}
	info, err := addrInfoOf(n.Conn)
	if err != nil {
		return "node has no address: " + err.Error()
	}
	ctx, cancel := context.WithTimeout(context.Background(), 10*time.Second)
	defer cancel()
	if err := W.Connect(ctx, *info); err != nil {
		return "connect: " + err.Error()
	}
	defer W.Disconnect(n.Conn.ID())
	tip := n.Tip().Header
	r1 := W.RequestFrom(ctx, n.Conn.ID(), csync.RPCEndpointGetLastBlock, nil)
	if r1.Error() != nil {
		return "getLastBlock: " + r1.Error().Error()
	}
	b, err := blockchain.NewBlock(r1.Data())
	if err != nil || !bytes.Equal(b.Header.ID, tip.ID) {
		return fmt.Sprintf("getLastBlock: answer is not the tip (decode error %v)", err)
	}
	r2 := W.RequestFrom(ctx, n.Conn.ID(), csync.RPCEndpointGetHighestCommonBlock, (&csync.GetHighestCommonBlockRequest{IDs: [][]byte{crypto.Hash([]byte("unknown")), tip.ID, n.Genesis.Header.ID}}).Encode())
	if r2.Error() != nil {
		return "getHighestCommonBlock: " + r2.Error().Error()
	}
	cr := &csync.GetHighestCommonBlockResponse{}
	if err := cr.Decode(r2.Data()); err != nil || !bytes.Equal(cr.ID, tip.ID) {
		return fmt.Sprintf("getHighestCommonBlock: answer is not the tip (decode error %v, id %x)", err, cr.ID)
	}
	if tip.Height > n.Genesis.Header.Height {
		r3 := W.RequestFrom(ctx, n.Conn.ID(), csync.RPCEndpointGetBlocksFromID, (&csync.GetBlocksFromIDRequest{ID: tip.PreviousBlockID}).Encode())
		if r3.Error() != nil {
			return "getBlocksFromId: " + r3.Error().Error()
		}
		br := &csync.GetBlocksFromIDResponse{}
		if err := br.Decode(r3.Data()); err != nil || len(br.Blocks) == 0 {
			return fmt.Sprintf("getBlocksFromId: no blocks after the parent of the tip (decode error %v)", err)
		}
	}
	return ""
}

// convWitness returns ("", false) if R serves an honest peer; (msg, false) = violation; (msg, true) = no verdict.
func convWitness(R *node.Node) (string, bool) {
	var last string
	for try := 0; try < 3; try++ {
		if last = askHonestly(R); last == "" {
			return "", false
		}
		time.Sleep(time.Duration(1+try) * time.Second)
	}
	// control: a node that never met the hostile peer
	rAddr, _ := convAddrs()
	C, err := node.New(node.Config{Genesis: node.EqualGenesis(3), BatchSize: 3, ListenAddr: rAddr})
	if err != nil {
		return "control node cannot be built: " + err.Error(), true
	}
	defer C.Close()
	if _, err := C.Apply(node.Spec{}); err != nil {
		return "control node cannot apply a block: " + err.Error(), true
	}
	if msg := askHonestly(C); msg != "" {
		return fmt.Sprintf("a fresh honest peer gets no answer from the node after the conversation (%s), but not from an untouched control node either (%s)", last, msg), true
	}
	return fmt.Sprintf("after the conversation the node no longer serves a fresh honest peer (3 attempts, last: %s) while an untouched control node answers the same peer", last), false
}

// ---------------------------------------------------------------------------------------------------------------------
// oracle + evidence

func tokClass(tok string) string {
	if tok == "" || tok == "-" {
		return "no-blocks"
	}
	mod := ""
	if head, m, ok := strings.Cut(tok, "!"); ok {
		tok, mod = head, "!"+strings.SplitN(m, "=", 2)[0]
	}
	if c := tok[0]; c == '@' || c == '-' || (c >= '0' && c <= '9') {
		return "heights" + mod
	}
	if i := strings.IndexAny(tok, "+0123456789"); i > 0 {
		tok = tok[:i]
	}
	return tok + mod
}

// checkConv runs one scenario and applies the oracle; safe for concurrent use. Returns the result class and, for a
// violation, the message to fail with ("" otherwise).
func checkConv(s *convScript) (cls string, failure string, res *convResult) {
	res, err := runConv(s)
	js := s.json()
	if err != nil {
		if strings.HasPrefix(err.Error(), "harness:") {
			return "harness", "harness error (not a verdict about the engine): " + err.Error() + "\nscript: " + js, nil
		}
		evid.R.Inconclusive("hostile sync conversation %s cannot be set up: %v", s.Name, err)
		return "no-setup", "", nil
	}
	if res.inconcl != "" {
		evid.R.Inconclusive("hostile sync conversation %s: %s", s.Name, res.inconcl)
	}
	labels := []string{"t:" + convTarget, "t:" + convTarget + "/" + res.class, "g:conv-" + convGroup(s.Name)}
	if res.viol != "" {
		sig := "oracle:" + convTarget + ":" + firstWord(res.viol)
		if res.sig != "" {
			sig = res.sig
		}
		if knownFinding(sig) {
			evid.R.Excluded(1)
			evid.R.Case("conv|"+js, false, nil, "t:"+convTarget, "t:"+convTarget+"/known-"+res.class, "g:conv-"+convGroup(s.Name))
			return "known-" + res.class, "", res
		}
		msg := fmt.Sprintf("C09 %s: target %s, signature %q: %s\nThe peer offered a block (%s; the node's tip: height %d) and answered the node's sync requests as scripted; intended sync kind %s, observed %s; process ran %v, returned err=%v.\nrequest log (%d requests):\n%sscript (replay: VERIF_REPLAY_CASE=<file with this JSON>): %s",
			res.class, convTarget, sig, res.viol, res.offer, s.Shared+s.ForkR, res.intended, res.kind, res.dur.Round(time.Millisecond), res.err, len(res.reqs), res.log(), js)
		if res.stuck {
			// the call is still running 10 s after the peer was taken away and nothing can end it (the engine's callers pass no
			// cancellable context): like the watchdog of the in-process targets, report and leave - the goroutine may spin forever
			p := evid.R.FailCase("conversation-hang", s)
			fmt.Printf("--- FAIL: %s\nExecuter.process did not return within 10 s after the peer was stopped; the test process ends here (case file %s)\n", msg, p)
			evid.R.Flush()
			os.Exit(1)
		}
		return res.class, msg, res
	}
	nreq := len(res.reqs)
	evid.R.Case("conv|"+js, nreq > 0, func() any {
		return map[string]any{"kind": "hostile-sync-conversation", "script": s, "sync": res.kind, "requests": nreq, "err": fmt.Sprint(res.err), "tip": res.tip, "ms": res.dur.Milliseconds()}
	}, labels...)
	evid.R.Label("conv-sync-kind:"+res.kind+ifs(res.kind != res.intended && res.kind != "not-asked", "(intended "+res.intended+")", ""), 1)
	evid.R.Label("conv-offer:"+s.Offer+ifs(s.Offer == "fab", ifs(s.Signed, "-signed", "-unsigned")+ifs(s.Gen < s.NVal, "-active-generator", "-outsider-generator"), ""), 1)
	evid.R.Label("conv-requests:"+bucket(nreq), 1)
	evid.R.Label("conv-tip-afterwards:"+res.tip, 1)
	evid.R.Label("conv-peer-banned(label only):"+ifs(res.banned, "yes", "no"), 1)
	seen := map[string]bool{}
	for _, q := range res.reqs {
		l := "conv-answer:" + q.proc + ":" + res.kind + ":" + tokClass(q.answer)
		if !seen[l] {
			seen[l] = true
			evid.R.Label(l, 1)
		}
		if q.proc == "getHighestCommonBlock" && strings.HasPrefix(q.detail, "offered") {
			if i := strings.Index(q.detail, "-> not-offered"); i >= 0 && !seen["no"] {
				seen["no"] = true
				evid.R.Label("conv-common-block-not-among-the-offered:"+res.kind, 1)
			}
		}
	}
	if res.err != nil {
		evid.R.Label("conv-error:"+res.kind+":"+firstN(convErrClass(res.err.Error()), 80), 1)
	}
	return res.class, "", res
}

var (
	convPeerRe = regexp.MustCompile(`(12D3KooW|Qm)[1-9A-HJ-NP-Za-km-z]{20,}`)
	convHexRe  = regexp.MustCompile(`[0-9a-f]{16,}`)
	convNumRe  = regexp.MustCompile(`[0-9]+`)
)

// convErrClass strips what differs from run to run (peer IDs, block IDs, numbers) from an error text.
func convErrClass(e string) string {
	return convNumRe.ReplaceAllString(convHexRe.ReplaceAllString(convPeerRe.ReplaceAllString(e, "<peer>"), "<hex>"), "#")
}

// convGroup: the scenario family of a catalogue name (the answer token at its end removed).
func convGroup(name string) string {
	for _, kw := range []string{"-common-sequence", "-common", "-last-poll", "-last-validate", "-last-always", "-blocks", "-all-hostile"} {
		if i := strings.Index(name, kw); i >= 0 {
			return name[:i+len(kw)]
		}
	}
	return name
}

// ---------------------------------------------------------------------------------------------------------------------
// catalogue

type convCfg struct{ nVal, shared, forkR, forkP int }

var (
	convFastA  = convCfg{4, 12, 2, 5}  // ptip: 3 ahead of R's tip, two rounds = 8 -> fast sync; R has a fork of 2 to delete; finalized > 0
	convBlockB = convCfg{3, 9, 0, 10}  // ptip: 10 ahead, two rounds = 6 -> block sync; R sits on the fork point
	convBlockC = convCfg{4, 14, 3, 13} // ptip: 10 ahead, two rounds = 8 -> block sync; R has a fork of 3
	convShortD = convCfg{5, 3, 1, 4}   // short chains: genesis is among the offered IDs, nothing finalized -> fast sync
)

func (c convCfg) script(name, offer string, last, common, blocks []string) *convScript {
	return &convScript{Conv: 1, Name: name, NVal: c.nVal, Shared: c.shared, ForkR: c.forkR, ForkP: c.forkP, Offer: offer, Last: last, Common: common, Blocks: blocks}
}

func (s *convScript) fab(dh, dm, gen int, signed bool) *convScript {
	s.Offer, s.DH, s.DM, s.Gen, s.Signed = "fab", dh, dm, gen, signed
	return s
}

var (
	convCommonToks = []string{"honest", "first", "last", "mid", "random", "unoffered-own", "genesis", "finalized", "below-finalized", "peer-only", "offer",
		"empty", "nil", "short", "long", "one", "undecodable", "garbage", "error", "none"}
	convLastToks = []string{"ptip", "offer", "rtip", "genesis", "shared", "low", "fab+0+0", "fab+30+0", "fab+1+5", "fabhuge", "invalid", "invalid-sig", "huge",
		"undecodable", "garbage", "empty", "nil", "error", "none"}
	convBlockToks = [][]string{{"honest"}, {"1"}, {"0"}, {""}, {"1,2", "0"}, {"1,2", ""}, {"3,2,1"}, {"1,1"}, {"-1"}, {"2,4"}, {"@1,2"}, {"0,1,2"},
		{"1,2!bad=1"}, {"1,2,3!bad=3"}, {"honest!bad=2"}, {"1,2!unsigned=2"}, {"1!invalid=1"}, {"1,2,3!invalid=3"},
		{"1,2,3,4,5,6,7,8,9,10,11,12,13,14,15,16,17,18,19,20,21,22,23,24"}, {"1", "1", "1,2,3,4,5,6,7,8,9,10,11,12,13,14,15,16,17,18,19,20,21,22,23,24,25,26,27,28,29,30"},
		{"undecodable"}, {"garbage"}, {"error"}, {"nil"}, {"none"}, {"1,2", "none"}, {"1", "undecodable"}, {"1", "error"}}
)

func convCatalogue() []*convScript {
	var out []*convScript
	honestL, honestC, honestB := []string{"ptip"}, []string{"honest"}, []string{"honest"}
	slow := func(toks ...string) bool {
		for _, t := range toks {
			if strings.HasPrefix(t, "none") {
				return true
			}
		}
		return false
	}
	quick := !evid.Thorough()
	// getHighestCommonBlock: every answer, both sync kinds
	for _, c := range convCommonToks {
		out = append(out, convFastA.script("fast-common-"+c, "ptip", honestL, []string{c}, honestB))
		out = append(out, convFastA.script("fast-unsigned-offer-common-"+c, "", honestL, []string{c}, honestB).fab(0, 1, 0, false))
		if !(quick && slow(c)) {
			out = append(out, convShortD.script("fast-short-chain-common-"+c, "", honestL, []string{c}, honestB).fab(2, 0, 1, false))
			out = append(out, convFastA.script("fast-lower-offer-common-"+c, "", honestL, []string{c}, []string{"1"}).fab(-3, 2, 3, true))
		}
		out = append(out, convBlockB.script("block-common-"+c, "ptip", honestL, []string{c}, honestB))
		if !(quick && slow(c)) {
			out = append(out, convBlockC.script("block-own-fork-common-"+c, "ptip", honestL, []string{c}, honestB))
			out = append(out, convBlockC.script("block-outsider-offer-common-"+c, "", honestL, []string{c}, honestB).fab(1, 1, 9, false))
		}
	}
	// a different answer each time (block sync asks up to three times after an empty answer)
	for i, seq := range [][]string{{"empty", "empty", "honest"}, {"empty", "empty", "empty"}, {"empty", "random"}, {"nil", "below-finalized"}, {"empty", "nil", "unoffered-own"},
		{"empty", "short"}, {"empty", "empty", "undecodable"}, {"empty", "error"}, {"nil", "nil", "genesis"}, {"empty", "peer-only"}} {
		out = append(out, convBlockC.script(fmt.Sprintf("block-common-sequence-%d", i), "ptip", honestL, seq, honestB))
		out = append(out, convFastA.script(fmt.Sprintf("fast-common-sequence-%d", i), "ptip", honestL, seq, honestB))
	}
	// getLastBlock (block sync only): first answer = what the node polls, second = what it validates
	for _, l := range convLastToks {
		out = append(out, convBlockB.script("block-last-poll-"+l, "ptip", []string{l, "ptip"}, honestC, honestB))
		out = append(out, convBlockB.script("block-last-validate-"+l, "ptip", []string{"ptip", l}, honestC, honestB))
		if !(quick && slow(l)) {
			out = append(out, convBlockC.script("block-last-always-"+l, "", []string{l}, honestC, honestB).fab(40, 0, 0, false))
		}
	}
	// getBlocksFromId scripts inside the whole conversation
	for i, b := range convBlockToks {
		name := fmt.Sprintf("blocks-%d-%s", i, tokClass(b[len(b)-1]))
		out = append(out, convFastA.script("fast-"+name, "ptip", honestL, honestC, b))
		if !(quick && slow(b...)) {
			out = append(out, convBlockB.script("block-"+name, "ptip", honestL, honestC, b))
		}
		out = append(out, convBlockC.script("block-own-fork-"+name, "ptip", honestL, honestC, b))
		// the peer lies about the common block (names R's tip), then serves
		if !(quick && slow(b...)) {
			out = append(out, convFastA.script("fast-common-first-"+name, "ptip", honestL, []string{"first"}, b))
		}
	}
	// combinations: everything hostile at once
	out = append(out,
		convBlockC.script("block-all-hostile-1", "ptip", []string{"fab+30+3", "fab+30+3"}, []string{"empty", "finalized"}, []string{"1", "0"}),
		convBlockC.script("block-all-hostile-2", "ptip", []string{"fabhuge", "fabhuge"}, []string{"mid"}, []string{"1,2", "1!bad=1"}),
		convBlockB.script("block-all-hostile-3", "ptip", []string{"ptip", "huge"}, []string{"genesis"}, []string{"honest!unsigned=4"}),
		convFastA.script("fast-all-hostile-1", "", honestL, []string{"mid"}, []string{"1", "1", "0"}).fab(8, 1, 2, false),
		convFastA.script("fast-all-hostile-2", "", honestL, []string{"finalized"}, []string{"1,2,3,4,5,6,7,8,9,10,11,12"}).fab(-8, 7, 1, true),
		convShortD.script("fast-all-hostile-3", "", honestL, []string{"genesis"}, []string{"1,2!bad=2"}).fab(10, 0, 4, false),
	)
	return out
}

// TestSyncConversationHostilePeers: the enumerated catalogue, convWorkers scenarios at a time (each has its own nodes).
func TestSyncConversationHostilePeers(t *testing.T) {
	// generator guard: the honest conversations must move R onto the peer's tip, otherwise the scripted peer is not reachable
	// (or the scenario is broken) and nothing below would mean anything
	for _, h := range []*convScript{
		convFastA.script("honest-fast", "ptip", []string{"ptip"}, []string{"honest"}, []string{"honest"}),
		convBlockB.script("honest-block", "ptip", []string{"ptip"}, []string{"honest"}, []string{"honest"}),
		convBlockC.script("honest-block-own-fork", "ptip", []string{"ptip"}, []string{"honest"}, []string{"honest"}),
	} {
		ok, why := false, ""
		for try := 0; try < 3 && !ok; try++ {
			cls, failure, res := checkConv(h)
			if failure != "" {
				evid.R.FailCase("conversation", h)
				t.Fatalf("%s", failure)
			}
			want := ifs(strings.HasPrefix(h.Name, "honest-fast"), "fast", "block")
			ok = res != nil && cls == "returned-nil" && res.tip == "peer-tip" && res.kind == want
			if !ok {
				why = fmt.Sprintf("class %s", cls)
				if res != nil {
					why = fmt.Sprintf("class %s, sync kind %s (want %s), tip afterwards %s, err %v\n%s", cls, res.kind, want, res.tip, res.err, res.log())
				}
				time.Sleep(2 * time.Second)
			}
		}
		if !ok {
			evid.R.Inconclusive("hostile sync conversations: the honest conversation %s did not move the node onto the peer's tip (%s); test skipped", h.Name, firstLines(why, 1))
			t.Logf("skipping: honest conversation %s does not get through: %s", h.Name, why)
			return
		}
	}
	scripts := convCatalogue()
	sh, nsh := shard()
	var mine []*convScript
	for i, s := range scripts {
		if i%nsh == sh {
			mine = append(mine, s)
		}
	}
	// the slow ones (late answers: 3 s each) first, so that they overlap with the rest
	sort.SliceStable(mine, func(i, j int) bool {
		return strings.Contains(mine[i].json(), `"none`) && !strings.Contains(mine[j].json(), `"none`)
	})
	type outc struct {
		s       *convScript
		cls     string
		failure string
		kind    string
	}
	results := make([]outc, len(mine))
	var wg sync.WaitGroup
	var failed atomic.Bool
	next := make(chan int)
	for w := 0; w < convWorkers; w++ {
		wg.Add(1)
		go func() {
			defer wg.Done()
			for i := range next {
				if failed.Load() {
					results[i] = outc{s: mine[i], cls: "not-run(after a failure)"}
					continue
				}
				cls, failure, res := checkConv(mine[i])
				results[i] = outc{s: mine[i], cls: cls, failure: failure}
				if failure != "" {
					failed.Store(true)
				}
				if res != nil {
					results[i].kind = res.kind
				}
			}
		}()
	}
	for i := range mine {
		next <- i
	}
	close(next)
	wg.Wait()
	counts, kinds := map[string]int{}, map[string]int{}
	for _, r := range results {
		counts[r.cls]++
		kinds[r.kind]++
	}
	for _, r := range results {
		if r.failure != "" {
			p := evid.R.FailCase("conversation", r.s)
			t.Fatalf("%s\n(case file %s)", r.failure, p)
		}
	}
	t.Logf("%d scenarios: classes %v, observed sync kinds %v", len(mine), counts, kinds)
	if counts["no-setup"] == 0 && nsh == 1 {
		if kinds["fast"] < 40 || kinds["block"] < 40 {
			t.Errorf("harness guard: the catalogue must trigger both sync kinds (fast %d, block %d)", kinds["fast"], kinds["block"])
		}
		if counts["returned-nil"] < 5 || counts["returned-error"] < 40 {
			t.Errorf("harness guard: outcome classes starved: %v", counts)
		}
	}
}

// TestSyncConversationRandom: rapid-drawn scenarios.
func TestSyncConversationRandom(t *testing.T) {
	cfgs := []convCfg{convFastA, convBlockB, convBlockC, convShortD, {3, 6, 1, 3}, {5, 11, 0, 6}, {4, 2, 0, 12}, {3, 16, 4, 9}}
	drawTok := func(t *rapid.T, toks []string, label string) string {
		for {
			tok := rapid.SampledFrom(toks).Draw(t, label)
			// late answers cost 3 s each: keep them rare
			if tok != "none" || rapid.IntRange(0, 9).Draw(t, label+"-late") == 0 {
				return tok
			}
		}
	}
	rapid.Check(t, func(t *rapid.T) {
		s := &convScript{Conv: 1, Name: "random"}
		c := rapid.SampledFrom(cfgs).Draw(t, "cfg")
		if rapid.IntRange(0, 4).Draw(t, "free") == 0 {
			c = convCfg{rapid.IntRange(3, 5).Draw(t, "nVal"), rapid.IntRange(0, 16).Draw(t, "shared"), rapid.IntRange(0, 4).Draw(t, "forkR"), rapid.IntRange(1, 14).Draw(t, "forkP")}
		}
		s.NVal, s.Shared, s.ForkR, s.ForkP = c.nVal, c.shared, c.forkR, c.forkP
		if rapid.IntRange(0, 2).Draw(t, "offerKind") == 0 {
			s.Offer = "ptip"
		} else {
			s.Offer = "fab"
			switch rapid.IntRange(0, 3).Draw(t, "offerShape") {
			case 0: // within two rounds, better maxHeightPrevoted, active validator: fast sync
				s.DH, s.DM, s.Gen = rapid.IntRange(-2*c.nVal, 2*c.nVal).Draw(t, "dh"), rapid.IntRange(1, 4).Draw(t, "dm"), rapid.IntRange(0, c.nVal-1).Draw(t, "gen")
			case 1: // same maxHeightPrevoted, higher
				s.DH, s.DM, s.Gen = rapid.IntRange(1, 2*c.nVal).Draw(t, "dh"), 0, rapid.IntRange(0, c.nVal-1).Draw(t, "gen")
			case 2: // far ahead: block sync
				s.DH, s.DM, s.Gen = rapid.IntRange(2*c.nVal+1, 60).Draw(t, "dh"), rapid.IntRange(0, 3).Draw(t, "dm"), rapid.IntRange(0, c.nVal-1).Draw(t, "gen")
			default: // anything, any generator
				s.DH, s.DM, s.Gen = rapid.IntRange(-20, 40).Draw(t, "dh"), rapid.IntRange(0, 30).Draw(t, "dm"), rapid.IntRange(0, node.PoolSize-1).Draw(t, "gen")
			}
			s.Signed = rapid.Bool().Draw(t, "signed")
		}
		// honest answers are frequent, so that the later steps of the conversation (validation of the announced tip, common
		// block, deletion, download) are reached with something hostile still to come
		honestFirst := func(label string, honest string, toks []string, max, honestOf6 int) []string {
			var out []string
			n := rapid.IntRange(1, max).Draw(t, label+"-n")
			for i := 0; i < n; i++ {
				if rapid.IntRange(0, 5).Draw(t, fmt.Sprintf("%s-honest%d", label, i)) < honestOf6 {
					out = append(out, honest)
				} else {
					out = append(out, drawTok(t, toks, fmt.Sprintf("%s%d", label, i)))
				}
			}
			return out
		}
		s.Last = honestFirst("last", "ptip", convLastToks, 2, 4)
		s.Common = honestFirst("common", "honest", append([]string{"random2", "random3"}, convCommonToks...), 3, 3)
		nb := rapid.IntRange(1, 3).Draw(t, "blocks-n")
		for i := 0; i < nb; i++ {
			var a string
			switch rapid.IntRange(0, 9).Draw(t, fmt.Sprintf("bshape%d", i)) {
			case 0, 1, 2:
				a = "honest"
			case 3:
				a = drawTok(t, []string{"undecodable", "garbage", "error", "nil", "none", ""}, fmt.Sprintf("bwhole%d", i))
			case 4, 5:
				var hs []string
				for _, v := range seq(1, rapid.IntRange(1, 4).Draw(t, fmt.Sprintf("brun%d", i))) {
					hs = append(hs, strconv.Itoa(v))
				}
				a = strings.Join(hs, ",")
			default:
				var hs []string
				for _, v := range rapid.SliceOfN(rapid.IntRange(-2, 8), 1, 6).Draw(t, fmt.Sprintf("boffs%d", i)) {
					hs = append(hs, strconv.Itoa(v))
				}
				a = strings.Join(hs, ",")
			}
			if a != "" && !strings.ContainsAny(a[:1], "ugen") && rapid.IntRange(0, 3).Draw(t, fmt.Sprintf("bmod%d", i)) == 0 {
				a += "!" + rapid.SampledFrom([]string{"bad", "unsigned", "invalid"}).Draw(t, fmt.Sprintf("bmodkind%d", i)) + "=" + strconv.Itoa(rapid.IntRange(1, 4).Draw(t, fmt.Sprintf("bmodk%d", i)))
			}
			s.Blocks = append(s.Blocks, a)
		}
		_, failure, _ := checkConv(s)
		if failure != "" {
			t.Fatalf("%s", failure)
		}
	})
}

// TestRegressFastSyncCommonBlockNotOffered: the answer the requester must survive - a well-formed 32-byte ID that was
// not among the offered ones (round-6 seeded change: header taken from the offered list by index, -1 for such an ID).
func TestRegressFastSyncCommonBlockNotOffered(t *testing.T) {
	for _, tok := range []string{"random", "peer-only"} {
		s := convShortD.script("regress-fast-common-"+tok, "", []string{"ptip"}, []string{tok}, []string{"honest"}).fab(0, 1, 0, false)
		cls, failure, res := checkConv(s)
		if failure != "" {
			t.Fatalf("%s", failure)
		}
		if res != nil && res.kind != "fast" {
			t.Logf("note: scenario did not reach the fast sync (%s, class %s)", res.kind, cls)
		}
	}
}

// TestReplayConversation re-runs one saved scenario: VERIF_REPLAY_CONV=<json file> (or VERIF_REPLAY_CASE).
func TestReplayConversation(t *testing.T) {
	p := os.Getenv("VERIF_REPLAY_CONV")
	if p == "" {
		p = os.Getenv("VERIF_REPLAY_CASE")
	}
	if p == "" {
		t.Skip("VERIF_REPLAY_CONV not set")
	}
	b, err := os.ReadFile(p)
	if err != nil {
		t.Fatalf("%v", err)
	}
	s := &convScript{}
	if err := json.Unmarshal(b, s); err != nil || s.Conv == 0 {
		t.Skipf("not a sync conversation script (%v)", err)
	}
	cls, failure, res := checkConv(s)
	if failure != "" {
		t.Fatalf("%s", failure)
	}
	if res != nil {
		t.Logf("replayed %s: class %s, sync kind %s (intended %s), tip afterwards %s, err %v\n%s", s.Name, cls, res.kind, res.intended, res.tip, res.err, res.log())
	}
}
