package c09

import (
	"context"
	"fmt"

	"github.com/LiskHQ/lisk-engine/pkg/blockchain"
	"github.com/LiskHQ/lisk-engine/pkg/codec"
	"github.com/LiskHQ/lisk-engine/pkg/consensus"
	csync "github.com/LiskHQ/lisk-engine/pkg/consensus/sync"
	"github.com/LiskHQ/lisk-engine/pkg/p2p"
	"github.com/LiskHQ/lisk-engine/pkg/trie/rmt"
	"github.com/LiskHQ/lisk-engine/pkg/trie/smt"
)

// Byte-string targets: B[0] is the untrusted wire input.

func errClass(err error) outcome {
	if err != nil {
		return outcome{class: "err"}
	}
	return outcome{class: "ok", passed: true}
}

func valClass(r p2p.ValidationResult) string {
	switch r {
	case p2p.ValidationAccept:
		return "accept"
	case p2p.ValidationReject:
		return "reject"
	case p2p.ValidationIgnore:
		return "ignore"
	}
	return fmt.Sprintf("result-%d", int(r))
}

// rw is the p2p.ResponseWriter handed to RPC handlers.
type rw struct {
	data   []byte
	err    error
	called bool
}

func (w *rw) Write(d []byte) { w.data, w.called = d, true }
func (w *rw) Error(e error)  { w.err, w.called = e, true }

const fakePeer = p2p.PeerID("12D3KooWC09untrustedPeer")

func codecType(all []codec.EncodeDecodable, name string) func() codec.EncodeDecodable {
	for _, v := range all {
		if fmt.Sprintf("%T", v) == name {
			// the registry hands out shared zero values; decoding overwrites every field, and the harness is single-threaded per target
			vv := v
			return func() codec.EncodeDecodable { return vv }
		}
	}
	panic("harness: codec type " + name + " not found in VerifCodecTypes")
}

func init() {
	W := getWorld
	seedsOf := func(f func(w *world) [][]byte) func() [][]byte { return func() [][]byte { return f(W()) } }
	blocks := seedsOf(func(w *world) [][]byte { return w.blocks })
	headers := seedsOf(func(w *world) [][]byte { return w.headers })
	txs := seedsOf(func(w *world) [][]byte { return w.txs })
	assets := seedsOf(func(w *world) [][]byte { return w.assets })
	events := seedsOf(func(w *world) [][]byte { return w.events })
	commits := seedsOf(func(w *world) [][]byte { return w.commits })
	wrap := func(inner func() [][]byte) func() [][]byte { // gossip envelope around payload seeds
		return func() [][]byte {
			var out [][]byte
			for _, p := range inner() {
				out = append(out, p2p.NewMessage(p).Encode())
			}
			return out
		}
	}
	ctx := context.Background()

	// ---- blockchain decoders -------------------------------------------------------------------------------------
	register(&target{name: "NewBlock", bytes: true, cheap: true, group: "decode", seeds: blocks, run: func(c *Case) outcome {
		b, err := blockchain.NewBlock(c.b(0))
		if err == nil && (b == nil || b.Header == nil) {
			return outcome{class: "ok", viol: "nil-block: NewBlock returned no error and a nil block/header"}
		}
		return errClass(err)
	}})
	register(&target{name: "NewBlockHeader", bytes: true, cheap: true, group: "decode", seeds: headers, run: func(c *Case) outcome {
		h, err := blockchain.NewBlockHeader(c.b(0))
		if err == nil {
			// what every consumer does next with a decoded header
			_ = h.Validate()
			_ = h.SigningBytes()
			_ = h.Readonly().AggregateCommit().Empty()
		}
		return errClass(err)
	}})
	register(&target{name: "NewTransaction", bytes: true, cheap: true, group: "decode", seeds: txs, run: func(c *Case) outcome {
		tx, err := blockchain.NewTransaction(c.b(0))
		if err == nil {
			_ = tx.SenderAddress()
			_ = tx.SigningBytes()
			_ = tx.Freeze()
			_ = tx.Copy()
		}
		return errClass(err)
	}})
	register(&target{name: "NewBlockAsset", bytes: true, cheap: true, group: "decode", seeds: assets, run: func(c *Case) outcome {
		_, err := blockchain.NewBlockAsset(c.b(0))
		return errClass(err)
	}})
	register(&target{name: "NewEvent", bytes: true, cheap: true, group: "decode", seeds: events, run: func(c *Case) outcome {
		e, err := blockchain.NewEvent(c.b(0))
		if err == nil {
			_ = e.Validate()
			_ = e.KeyPairs()
			_ = e.UpdateID()
		}
		return errClass(err)
	}})
	// Block.Validate / Transaction.Validate on everything the two decoding paths of the engine can produce
	// (NewBlock = strict envelope; Block.Decode + Init = the generated non-strict decoder used for nested blocks).
	register(&target{name: "Block.Validate", bytes: true, cheap: true, group: "decode", seeds: blocks, run: func(c *Case) outcome {
		passed := false
		cls := "err"
		if b, err := blockchain.NewBlock(c.b(0)); err == nil {
			passed = true
			cls = "invalid"
			if b.Validate() == nil {
				cls = "valid"
			}
		}
		b2 := &blockchain.Block{}
		if err := b2.Decode(c.b(0)); err == nil && b2.Header != nil {
			passed = true
			b2.Init()
			if b2.Validate() == nil && cls == "err" {
				cls = "valid-nonstrict"
			}
		}
		return outcome{class: cls, passed: passed}
	}})
	register(&target{name: "Transaction.Validate", bytes: true, cheap: true, group: "decode", seeds: txs, run: func(c *Case) outcome {
		passed := false
		cls := "err"
		if tx, err := blockchain.NewTransaction(c.b(0)); err == nil {
			passed = true
			cls = "invalid"
			if tx.Validate() == nil {
				cls = "valid"
			}
		}
		tx2 := &blockchain.Transaction{}
		if err := tx2.Decode(c.b(0)); err == nil {
			passed = true
			tx2.Init()
			_ = tx2.Validate()
		}
		return outcome{class: cls, passed: passed}
	}})
	register(&target{name: "EventPostSingleCommits.DecodeStrict", bytes: true, cheap: true, group: "decode", seeds: commits, run: func(c *Case) outcome {
		m := &consensus.EventPostSingleCommits{}
		err := m.DecodeStrict(c.b(0))
		if err == nil {
			for _, sc := range m.SingleCommits {
				if sc == nil {
					return outcome{class: "ok", viol: "nil-commit: decoded list contains a nil single commit"}
				}
				_ = sc.Validate()
			}
		}
		return errClass(err)
	}})

	// ---- p2p envelopes ------------------------------------------------------------------------------------------------
	register(&target{name: "p2p.Request.Decode", bytes: true, cheap: true, group: "decode", run: func(c *Case) outcome {
		_, err := p2p.VerifDecodeRequestEnvelope(fakePeer, c.b(0))
		return errClass(err)
	}, seeds: func() [][]byte {
		w := W()
		return [][]byte{
			(&p2p.Request{ID: "7f5c1c4e-0b1f-4b58-9d43-0f6f5b1c2a11", Procedure: csync.RPCEndpointGetBlocksFromID, Data: (&csync.GetBlocksFromIDRequest{ID: w.ids[3]}).Encode()}).Encode(),
			(&p2p.Request{ID: "x", Procedure: csync.RPCEndpointGetHighestCommonBlock, Data: (&csync.GetHighestCommonBlockRequest{IDs: w.ids[:5]}).Encode()}).Encode(),
			(&p2p.Request{ID: "", Procedure: csync.RPCEndpointGetLastBlock, Data: nil}).Encode(),
		}
	}})
	register(&target{name: "p2p.Response.Decode", bytes: true, cheap: true, group: "decode", run: func(c *Case) outcome {
		r, _, err := p2p.VerifDecodeResponse(fakePeer, c.b(0))
		if err == nil {
			_ = r.Data()
			_ = r.Error()
		}
		return errClass(err)
	}, seeds: func() [][]byte {
		w := W()
		// responseMsg is unexported: its wire form is id(1) procedure(2) data(3) error(4), the same first three fields as Request
		ok := (&p2p.Request{ID: "7f5c1c4e-0b1f-4b58-9d43-0f6f5b1c2a11", Procedure: csync.RPCEndpointGetLastBlock, Data: w.blocks[1]}).Encode()
		withErr := append(append([]byte{}, ok...), 0x22, 0x05, 'b', 'o', 'o', 'm', '!')
		return [][]byte{ok, withErr}
	}})
	register(&target{name: "p2p.Message.Decode", bytes: true, cheap: true, group: "decode", seeds: wrap(txs), run: func(c *Case) outcome {
		m := &p2p.Message{}
		return errClass(m.Decode(c.b(0)))
	}})

	// ---- gossip validators (stateless ones here; the stateful ones are in the "node" group) ---------------------------
	register(&target{name: "txpool.transactionValidator", bytes: true, cheap: true, group: "decode", seeds: txs, run: func(c *Case) outcome {
		r := W().pool.VerifTransactionValidator(ctx, &p2p.Message{Data: c.b(0)})
		o := outcome{class: valClass(r), passed: r == p2p.ValidationAccept}
		if r == p2p.ValidationAccept {
			// the event handler panics on purpose if the accepted payload does not decode
			if tx, err := blockchain.NewTransaction(c.b(0)); err != nil || tx.Validate() != nil {
				o.viol = "accept-undecodable: transactionValidator accepted a payload that NewTransaction/Validate rejects"
			}
		}
		return o
	}})
	register(&target{name: "gossip(transactionValidator)", bytes: true, cheap: true, group: "decode", seeds: wrap(txs), run: func(c *Case) outcome {
		var inner []byte
		seen := false
		r := p2p.VerifGossipValidate(ctx, func(ctx context.Context, m *p2p.Message) p2p.ValidationResult {
			seen, inner = true, m.Data
			return W().pool.VerifTransactionValidator(ctx, m)
		}, fakePeer, c.b(0))
		return gossipOracle(r, seen, c.b(0), func() error {
			tx, err := blockchain.NewTransaction(inner)
			if err != nil {
				return err
			}
			return tx.Validate()
		})
	}})
	register(&target{name: "txpool.HandleRPCEndpointGetTransaction", bytes: true, cheap: true, group: "decode", run: func(c *Case) outcome {
		w := &rw{}
		W().pool.HandleRPCEndpointGetTransaction(w, &p2p.Request{ID: "1", Procedure: "getTransactions", Data: c.b(0), PeerID: fakePeer})
		return outcome{class: ifs(w.called, "answered", "silent"), passed: w.called}
	}, seeds: func() [][]byte { return [][]byte{{}, {0x0a, 0x00}} }})

	// ---- sync: what a requester decodes from a peer's answer (decoders of request.go) ----------------------------------
	syncTypes := csync.VerifCodecTypes()
	hcbResp := codecType(syncTypes, "*sync.getHighestCommonBlockResponse")
	bfiResp := codecType(syncTypes, "*sync.getBlocksFromIDResponse")
	register(&target{name: "sync.resp.getLastBlock", bytes: true, cheap: true, group: "decode", seeds: blocks, run: func(c *Case) outcome {
		// requestLastBlockHeader: block, err := blockchain.NewBlock(result.Data()); return block.Header
		b, err := blockchain.NewBlock(c.b(0))
		if err == nil {
			_ = b.Header.Validate() // getAndValidateNetworkLastBlock
			_ = csync.NewNodeInfo(b.Header.Height, b.Header.MaxHeightPrevoted, b.Header.Version, b.Header.ID)
		}
		return errClass(err)
	}})
	register(&target{name: "sync.resp.getHighestCommonBlock", bytes: true, cheap: true, group: "decode", run: func(c *Case) outcome {
		return errClass(hcbResp().Decode(c.b(0)))
	}, seeds: func() [][]byte {
		return [][]byte{(&csync.GetHighestCommonBlockResponse{ID: W().ids[2]}).Encode(), (&csync.GetHighestCommonBlockResponse{ID: []byte{}}).Encode()}
	}})
	register(&target{name: "sync.resp.getBlocksFromId", bytes: true, cheap: true, group: "decode", run: func(c *Case) outcome {
		// requestBlocksFromID: decode the list of raw blocks, then NewBlock on each; the Downloader then sorts and reads Header.ID
		v := bfiResp()
		if err := v.Decode(c.b(0)); err != nil {
			return outcome{class: "err"}
		}
		// the unexported response type is `blocks [][]byte, field 1`; GetHighestCommonBlockRequest has the same wire shape and
		// gives access to the elements
		mirror := &csync.GetHighestCommonBlockRequest{}
		if err := mirror.Decode(c.b(0)); err != nil {
			return outcome{class: "ok", viol: "mirror-mismatch: [][]byte field 1 decoded by the response type but not by its mirror: " + err.Error()}
		}
		var bs []*blockchain.Block
		for _, raw := range mirror.IDs {
			nb, err := blockchain.NewBlock(raw)
			if err != nil {
				return outcome{class: "err-block", passed: true}
			}
			bs = append(bs, nb)
		}
		blockchain.SortBlockByHeightAsc(bs)
		for _, b := range bs {
			_ = b.Validate()
		}
		return outcome{class: "ok", passed: true}
	}, seeds: func() [][]byte {
		w := W()
		var bl []*blockchain.Block
		for _, bb := range w.blocks[1:4] {
			b, _ := blockchain.NewBlock(bb)
			bl = append(bl, b)
		}
		return [][]byte{(&csync.GetBlocksFromIDResponse{Blocks: bl}).Encode(), (&csync.GetBlocksFromIDResponse{Blocks: bl[:1]}).Encode(), {}}
	}})

	// ---- proofs arriving as bytes -------------------------------------------------------------------------------------
	register(&target{name: "smt.Proof.Decode+Verify", bytes: true, cheap: true, group: "decode", perB: 1024, seeds: smtProofSeeds, run: func(c *Case) outcome {
		p := &smt.Proof{}
		if err := p.Decode(c.b(0)); err != nil {
			return outcome{class: "err"}
		}
		keys := make([][]byte, len(p.Queries))
		kl := 0
		for i, q := range p.Queries {
			if q == nil {
				return outcome{class: "ok", viol: "nil-query: decoded proof contains a nil query"}
			}
			keys[i] = q.Key
			if i == 0 {
				kl = len(q.Key)
			}
		}
		ok, err := smt.Verify(keys, p, smtSeedRoot(), kl)
		return outcome{class: ifs(err != nil, "verify-err", ifs(ok, "verify-true", "verify-false")), passed: true}
	}})
	register(&target{name: "rmt.Proof.Decode+VerifyProof", bytes: true, cheap: true, group: "decode", seeds: rmtProofSeeds, run: func(c *Case) outcome {
		p := &rmt.Proof{}
		if err := p.Decode(c.b(0)); err != nil {
			return outcome{class: "err"}
		}
		if p.Size > 1<<20 {
			// sizes beyond 2^20 leaves are a separate (structured) target with its own envelope reasoning
			return outcome{class: "skipped-huge-size", passed: true}
		}
		q := rmtSeedQueries()
		if len(q) > len(p.Idxs) {
			q = q[:len(p.Idxs)]
		}
		for len(q) < len(p.Idxs) {
			q = append(q, q[0])
		}
		ok := rmt.VerifyProof(q, p, rmtSeedRoot())
		return outcome{class: ifs(ok, "verify-true", "verify-false"), passed: true}
	}})

	// ---- Lisk32 text form ---------------------------------------------------------------------------------------------
	register(&target{name: "codec.Lisk32ToBytes", bytes: true, cheap: true, group: "decode", run: func(c *Case) outcome {
		b, err := codec.Lisk32ToBytes(string(c.b(0)))
		if err == nil && len(b) != 20 && len(c.b(0)) != 0 {
			return outcome{class: "ok", viol: fmt.Sprintf("lisk32-length: accepted text converts to %d bytes", len(b))}
		}
		var l codec.Lisk32
		_ = l.UnmarshalJSON(c.b(0))
		return errClass(err)
	}, seeds: func() [][]byte {
		var out [][]byte
		for _, k := range W().ids[:3] {
			s, _ := codec.BytesToLisk32(k[:20])
			out = append(out, []byte(s), []byte(`"`+s+`"`))
		}
		return out
	}})
}

// gossipOracle: the wrapper must not accept what does not decode; seen=false means the envelope was rejected.
func gossipOracle(r p2p.ValidationResult, seen bool, raw []byte, payloadOK func() error) outcome {
	o := outcome{class: valClass(r), passed: seen}
	if !seen {
		o.class = "envelope-" + o.class
		if r == p2p.ValidationAccept {
			o.viol = "accept-undecodable-envelope: gossip wrapper accepted a message whose envelope was not handed to the validator"
		}
		return o
	}
	if r == p2p.ValidationAccept {
		m := &p2p.Message{}
		if err := m.Decode(raw); err != nil {
			o.viol = "accept-undecodable-envelope: accepted although p2p.Message.Decode fails: " + err.Error()
		} else if err := payloadOK(); err != nil {
			o.viol = "accept-undecodable: accepted although the payload does not decode/validate: " + err.Error()
		}
	}
	return o
}
