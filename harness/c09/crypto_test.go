package c09

import (
	"context"

	"github.com/LiskHQ/lisk-engine/pkg/blockchain"
	"github.com/LiskHQ/lisk-engine/pkg/consensus"
	csync "github.com/LiskHQ/lisk-engine/pkg/consensus/sync"
	"github.com/LiskHQ/lisk-engine/pkg/crypto"
	"github.com/LiskHQ/lisk-engine/pkg/p2p"

	"verifharness/node"
)

// Signature verifiers (structured arguments) and the stateful node targets.
//
// crypto.BLSVerify:               B = [msg, signature, publicKey]
// crypto.BLSPopVerify:            B = [publicKey, proof]
// crypto.BLSVerifyAggSig:         LL[0] = key list, B = [bits, signature, msg]
// crypto.BLSVerifyWeightedAggSig: LL[0] = key list, B = [bits, signature, msg], U[0] = threshold, U[1:] = weights
// crypto.VerifySignature:         B = [publicKey, signature, msg]
// BlockHeader.VerifySignature:    B = [encoded header, chainID, publicKey]
// Executer.verifyAggregateCommit: U[0] = height, B = [aggregationBits, certificateSignature]

func boolClass(b bool) outcome { return outcome{class: ifs(b, "true", "false"), passed: true} }

func init() {
	W := getWorld
	ctx := context.Background()

	register(&target{name: "crypto.BLSVerify", group: "crypto", run: func(c *Case) outcome {
		return boolClass(crypto.BLSVerify(c.b(0), c.b(1), c.b(2)))
	}})
	register(&target{name: "crypto.BLSPopVerify", group: "crypto", run: func(c *Case) outcome {
		return boolClass(crypto.BLSPopVerify(c.b(0), c.b(1)))
	}})
	register(&target{name: "crypto.BLSVerifyAggSig", group: "crypto", run: func(c *Case) outcome {
		return boolClass(crypto.BLSVerifyAggSig(c.ll(0), c.b(0), c.b(1), c.b(2)))
	}})
	register(&target{name: "crypto.BLSVerifyWeightedAggSig", group: "crypto", run: func(c *Case) outcome {
		var weights []uint64
		if len(c.U) > 1 {
			weights = c.U[1:]
		}
		return boolClass(crypto.BLSVerifyWeightedAggSig(c.ll(0), c.b(0), c.b(1), weights, c.u(0), c.b(2)))
	}})
	register(&target{name: "crypto.VerifySignature", group: "crypto", run: func(c *Case) outcome {
		return errClass(crypto.VerifySignature(c.b(0), c.b(1), c.b(2)))
	}})
	register(&target{name: "BlockHeader.VerifySignature", group: "crypto", run: func(c *Case) outcome {
		h, err := blockchain.NewBlockHeader(c.b(0))
		if err != nil {
			return outcome{class: "header-err"}
		}
		return boolClass(h.VerifySignature(c.b(1), c.b(2)))
	}})

	// ---- stateful node targets -----------------------------------------------------------------------------------------
	register(&target{name: "Executer.verifyAggregateCommit", group: "node", run: func(c *Case) outcome {
		w := W()
		err := w.n.Exec.VerifVerifyAggregateCommit(w.n.Store(), &blockchain.AggregateCommit{Height: uint32(c.u(0)), AggregationBits: c.b(0), CertificateSignature: c.b(1)})
		return errClass(err)
	}})
	blocks := func() [][]byte { return W().blocks }
	commits := func() [][]byte { return W().commits }
	wrap := func(inner func() [][]byte) func() [][]byte {
		return func() [][]byte {
			var out [][]byte
			for _, p := range inner() {
				out = append(out, p2p.NewMessage(p).Encode())
			}
			return out
		}
	}
	blockOK := func(b []byte) error {
		blk, err := blockchain.NewBlock(b)
		if err != nil {
			return err
		}
		return blk.Validate()
	}
	register(&target{name: "Executer.blockValidator", bytes: true, cheap: true, group: "node", seeds: blocks, run: func(c *Case) outcome {
		r := W().n.Exec.VerifBlockValidator(&p2p.Message{Data: c.b(0)})
		o := outcome{class: valClass(r), passed: r == p2p.ValidationAccept}
		if r == p2p.ValidationAccept {
			if err := blockOK(c.b(0)); err != nil {
				o.viol = "accept-undecodable: blockValidator accepted a payload that NewBlock/Validate rejects: " + err.Error()
			}
		}
		return o
	}})
	register(&target{name: "gossip(blockValidator)", bytes: true, cheap: true, group: "node", seeds: wrap(blocks), run: func(c *Case) outcome {
		var inner []byte
		seen := false
		r := p2p.VerifGossipValidate(ctx, func(ctx context.Context, m *p2p.Message) p2p.ValidationResult {
			seen, inner = true, m.Data
			return W().n.Exec.VerifBlockValidator(m)
		}, fakePeer, c.b(0))
		return gossipOracle(r, seen, c.b(0), func() error { return blockOK(inner) })
	}})
	register(&target{name: "Executer.singleCommitValidator", bytes: true, group: "node", heavy: 70000, seeds: commits, run: func(c *Case) outcome {
		r := W().n.Exec.VerifSingleCommitValidator(&p2p.Message{Data: c.b(0)})
		o := outcome{class: valClass(r), passed: r != p2p.ValidationReject}
		if r == p2p.ValidationAccept {
			o.viol = "accept: singleCommitValidator must never return Accept (it would re-gossip)"
		}
		if r != p2p.ValidationReject {
			if err := (&consensus.EventPostSingleCommits{}).DecodeStrict(c.b(0)); err != nil {
				o.viol = "not-rejected-undecodable: singleCommitValidator did not reject a payload that does not decode: " + err.Error()
			}
		}
		return o
	}})
	register(&target{name: "gossip(singleCommitValidator)", bytes: true, group: "node", heavy: 70000, seeds: wrap(commits), run: func(c *Case) outcome {
		seen := false
		r := p2p.VerifGossipValidate(ctx, func(ctx context.Context, m *p2p.Message) p2p.ValidationResult {
			seen = true
			return W().n.Exec.VerifSingleCommitValidator(m)
		}, fakePeer, c.b(0))
		return gossipOracle(r, seen, c.b(0), func() error { return nil })
	}})

	// ---- the three sync RPC handlers, called as MessageProtocol.onRequest calls them -----------------------------------
	handler := func(name string, get func(s *csync.Syncer) p2p.RPCHandler, seeds func() [][]byte, heavy int) {
		var h p2p.RPCHandler
		register(&target{name: name, bytes: true, group: "node", heavy: heavy, seeds: seeds, slack: 1 << 20, run: func(c *Case) outcome {
			if h == nil {
				h = get(W().n.Exec.VerifSyncer())
			}
			w := &rw{}
			data := c.b(0)
			if len(c.U) > 0 && c.U[0] == 1 {
				data = nil // Request.Data == nil (a request without body)
			}
			h(w, &p2p.Request{ID: "c09", Procedure: name, Data: data, PeerID: fakePeer})
			cls := "silent"
			if w.called {
				cls = ifs(w.err != nil, "error-response", "answered")
			}
			return outcome{class: cls, passed: w.called}
		}})
	}
	handler("sync.HandleRPCEndpointGetLastBlock", func(s *csync.Syncer) p2p.RPCHandler { return s.HandleRPCEndpointGetLastBlock() },
		func() [][]byte { return [][]byte{{}, {0x0a, 0x00}} }, 2000)
	handler("sync.HandleRPCEndpointGetHighestCommonBlock", func(s *csync.Syncer) p2p.RPCHandler { return s.HandleRPCEndpointGetHighestCommonBlock() },
		func() [][]byte {
			w := W()
			unknown := crypto.Hash([]byte("unknown"))
			return [][]byte{
				(&csync.GetHighestCommonBlockRequest{IDs: w.ids[:1]}).Encode(),
				(&csync.GetHighestCommonBlockRequest{IDs: [][]byte{w.ids[7], unknown, w.ids[2], w.ids[2]}}).Encode(),
				(&csync.GetHighestCommonBlockRequest{IDs: [][]byte{unknown}}).Encode(),
			}
		}, 70000)
	handler("sync.HandleRPCEndpointGetBlocksFromID", func(s *csync.Syncer) p2p.RPCHandler { return s.HandleRPCEndpointGetBlocksFromID() },
		func() [][]byte {
			w := W()
			return [][]byte{
				(&csync.GetBlocksFromIDRequest{ID: w.ids[len(w.ids)-3]}).Encode(),
				(&csync.GetBlocksFromIDRequest{ID: w.n.Genesis.Header.ID}).Encode(),
				(&csync.GetBlocksFromIDRequest{ID: crypto.Hash([]byte("unknown"))}).Encode(),
			}
		}, 70000)
	_ = node.ChainID
}
