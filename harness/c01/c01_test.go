package c01

import (
	"bytes"
	"fmt"
	"os"
	"sort"
	"strings"
	"testing"
	mbft "verifharness/model/bft"

	"pgregory.net/rapid"

	"verifharness/bftsim"
	"verifharness/evid"
)

func TestMain(m *testing.M) { evid.Main(m, "C01") }

// blk is one node of the fork tree.
type blk struct {
	id     int
	parent *blk
	h      uint32
	gen    int
	mhg    uint32
	mhp    uint32 // header field = prevoted height of the parent state
	byz    bool
	dump   [][2][]byte // BFT state after this block
	sPrev  uint32      // state: maxHeightPrevoted after this block
	sPrec  uint32      // state: maxHeightPrecommitted after this block
	model  *mbft.Model // independent LIP-0058 counting along the path from the genesis to this block
}

func (b *blk) isAncestorOf(x *blk) bool {
	for x != nil && x.h >= b.h {
		if x == b {
			return true
		}
		x = x.parent
	}
	return false
}

func (b *blk) ancestorAt(h uint32) *blk {
	x := b
	for x != nil && x.h > h {
		x = x.parent
	}
	return x
}

type world struct {
	t           *rapid.T
	n           int
	batch       int
	weights     []uint64
	byz         []bool
	addrs       [][]byte
	sim         *bftsim.Sim
	blocks      []*blk
	genesis     *blk
	known       []map[int]bool   // per validator: known block ids
	cur         []*blk           // per honest validator: current tip
	maxGen      []uint32         // per validator: largest height generated (honest bookkeeping)
	genOn       []map[int]uint32 // per Byzantine validator: largest height generated per chain tip lineage (by block id of its last block)
	change      *paramChange
	hist        []string
	byzAccepted int
}

type paramChange struct {
	atHeight uint32
	params   bftsim.Params
	onGen    map[int]bool // nil: the block at atHeight carries the change on every branch; otherwise only blocks of these generators
}

func addr(i int) []byte {
	a := bytes.Repeat([]byte{byte(0x21 + i)}, 20)
	return a
}

func (w *world) params(weights []uint64, tau, cert uint64) bftsim.Params {
	p := bftsim.Params{Precommit: tau, Cert: cert}
	for i, wt := range weights {
		if wt > 0 {
			p.Vals = append(p.Vals, bftsim.Val{Addr: w.addrs[i], Weight: wt, BLS: bytes.Repeat([]byte{byte(i + 1)}, 48)})
		}
	}
	return p
}

// newBlock runs the real BFT module on the parent's state; returns nil when an honest node would reject the header
// (contradicting the generator's earlier header on that chain) or the module reports an error.
func (w *world) newBlock(parent *blk, gen int, mhg uint32, byz bool) *blk {
	w.sim.Load(parent.dump)
	h := &bftsim.Hdr{H: parent.h + 1, Gen: w.addrs[gen], MHG: mhg, MHP: parent.sPrev}
	flagged := w.sim.Contradicting(h)
	// The safety argument rests on this filter: honest validators refuse headers that contradict the generator's latest header on
	// the chain. A filter that lets a contradicting header through lets one Byzantine validator vote twice (added after seeded change
	// C01-o, which narrowed one LIP-0014 rule and needed a repeated two-header pattern to end in a visible conflict).
	if want := parent.model.Contradicting(w.addrs[gen], h.H, h.MHG, h.MHP); want != flagged {
		w.t.Fatalf("header h=%d of v%d (maxHeightGenerated=%d maxHeightPrevoted=%d) on block #%d: the node says contradicting=%v, LIP-0014 against the generator's latest header in the window says %v\n%s",
			h.H, gen, mhg, h.MHP, parent.id, flagged, want, strings.Join(w.hist, "\n"))
	}
	if flagged {
		return nil
	}
	var ch *bftsim.Params
	if w.change != nil && h.H == w.change.atHeight && (w.change.onGen == nil || w.change.onGen[gen]) {
		ch = &w.change.params
	}
	if err := w.sim.Apply(h, ch); err != nil {
		w.t.Fatalf("BFT module rejects an admissible header: %v\n%s", err, strings.Join(w.hist, "\n"))
	}
	b := &blk{id: len(w.blocks), parent: parent, h: h.H, gen: gen, mhg: mhg, mhp: h.MHP, byz: byz, dump: w.sim.Dump()}
	b.sPrev, b.sPrec, _ = w.sim.Heights()
	w.blocks = append(w.blocks, b)
	// What a view reports as prevoted and as final must be backed by quorums of distinct validators under the counting rules:
	// the same path through the independent transcription of LIP-0058 (a view that counts a validator twice finalizes early,
	// which only a rare fork tree turns into a visible conflict).
	b.model = parent.model.Clone()
	if err := b.model.Apply(w.addrs[gen], mhg, h.MHP, false, 0); err != nil {
		w.t.Fatalf("reference model rejects header of block %d: %v\n%s", b.id, err, strings.Join(w.hist, "\n"))
	}
	if ch != nil {
		var vals []mbft.Val
		for _, v := range ch.Vals {
			vals = append(vals, mbft.Val{Addr: v.Addr, Weight: v.Weight})
		}
		if err := b.model.SetParams(vals, ch.Precommit, ch.Cert); err != nil {
			w.t.Fatalf("reference model rejects the parameter change: %v", err)
		}
	}
	if b.sPrev != b.model.MHP || b.sPrec != b.model.MHPC {
		w.t.Fatalf("view after block #%d (h=%d, v%d on #%d) reports prevoted=%d precommitted=%d, the counting rules give %d and %d: finality not backed by a quorum of distinct validators\n%s",
			b.id, b.h, gen, parent.id, b.sPrev, b.sPrec, b.model.MHP, b.model.MHPC, strings.Join(w.hist, "\n"))
	}
	// per-path sanity LIP-0058 guarantees
	if b.sPrec > b.sPrev && b.sPrec != w.genesis.h {
		w.t.Fatalf("precommitted %d above prevoted %d at block %d\n%s", b.sPrec, b.sPrev, b.id, strings.Join(w.hist, "\n"))
	}
	if b.sPrev > b.h || b.sPrev < parent.sPrev || b.sPrec < parent.sPrec {
		w.t.Fatalf("BFT heights not monotone / above height at block %d: prevoted %d->%d precommitted %d->%d height %d\n%s", b.id, parent.sPrev, b.sPrev, parent.sPrec, b.sPrec, b.h, strings.Join(w.hist, "\n"))
	}
	if byz {
		w.byzAccepted++
	}
	return b
}

// better: LIP-0014 fork choice order on tips (maxHeightPrevoted of the header, then height).
func better(a, b *blk) bool {
	if a.mhp != b.mhp {
		return a.mhp > b.mhp
	}
	return a.h > b.h
}

// deliver makes block b known to validator v (with its ancestors) and applies honest fork choice.
func (w *world) deliver(v int, b *blk) {
	for x := b; x != nil && !w.known[v][x.id]; x = x.parent {
		w.known[v][x.id] = true
	}
	if w.byz[v] {
		return
	}
	c := w.cur[v]
	switch {
	case c.isAncestorOf(b) && b.h > c.h:
		w.cur[v] = b // extension of the own chain
	case !c.isAncestorOf(b) && !b.isAncestorOf(c) && better(b, c):
		w.cur[v] = b // different chain with priority (LIP-0014)
	}
}

// largest height validator v generated on the chain ending in tip (what a Byzantine validator would honestly report there)
func genOnChain(tip *blk, v int) uint32 {
	for x := tip; x != nil; x = x.parent {
		if x.gen == v && x.parent != nil {
			return x.h
		}
	}
	return 0
}

// checkSafety: all finalized blocks (ancestors with height <= precommitted height of some view) lie on one chain.
func (w *world) checkSafety() (finalizedTop uint32, conflict string) {
	var fin []*blk
	seen := map[int]bool{}
	for _, x := range w.blocks {
		if x.sPrec <= w.genesis.h {
			continue
		}
		top := x.ancestorAt(x.sPrec)
		if top != nil && !seen[top.id] {
			seen[top.id] = true
			fin = append(fin, top)
		}
	}
	sort.Slice(fin, func(i, j int) bool { return fin[i].h < fin[j].h })
	for i := 0; i < len(fin); i++ {
		for j := i + 1; j < len(fin); j++ {
			if !fin[i].isAncestorOf(fin[j]) {
				return 0, fmt.Sprintf("block #%d (height %d) and block #%d (height %d) are both finalized by some view but lie on different branches", fin[i].id, fin[i].h, fin[j].id, fin[j].h)
			}
		}
	}
	if len(fin) > 0 {
		finalizedTop = fin[len(fin)-1].h
	}
	return finalizedTop, ""
}

type scenario struct {
	overBound bool // self-test: Byzantine weight above the fault bound
}

func explore(t *rapid.T, sc scenario) (conflict string, nontrivial bool, w *world) {
	n := rapid.IntRange(4, 7).Draw(t, "n")
	w = &world{t: t, n: n, batch: rapid.IntRange(n, n+1).Draw(t, "batch")}
	for i := 0; i < n; i++ {
		w.addrs = append(w.addrs, addr(i))
	}
	style := rapid.SampledFrom([]string{"equal", "equal", "skewed", "heavy"}).Draw(t, "weights")
	var W uint64
	for i := 0; i < n; i++ {
		wt := uint64(1)
		switch style {
		case "skewed":
			wt = rapid.Uint64Range(1, 4).Draw(t, "w")
		case "heavy":
			if i == 0 {
				wt = rapid.Uint64Range(2, uint64(n)).Draw(t, "wHeavy")
			}
		}
		w.weights = append(w.weights, wt)
		W += wt
	}
	tau := rapid.Uint64Range(W/3+1, W).Draw(t, "precommitThreshold")
	if rapid.Bool().Draw(t, "standardThreshold") {
		tau = W*2/3 + 1
	}
	// Byzantine set inside the fault bound: f < W/3 and f <= tau - floor(W/3) - 1
	w.byz = make([]bool, n)
	order := rapid.Permutation(seq(n)).Draw(t, "byzOrder")
	var f uint64
	bound := func(f uint64) bool { return 3*f < W && f+W/3+1 <= tau }
	for _, i := range order {
		if sc.overBound {
			if 3*f < W+3 { // go beyond one third
				w.byz[i] = true
				f += w.weights[i]
			}
			continue
		}
		if bound(f+w.weights[i]) && rapid.IntRange(0, 3).Draw(t, "takeByz") != 0 {
			w.byz[i] = true
			f += w.weights[i]
		}
	}
	w.hist = append(w.hist, fmt.Sprintf("n=%d batch=%d weights=%v W=%d precommitThreshold=%d byzantine=%v f=%d", n, w.batch, w.weights, W, tau, w.byz, f))
	w.sim = bftsim.New(w.batch)
	defer w.sim.Close()
	// the certificate threshold is a parameter of its own (any value in [W/3+1, W]); finality must not depend on it
	certTau := tau
	if rapid.Bool().Draw(t, "ownCertificateThreshold") {
		certTau = rapid.Uint64Range(W/3+1, W).Draw(t, "certificateThreshold")
	}
	if err := w.sim.Genesis(0, w.params(w.weights, tau, certTau)); err != nil {
		t.Fatalf("genesis: %v", err)
	}
	g := &blk{id: 0, dump: w.sim.Dump(), model: mbft.New(w.batch, 0)}
	{
		p0 := w.params(w.weights, tau, certTau)
		var vals []mbft.Val
		for _, v := range p0.Vals {
			vals = append(vals, mbft.Val{Addr: v.Addr, Weight: v.Weight})
		}
		if err := g.model.SetParams(vals, p0.Precommit, p0.Cert); err != nil {
			t.Fatalf("reference model rejects the genesis parameters: %v", err)
		}
	}
	w.genesis = g
	w.blocks = []*blk{g}
	// optional weight change at one height (same on every branch), keeping the fault bound for the new set as well
	if rapid.IntRange(0, 2).Draw(t, "withChange") == 0 && !sc.overBound {
		for try := 0; try < 4 && w.change == nil; try++ {
			nw := append([]uint64{}, w.weights...)
			switch rapid.SampledFrom([]string{"one", "several", "several"}).Draw(t, "changeKind") {
			case "one":
				i := rapid.IntRange(0, n-1).Draw(t, "changeIdx")
				nw[i] = rapid.Uint64Range(1, 4).Draw(t, "changeW")
			default:
				// several validators are re-weighted together (e.g. all but one doubled)
				keep := rapid.IntRange(0, n-1).Draw(t, "changeKeep")
				f := rapid.Uint64Range(2, 3).Draw(t, "changeFactor")
				for i := range nw {
					if i != keep && rapid.IntRange(0, 3).Draw(t, "changeThis") != 0 {
						nw[i] *= f
					}
				}
			}
			var W2, f2 uint64
			for j, x := range nw {
				W2 += x
				if w.byz[j] {
					f2 += x
				}
			}
			tau2 := W2*2/3 + 1
			if rapid.Bool().Draw(t, "changeLowThreshold") && W2/3+1+f2 <= W2 {
				tau2 = rapid.Uint64Range(W2/3+1+f2, W2).Draw(t, "changeTau")
			}
			if 3*f2 < W2 && f2+W2/3+1 <= tau2 && mixedQuorumsIntersectHonestly(w.weights, tau, nw, tau2, w.byz) {
				w.change = &paramChange{atHeight: uint32(rapid.IntRange(2, 12).Draw(t, "changeAt")), params: w.params(nw, tau2, rapid.Uint64Range(W2/3+1, W2).Draw(t, "changeCert"))}
				w.hist = append(w.hist, fmt.Sprintf("weights change to %v (threshold %d) in block %d", nw, tau2, w.change.atHeight))
				// the change is a decision of the application executing the block: sibling blocks need not agree on it. Half of
				// the changes happen only in the blocks of some generators, so that branches forking at or below that height
				// run under different parameters (a view that moves between such branches must forget what it learnt on the other)
				if rapid.Bool().Draw(t, "changeBranchDependent") {
					w.change.onGen = map[int]bool{}
					for i := 0; i < n; i++ {
						if rapid.Bool().Draw(t, "changeOnGen") {
							w.change.onGen[i] = true
						}
					}
					w.hist = append(w.hist, fmt.Sprintf("  only in blocks generated by %v", w.change.onGen))
				}
			}
		}
	}
	w.known = make([]map[int]bool, n)
	w.cur = make([]*blk, n)
	w.maxGen = make([]uint32, n)
	for v := 0; v < n; v++ {
		w.known[v] = map[int]bool{0: true}
		w.cur[v] = g
	}
	strategy := []string{"random", "split-brain", "split-brain", "switch-back", "private-branch", "private-branch"}[int(rapid.Uint32().Draw(t, "strategy")%6)]
	slots := rapid.IntRange(8, 40).Draw(t, "slots")
	groups := 2 + rapid.IntRange(0, 1).Draw(t, "thirdGroup")
	group := make([]int, n)
	regroup := func() {
		for v := 0; v < n; v++ {
			group[v] = rapid.IntRange(0, groups-1).Draw(t, "group")
		}
	}
	regroup()
	partitioned := strategy != "random" || rapid.Bool().Draw(t, "partitioned")
	w.hist = append(w.hist, fmt.Sprintf("strategy=%s slots=%d groups=%v partitioned=%v", strategy, slots, group, partitioned))
	sameGroup := func(a, b int) bool { return !partitioned || group[a] == group[b] }
	forkHeight := uint32(0)
	// private-branch: at a drawn slot one Byzantine validator builds a branch of its own, block after block (the BFT rules
	// know no slots; timing is the adversary's), reporting an honest, a stale or a zero maxHeightGenerated, then publishes it
	privateAt := -1
	if strategy == "private-branch" {
		privateAt = rapid.IntRange(3, slots-1).Draw(t, "privateAt")
		partitioned = false
	}
	privateBranch := func(s int) {
		var zs []int
		for v := 0; v < n; v++ {
			if w.byz[v] {
				zs = append(zs, v)
			}
		}
		if len(zs) == 0 {
			return
		}
		z := rapid.SampledFrom(zs).Draw(t, "privateValidator")
		// fork point: an ancestor of some honest tip, a few blocks back
		tip := w.cur[rapid.IntRange(0, n-1).Draw(t, "privateTipOf")]
		back := rapid.IntRange(1, 10).Draw(t, "privateBack")
		base := tip
		for i := 0; i < back && base.parent != nil; i++ {
			base = base.parent
		}
		// half of the time fork right below what some view already reports as final: the place where a conflict would show
		if top, _ := w.checkSafety(); top > 1 && rapid.Bool().Draw(t, "privateBelowFinality") {
			if a := tip.ancestorAt(top - 1 - rapid.Uint32Range(0, 1).Draw(t, "privateBelow")); a != nil {
				base = a
			}
		}
		length := rapid.IntRange(3, 16).Draw(t, "privateLength")
		mode := rapid.SampledFrom([]string{"honest", "stale", "stale", "zero"}).Draw(t, "privateMhg")
		stale := genOnChain(base, z)
		cur := base
		var built []*blk
		for i := 0; i < length && len(w.blocks) < 90; i++ {
			mhg := genOnChain(cur, z)
			switch mode {
			case "stale":
				mhg = stale
			case "zero":
				mhg = 0
			}
			b := w.newBlock(cur, z, mhg, true)
			if b == nil {
				// an honest node rejects this header: try the honest-looking value instead
				b = w.newBlock(cur, z, genOnChain(cur, z), true)
				if b == nil {
					break
				}
			}
			w.hist = append(w.hist, fmt.Sprintf("slot %d: BYZ v%d private #%d on #%d (h=%d mhg=%d mhp=%d) -> prevoted=%d precommitted=%d", s, z, b.id, cur.id, b.h, b.mhg, b.mhp, b.sPrev, b.sPrec))
			built = append(built, b)
			cur = b
		}
		for _, b := range built {
			for v := 0; v < n; v++ {
				w.deliver(v, b)
			}
		}
	}
	for s := 0; s < slots && len(w.blocks) < 90; s++ {
		owner := s % n
		if s == privateAt {
			privateBranch(s)
		}
		if rapid.IntRange(0, 9).Draw(t, "missed") == 0 {
			continue
		}
		// network events
		switch strategy {
		case "switch-back":
			if rapid.IntRange(0, 4).Draw(t, "heal") == 0 {
				partitioned = !partitioned
				w.hist = append(w.hist, fmt.Sprintf("slot %d: partitioned=%v", s, partitioned))
			}
		case "random":
			if rapid.IntRange(0, 6).Draw(t, "regroup") == 0 {
				regroup()
			}
		}
		if !partitioned {
			// healed network: everybody learns everything (in creation order)
			for _, b := range w.blocks {
				for v := 0; v < n; v++ {
					if !w.known[v][b.id] {
						w.deliver(v, b)
					}
				}
			}
		}
		if !w.byz[owner] {
			tip := w.cur[owner]
			b := w.newBlock(tip, owner, w.maxGen[owner], false)
			if b == nil {
				t.Fatalf("header of a protocol-following validator is flagged as contradicting: slot %d v%d on #%d (h=%d mhg=%d mhp=%d; its last own block on that chain is at height %d)\n%s",
					s, owner, tip.id, tip.h+1, w.maxGen[owner], tip.sPrev, genOnChain(tip, owner), strings.Join(w.hist, "\n"))
			}
			if b.h > w.maxGen[owner] { // the LARGEST height ever generated, also after forging at a lower height on a better chain
				w.maxGen[owner] = b.h
			}
			w.hist = append(w.hist, fmt.Sprintf("slot %d: honest v%d forges #%d on #%d (h=%d mhg=%d mhp=%d) -> prevoted=%d precommitted=%d", s, owner, b.id, tip.id, b.h, b.mhg, b.mhp, b.sPrev, b.sPrec))
			for v := 0; v < n; v++ {
				if sameGroup(owner, v) {
					w.deliver(v, b)
				}
			}
			continue
		}
		// Byzantine owner
		switch strategy {
		case "private-branch":
			// outside its private branch the validator behaves honestly-looking on the best tip it knows
			var tip *blk
			for v := 0; v < n; v++ {
				if tip == nil || better(w.cur[v], tip) {
					tip = w.cur[v]
				}
			}
			if b := w.newBlock(tip, owner, genOnChain(tip, owner), true); b != nil {
				w.hist = append(w.hist, fmt.Sprintf("slot %d: BYZ v%d forges #%d on #%d (h=%d mhg=%d mhp=%d) -> prevoted=%d precommitted=%d", s, owner, b.id, tip.id, b.h, b.mhg, b.mhp, b.sPrev, b.sPrec))
				for v := 0; v < n; v++ {
					w.deliver(v, b)
				}
			}
		case "split-brain", "switch-back":
			// one honest-looking block on the best tip of every group, delivered to that group only
			for gidx := 0; gidx < groups; gidx++ {
				var tip *blk
				for v := 0; v < n; v++ {
					if !w.byz[v] && group[v] == gidx && (tip == nil || better(w.cur[v], tip)) {
						tip = w.cur[v]
					}
				}
				if tip == nil {
					continue
				}
				b := w.newBlock(tip, owner, genOnChain(tip, owner), true)
				if b == nil {
					continue
				}
				if forkHeight == 0 && gidx > 0 {
					forkHeight = b.h
				}
				w.hist = append(w.hist, fmt.Sprintf("slot %d: BYZ v%d forges #%d on #%d for group %d (h=%d mhg=%d mhp=%d) -> prevoted=%d precommitted=%d", s, owner, b.id, tip.id, gidx, b.h, b.mhg, b.mhp, b.sPrev, b.sPrec))
				for v := 0; v < n; v++ {
					if group[v] == gidx || !partitioned {
						w.deliver(v, b)
					}
				}
			}
		default:
			k := rapid.IntRange(0, 2).Draw(t, "byzBlocks")
			for i := 0; i < k; i++ {
				parent := w.blocks[rapid.IntRange(0, len(w.blocks)-1).Draw(t, "byzParent")]
				if rapid.Bool().Draw(t, "onTip") {
					parent = w.cur[rapid.IntRange(0, n-1).Draw(t, "tipOf")]
					if parent == nil {
						parent = w.blocks[len(w.blocks)-1]
					}
				}
				var mhg uint32
				switch rapid.SampledFrom([]string{"chain", "zero", "hm1", "ge", "rand"}).Draw(t, "mhgKind") {
				case "chain":
					mhg = genOnChain(parent, owner)
				case "hm1":
					mhg = parent.h
				case "ge":
					mhg = parent.h + 1 + rapid.Uint32Range(0, 2).Draw(t, "geOff")
				case "rand":
					mhg = rapid.Uint32Range(0, parent.h+1).Draw(t, "mhgRand")
				}
				b := w.newBlock(parent, owner, mhg, true)
				if b == nil {
					continue
				}
				w.hist = append(w.hist, fmt.Sprintf("slot %d: BYZ v%d forges #%d on #%d (h=%d mhg=%d mhp=%d) -> prevoted=%d precommitted=%d", s, owner, b.id, parent.id, b.h, b.mhg, b.mhp, b.sPrev, b.sPrec))
				to := rapid.IntRange(0, groups).Draw(t, "byzDeliverTo") // one group, or everybody
				for v := 0; v < n; v++ {
					if to == groups || group[v] == to {
						w.deliver(v, b)
					}
				}
			}
		}
	}
	top, conflict := w.checkSafety()
	// non-trivial: >= 2 branches of length >= 2 after a fork, a Byzantine block accepted, finality beyond the fork
	children := map[int]int{}
	for _, b := range w.blocks[1:] {
		children[b.parent.id]++
	}
	longBranches := 0
	firstFork := uint32(1 << 30)
	for _, b := range w.blocks {
		if children[b.id] >= 2 {
			if b.h < firstFork {
				firstFork = b.h
			}
			for _, c := range w.blocks {
				if c.parent == b {
					// depth below c
					d := 1
					for _, x := range w.blocks {
						if c.isAncestorOf(x) && int(x.h-c.h)+1 > d {
							d = int(x.h-c.h) + 1
						}
					}
					if d >= 2 {
						longBranches++
					}
				}
			}
		}
	}
	nontrivial = longBranches >= 2 && w.byzAccepted >= 1 && top > firstFork
	labels := []string{"tree", "strategy-" + strategy}
	if longBranches >= 2 {
		labels = append(labels, "forked")
	}
	if top > 0 {
		labels = append(labels, "finality-advanced")
	}
	if w.change != nil {
		labels = append(labels, "weight-change")
		if w.change.onGen != nil {
			labels = append(labels, "weight-change-branch-dependent")
		}
	}
	if len(w.blocks) > 3*w.batch {
		labels = append(labels, "longer-than-window")
	}
	if !sc.overBound {
		hist := w.hist
		evid.R.Case(strings.Join(hist, "|"), nontrivial, func() any {
			return map[string]any{"kind": "fork-tree", "blocks": len(w.blocks), "finalizedTop": top, "firstFork": firstFork, "history": hist}
		}, labels...)
	}
	return conflict, nontrivial, w
}

// mixedQuorumsIntersectHonestly: the Lisk-BFT safety argument intersects a precommit quorum of one block with a prevote quorum of a
// conflicting one. Across a weight change the two quorums are measured with DIFFERENT weight vectors, so "f < 1/3 in each set" is
// not enough (a validator jumping from 1/4 to 4/7 of the weight forms a new-set quorum with a Byzantine validator alone while
// the other honest validators plus the same Byzantine one form an old-set quorum). The generated changes are restricted to those
// for which every (prevote|precommit)-quorum under one vector and every prevote-quorum under the other share an honest validator,
// which is what the theorem's proof needs; anything else is a protocol-level limit, not a counting defect of the engine.
func mixedQuorumsIntersectHonestly(wA []uint64, tauA uint64, wB []uint64, tauB uint64, byz []bool) bool {
	n := len(wA)
	sum := func(w []uint64, set int) (t uint64) {
		for i := 0; i < n; i++ {
			if set&(1<<uint(i)) != 0 {
				t += w[i]
			}
		}
		return
	}
	var WA, WB uint64
	for i := 0; i < n; i++ {
		WA += wA[i]
		WB += wB[i]
	}
	pvA, pvB := WA*2/3+1, WB*2/3+1
	honest := 0
	for i := 0; i < n; i++ {
		if !byz[i] {
			honest |= 1 << uint(i)
		}
	}
	for s1 := 1; s1 < 1<<uint(n); s1++ {
		a := sum(wA, s1)
		for s2 := 1; s2 < 1<<uint(n); s2++ {
			if s1&s2&honest != 0 {
				continue
			}
			b := sum(wB, s2)
			// precommit_A x prevote_B, prevote_A x precommit_B, prevote_A x prevote_B
			if (a >= tauA && b >= pvB) || (a >= pvA && b >= tauB) || (a >= pvA && b >= pvB) {
				return false
			}
		}
	}
	return true
}

func seq(n int) []int {
	out := make([]int, n)
	for i := range out {
		out[i] = i
	}
	return out
}

func TestFinalitySafety(t *testing.T) {
	rapid.Check(t, func(t *rapid.T) {
		conflict, _, w := explore(t, scenario{})
		if conflict != "" {
			t.Fatalf("conflicting finalized blocks inside the fault bound: %s\n%s", conflict, strings.Join(w.hist, "\n"))
		}
	})
}

// Self-test of the explorer's power (not a property of the engine): with Byzantine weight beyond one third the same
// adversary strategies must be able to produce conflicting finalized blocks; the count is reported as evidence.
func TestExplorerPower(t *testing.T) {
	if os.Getenv("VERIF_REPLAY") != "" {
		t.Skip("replay")
	}
	found, runs := 0, 0
	rapid.Check(t, func(t *rapid.T) {
		runs++
		if runs > 300 {
			return
		}
		conflict, _, _ := explore(t, scenario{overBound: true})
		if conflict != "" {
			found++
		}
	})
	if runs > 300 {
		runs = 300
	}
	evid.R.Note("explorer power self-test: with Byzantine weight above W/3 a conflicting finalization was produced in %d of %d generated trees", found, runs)
	if found == 0 {
		evid.R.Inconclusive("explorer power self-test produced no conflict beyond the fault bound in %d trees", runs)
	}
}
