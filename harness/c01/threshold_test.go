package c01

import (
	"fmt"
	"testing"

	"pgregory.net/rapid"

	"verifharness/bftsim"
	"verifharness/evid"
)

// The safety argument behind every tree of TestFinalitySafety needs a precommit threshold of at least floor(W/3)+1: with a threshold
// of floor(W/3) or less and W not divisible by 3, Byzantine validators holding floor(W/3) < W/3 of the weight reach the precommit
// threshold without a single honest precommit and finalize a private branch (seeded change C01-v demonstrated exactly this with
// W=10, threshold 3). The tree generator draws thresholds only from the range the engine is supposed to accept, so a module that
// ACCEPTS a smaller threshold would never be exercised there: this test offers the thresholds around the floor, at genesis and as a
// later change, for drawn weight vectors, and demands that everything at or below floor(W/3) is refused and floor(W/3)+1 is accepted.
func TestThresholdFloor(t *testing.T) {
	rapid.Check(t, func(t *rapid.T) {
		n := rapid.IntRange(1, 8).Draw(t, "validators")
		batch := n + rapid.IntRange(0, 2).Draw(t, "batchExtra")
		var weights []uint64
		var W uint64
		for i := 0; i < n; i++ {
			x := rapid.Uint64Range(1, 7).Draw(t, "weight")
			weights = append(weights, x)
			W += x
		}
		w := &world{n: n}
		for i := 0; i < n; i++ {
			w.addrs = append(w.addrs, addr(i))
		}
		floor := W / 3
		legal := w.params(weights, W*2/3+1, W*2/3+1)
		atChange := rapid.Bool().Draw(t, "asLaterChange")
		offer := func(tau uint64) error {
			s := bftsim.New(batch)
			defer s.Close()
			p := w.params(weights, tau, W*2/3+1)
			if !atChange {
				return s.Genesis(0, p)
			}
			if err := s.Genesis(0, legal); err != nil {
				t.Fatalf("legal genesis parameters refused: %v", err)
			}
			// the change re-weights nothing but must differ from the set in force to be stored: threshold only
			return s.Apply(&bftsim.Hdr{H: 1, Gen: addr(0), MHG: 0, MHP: 0}, &p)
		}
		for _, tau := range []uint64{0, floor / 2, floor} {
			if err := offer(tau); err == nil {
				t.Fatalf("precommit threshold %d accepted for total weight %d (weights %v): at most floor(W/3)=%d, Byzantine weight below one third could finalize alone", tau, W, weights, floor)
			}
		}
		if err := offer(floor + 1); err != nil {
			t.Fatalf("smallest safe precommit threshold floor(W/3)+1=%d refused for total weight %d (weights %v): %v", floor+1, W, weights, err)
		}
		evid.R.Case(fmt.Sprintf("floor|%v|%d|%v", weights, batch, atChange), W%3 != 0, func() any {
			return map[string]any{"kind": "threshold-floor", "weights": weights, "total": W, "floor": floor, "asLaterChange": atChange}
		}, "threshold-floor", fmt.Sprintf("threshold-floor-Wmod3=%d", W%3))
	})
}
