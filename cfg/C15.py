# run specification for C15
CHECK = {
 'level': 'exploration',
 'rule': 'rapid-generated histories on a real node + real transaction pool + real generator (all validator keys enabled; the wall clock sits in slot '
         '1000 so a forge is possible whenever the tip is in an older slot): prefix of 0-12 harness blocks, then 2-9 actions from forge / delete tip(s) / '
         'extend with other validators\' blocks / restart the generator on the same generator database; each forge draws pool contents (0-4 senders, '
         'consecutive nonces, fees with ties and from the top of the uint64 range, sizes, a transaction failing verification or execution at generation time), the size limit (120 B ... 15 KiB), '
         'block assets, and optionally certificates (last precommitted height or the whole uncertified range) so that a non-empty aggregate commit is available; a quarter of the cases are the certificate scenario: 1-2 harness blocks change the certificate threshold, the chain grows until the change is final but not certified, all validators certify the whole range, then the generator forges. Non-trivial = history with >=3 forges, a restart and a '
         'forge at a lower height than an earlier one; selection label when >=2 senders, a failure and a size cut occur. Distinct by digest of the action log'
         ' Action failedAttempt: a forging attempt the application aborts in a block hook (before/after-transactions); no block may come out, and the next header of the generator must still report the largest height it really signed (label with-aborted-forging-attempt).',
 'level_text': 'For every forged block: persisted generator info already covers it when it is handed to consensus; the same node accepts it at that '
               'moment; payload obeys per-sender nonce order, stops at a sender\'s failing transaction, respects the size limit and takes maximal fee '
               'priority among senders\' heads; all headers a generator ever signed in the history are pairwise non-contradicting (LIP-0014 reference) and '
               'maxHeightGenerated equals the largest height it signed before.',
 'level_note': 'Wall clock is real: multi-slot timing is not varied; cases where the clock crosses a slot boundary are skipped.',
 'technique': 'stateful property-based testing (rapid) with validity predicates and a LIP-0014 reference',
 'assumptions': ['fake deterministic application', 'forge attempts that produce nothing are counted, not asserted (no liveness claim)'],
 'quick': [{'pkg': 'c15', 'checks': 150, 'timeout': 900}],
 'thorough': [{'pkg': 'c15', 'checks': 1500, 'shards': 16, 'timeout': 2400}],
}
