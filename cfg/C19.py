# run specification for C19
CHECK = {
 'level': 'exploration',
 'rule': '(1) rapid multisets of 1-12 peer tips over small value ranges (many ties) through the real peer selection; (2) responder nodes with chains of '
         '3-260 blocks, block cache 4/20/515, optionally a reorganised tail, queried through the three sync RPC handlers with ids on/off the chain, '
         'removed blocks, malformed ids - the expected last block and chain come from the harness\'s OWN record (the blocks returned by Apply minus the ones it removed, in order); Chain.LastBlock() and the stored headers are cross-checked against that record after building, after every removal and after regrowing, instead of being the expectation; (3) two in-process nodes over real libp2p connections on loopback: shared prefix, requester fork, better '
         'responder fork shorter/longer than two rounds (fast vs block sync), requester fork built honestly or with self-only prevotes (so that the better chain can be the shorter one), clock far behind or up to date, directed cases for a fork at the finalized block of the requester and for a fork deeper than the first common-block search window (9 rounds), then the requester processes the responder\'s tip (the peer\'s chain, the announced block and the requester\'s chain before the sync are taken from the harness\'s own record of the blocks it applied to each node; the engines\' answers are cross-checked against it); (3a) a requester with 2-3 connected peers (honest chain, taller chain with lower maxHeightPrevoted, optional twin) more than two rounds ahead: block sync must end on the chain of the peer the selection rule names. Non-trivial = (1) >=2 '
         'different block IDs tie on the first two criteria, (2) a request spanning the cache boundary or the 103-block cap, (3) a convergence case in '
         'which the requester had to delete >=2 own blocks. Distinct by digest of the case',
 'level_text': 'Peer choice must be maximal in maxHeightPrevoted, then height, then block-ID frequency (validity predicate, random ties re-run 5x); '
               'handlers must return exactly the highest shared block / the consecutive successor blocks (<=103) of their own chain; an honest better '
               'chain must be adopted block for block with temp blocks cleared, while finalized blocks never change (C04 oracle alongside).',
 'level_note': 'Real p2p stack on 127.0.0.x; download limiter 10 req/s bounds case rate; a sync not finishing within 60 s is reported inconclusive.',
 'technique': 'property-based testing (rapid) with validity predicates, differential against the responder chain, and two-node convergence runs',
 'assumptions': ['fake deterministic application', 'loopback networking',
                 'own record: the block object returned by the harness node\'s Apply (built by the harness, accepted by VerifProcess) is the block on the chain; removing the tip is done by handing that block to VerifDeleteBlock, as the engine\'s callers hand over Chain.LastBlock()'],
 'quick': [{'pkg': 'c19', 'run': 'TestBestPeer', 'checks': 3000, 'timeout': 300},
           {'pkg': 'c19', 'run': 'TestRPCHandlers', 'checks': 25, 'timeout': 600},
           {'pkg': 'c19', 'run': 'TestConvergence|TestMultiPeer|TestMalicious|TestRegress', 'checks': 40, 'timeout': 900}],
 'thorough': [{'pkg': 'c19', 'run': 'TestBestPeer', 'checks': 100000, 'shards': 2, 'timeout': 900},
              {'pkg': 'c19', 'run': 'TestRPCHandlers', 'checks': 150, 'shards': 6, 'timeout': 2400},
              {'pkg': 'c19', 'run': 'TestConvergence|TestMultiPeer|TestMalicious|TestRegress', 'checks': 150, 'shards': 8, 'timeout': 2400}],
}
