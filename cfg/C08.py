# run specification for C08 (loaded by checks_config.py)
CHECK = {'level': 'exploration',
 'rule': '(a) rapid-generated values of every generated-codec struct type (101 of the 103 types found by scanning all 28 *_codec.go files; tagged '
         'fields only, unexported fields via reflect.NewAt; boundary integers 0/2^(7k)+-1/max, byte slices of length 0/1/127/128/16383/16384, '
         'valid UTF-8 strings incl. non-NFC sequences, nil vs empty slices, nested and repeated messages, no nil elements / nil nested pointers) '
         'through Encode/Decode/DecodeStrict; (b) Writer/Reader integer, bool and packed-array primitives over the full boundary sets (exhaustive) '
         'and random values incl. math.MinInt64; (c) transactions: canonical encodings and byte strings derived from them by 17 mutation kinds '
         '(non-shortest varints in key/length/value position, swapped/missing/duplicated fields, trailing bytes/fields, wire type, field number, '
         'non-NFC / invalid UTF-8 strings, length +-, 64-bit overflow, truncation, splices), all byte strings of length <= 2 (<= 3 thorough), '
         'window-exhaustive replacement of every 0..2-byte window of small canonical encodings by every string of length <= 2, and the seed '
         'corpus of the native fuzz target; (d) 1-4 generated blocks (transactions, assets, optionally a header with missing fields that only '
         'the lenient header decoder accepts) through NewBlock -> Chain.AddBlock -> fresh DataAccess -> GetBlock*/GetTransaction/GetTempBlocks; '
         '(e) Lisk32: boundary (all single-bit) and random 20-byte addresses, every single-character substitution exhaustively for boundary '
         'addresses and random 1-4 character substitutions in the 38 data/checksum characters. Non-trivial = (a) value with at least one '
         'non-default field of each field kind present in its type; (b) multi-byte varint / non-empty array; (c) byte string whose first field '
         'still parses structurally with bytes following; (d) a block with transactions and assets, or a lenient-form header; (e) every case. '
         'Distinct by digest of type+encoded bytes / the byte string / the case tuple',
 'level_text': 'Round trip of generated values of every generated-codec type (decode(encode(v)) equal under NFC / nil=empty / absent=zero-message, '
               'deterministic and idempotent encoding, strict decoding of own encodings); for transactions the implication '
               'DecodeStrict(s)==nil => Encode(decoded)==s and ID==SHA-256(s) on generated canonical, derived, short-exhaustive and '
               'window-exhaustive byte strings; block/transaction IDs and encodings compared before and after store + cold load and re-encoding; '
               'Lisk32 bytes<->text identity and rejection of 1-4 substituted characters. Sampled, with exhaustive cores on small domains.',
 'level_note': 'Two scanned types are not instantiable from outside (package main debug tool; internal test fixture of pkg/codec) and are reported '
               'in the evidence notes. Needs the hook files of hooks_proposed/C08.patch (VerifCodecTypes in 6 packages with unexported codec types). '
               'JSON forms, nil nested pointers and nil slice elements are outside the domain (DESIGN 1.7). Native -fuzz campaign is not started by '
               'the driver (command in notes/C08.md); the fuzz target runs its seed corpus in every tier.',
 'technique': 'property-based testing (rapid): reflection-driven round trip, mutation-derived byte strings with an implication oracle, '
              'store/load metamorphic relation; exhaustive enumeration of short byte strings and single-character corruptions',
 'assumptions': ['equality of decoded values is over fields carrying a fieldNumber tag only (cached IDs/sizes are not wire data)',
                 'strings valid UTF-8; no nil slice elements; nested-message pointers never nil (no caller produces them)',
                 'SHA-256 from the Go standard library is the reference for IDs',
                 'Lisk32: the three prefix letters are not part of the checksum claim'],
 'quick': [{'pkg': 'c08', 'checks': 60000, 'timeout': 900}],
 'thorough': [{'pkg': 'c08', 'checks': 400000, 'shards': 16, 'timeout': 2400},
              {'pkg': 'c08', 'fuzz': 'FuzzTxStrict', 'fuzztime': '90s', 'timeout': 600}],
 'replay': [{'pkg': 'c08', 'checks': 1, 'timeout': 900}]}
