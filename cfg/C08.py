# run specification for C08 (loaded by checks_config.py)
CHECK = {'level': 'exploration',
 'rule': '(a) rapid-generated values of every generated-codec struct type (101 of the 103 types found by scanning all 28 *_codec.go files; tagged '
         'fields only, unexported fields via reflect.NewAt; boundary integers 0/2^(7k)+-1/max, byte slices of length 0/1/127/128/16383/16384, '
         'valid UTF-8 strings incl. non-NFC sequences, nil vs empty slices, nested and repeated messages, no nil elements / nil nested pointers) '
         'through Encode/Decode/DecodeStrict; (b) Writer/Reader integer, bool and packed-array primitives over the full boundary sets (exhaustive) '
         'and random values incl. math.MinInt64; (c) transactions: canonical encodings and byte strings derived from them by 17 mutation kinds '
         '(non-shortest varints in key/length/value position, swapped/missing/duplicated fields, trailing bytes/fields, wire type, field number, '
         'non-NFC / invalid UTF-8 strings, length +-, 64-bit overflow, truncation, splices), all byte strings of length <= 2 (<= 3 thorough), '
         'window-exhaustive replacement of every 0..2-byte window of small canonical encodings by every string of length <= 2, and the seed '
         'corpus of the native fuzz target; (d) 1-4 generated blocks (transactions, assets, optionally a header with missing fields that only '
         'the lenient header decoder accepts) through NewBlock -> Chain.AddBlock -> fresh DataAccess -> GetBlock*/GetTransaction/GetTempBlocks; '
         '(e) Lisk32: boundary (all single-bit) and random 20-byte addresses, every single-character substitution exhaustively for boundary '
         'addresses and random 1-4 character substitutions in the 38 data/checksum characters; (f) corrupted TEXT forms: valid Lisk32 texts '
         'damaged at byte level by 16 mutation kinds (any single bit flip incl. bit 7, bit 7 set on one/several/all bytes, bytes >= 0x80, '
         'multi-byte UTF-8 runes, valid-UTF-8 triples whose bytes alias alphabet characters modulo 128, upper case, length +-1 / truncation / '
         'missing prefix, ASCII outside the alphabet, checksum characters, transpositions, data changed with recomputed checksum, foreign '
         'prefix, white space, random bodies) through ValidateLisk32 / Lisk32ToBytes / BytesToLisk32 and the JSON path '
         'Lisk32.UnmarshalJSON/MarshalJSON, decided by an independent LIP-0018 reference in the harness (alphabet table over all 256 byte '
         'values, BCH polymod, 5<->8 bit regrouping; pinned by two published known answers); exhaustively every single-bit flip of all 41 '
         'bytes of 330 boundary addresses and every byte value 0..255 at every body position of 25 of them (all in thorough); seed corpus of '
         'the native target FuzzLisk32Text; the codec.Hex text form (String/MarshalJSON/UnmarshalJSON) with 11 mutation kinds against what '
         'encoding/hex documents. Non-trivial = (a) value with at least one '
         'non-default field of each field kind present in its type; (b) multi-byte varint / non-empty array; (c) byte string whose first field '
         'still parses structurally with bytes following; (d) a block with transactions and assets, or a lenient-form header; (e), (f) every case. '
         'Distinct by digest of type+encoded bytes / the byte string / the case tuple',
 'level_text': 'Round trip of generated values of every generated-codec type (decode(encode(v)) equal under NFC / nil=empty / absent=zero-message, '
               'deterministic and idempotent encoding, strict decoding of own encodings); for transactions the implication '
               'DecodeStrict(s)==nil => Encode(decoded)==s and ID==SHA-256(s) on generated canonical, derived, short-exhaustive and '
               'window-exhaustive byte strings; block/transaction IDs and encodings compared before and after store + cold load and re-encoding; '
               'Lisk32 bytes<->text identity and rejection of 1-4 substituted characters; for byte-level corrupted Lisk32 texts: accepted => '
               'BytesToLisk32(Lisk32ToBytes(text)) == text, accepted <=> an independent LIP-0018 reference accepts (same bytes), ValidateLisk32 '
               'and Lisk32ToBytes agree, same through the JSON path. Sampled, with exhaustive cores on small domains.',
 'level_note': 'Two scanned types are not instantiable from outside (package main debug tool; internal test fixture of pkg/codec) and are reported '
               'in the evidence notes. Needs the hook files of hooks_proposed/C08.patch (VerifCodecTypes in 6 packages with unexported codec types). '
               'JSON forms of the generated-codec types, nil nested pointers and nil slice elements are outside the domain (DESIGN 1.7); of the JSON '
               'layer only the text forms of codec.Lisk32 (in the statement) and codec.Hex (not in the statement: held to what encoding/hex '
               'documents, upper case accepted) are exercised. Not demanded (documented by the unchanged code): "" <-> empty address; the three '
               'prefix bytes are not inspected (texts with a foreign prefix are decided on their body and counted under '
               'lisk32_text:foreign_prefix_accepted). Native -fuzz campaigns (FuzzTxStrict, FuzzLisk32Text) run in the thorough tier only; '
               'the fuzz targets run their seed corpora in every tier.',
 'technique': 'property-based testing (rapid): reflection-driven round trip, mutation-derived byte strings with an implication oracle, '
              'store/load metamorphic relation; exhaustive enumeration of short byte strings and single-character corruptions; mutation-derived '
              'address texts decided by an independent reference implementation (differential); native coverage-guided fuzzing (thorough)',
 'assumptions': ['equality of decoded values is over fields carrying a fieldNumber tag only (cached IDs/sizes are not wire data)',
                 'strings valid UTF-8; no nil slice elements; nested-message pointers never nil (no caller produces them)',
                 'SHA-256 from the Go standard library is the reference for IDs',
                 'Lisk32: the three prefix letters are not part of the checksum claim',
                 'Lisk32 reference = LIP-0018 as written in the harness (alphabet zxvcpmbn3465o978uyrtkqew2adsjhfg, generator constants of the '
                 'LIP, checksum polynomial == 1), pinned by the LIP example and the fixture of pkg/codec/bytes_test.go',
                 'encoding/json (standard library) is the reference for how a JSON string literal becomes a Go string'],
 'quick': [{'pkg': 'c08', 'checks': 60000, 'timeout': 900}],
 'thorough': [{'pkg': 'c08', 'checks': 400000, 'shards': 16, 'timeout': 2400},
              {'pkg': 'c08', 'fuzz': 'FuzzTxStrict', 'fuzztime': '90s', 'timeout': 600},
              {'pkg': 'c08', 'fuzz': 'FuzzLisk32Text', 'fuzztime': '60s', 'timeout': 600}],
 'replay': [{'pkg': 'c08', 'checks': 1, 'timeout': 900}]}
