# run specification for C01
CHECK = {
 'level': 'exploration',
 'rule': 'rapid-generated adversarial executions producing fork trees of headers: 4-7 validators with equal/skewed/heavy weights, precommit '
         'threshold anywhere in the legal range, batch size n or n+1 (trees of up to 70 blocks, deeper than the 3-round window), a Byzantine subset '
         'inside the fault bound f < W/3 and f <= threshold - floor(W/3) - 1, round-robin slots with missed slots, 2-3 network partitions with healing, '
         'optional weight change at one height; Byzantine strategies random play (arbitrary parents and maxHeightGenerated, selective delivery), split '
         'brain (one honest-looking block per partition) and switch-back (partitions heal at drawn slots). Honest validators follow LIP-0014 fork '
         'choice and report the largest height they generated; every header is processed by the real BFT module on the state of its parent; headers '
         'an honest node rejects as contradicting never enter the tree. Non-trivial = >=2 branches of length >=2 after a fork, >=1 Byzantine block '
         'accepted, and finality advanced beyond the first fork. Distinct by digest of the execution log'
         ' Plus TestThresholdFloor: for drawn weight vectors, precommit thresholds 0, floor(W/3)/2 and floor(W/3) offered at genesis and as a later change must be refused and floor(W/3)+1 accepted (the safety argument of every tree needs that floor; non-trivial = total weight not divisible by 3).',
 'level_text': 'For every pair of tree nodes the blocks their chain views report as finalized (ancestors at or below maxHeightPrecommitted) must lie on '
               'one chain; along every path precommitted <= prevoted <= height and both heights are monotone; after every block of every branch the prevoted and precommitted heights the view reports equal those of the independent LIP-0058 counting model run along the same path (finality is backed by a quorum of distinct validators; the model state is cloned per tree node). A self-test with Byzantine weight '
               'beyond one third reports how often the same strategies produce a conflict (explorer power).',
 'level_note': 'Search, not proof: an attack needing a long precise schedule may be missed; C02 catches counting deviations that cannot by themselves '
               'break safety inside the bound.',
 'technique': 'property-based adversarial exploration (rapid) of fork trees with a global safety invariant over the real BFT module and a per-path differential against a LIP-0058 reference model',
 'assumptions': ['fault bound f < W/3 and f <= precommitThreshold - floor(W/3) - 1 (Lisk-BFT safety theorem)', 'honest validators modelled per LIP-0014/LIP-0058'],
 'quick': [{'pkg': 'c01', 'checks': 1500, 'timeout': 900}],
 'thorough': [{'pkg': 'c01', 'checks': 40000, 'shards': 16, 'timeout': 2400}],
}
