# run specification for C11 (loaded by checks_config.py)
CHECK = {'level': 'exploration',
 'rule': 'real rmt.RegularMerkleTree (map-backed and in-memory-pebble-backed storage) driven next to the plain list of leaves and compared '
         'with a naive LIP-0031 recursion: (a) every list length 0..260 (thorough 0..2100) grown leaf by leaf: Root()=CalculateRoot(list)=model '
         'root, AppendPath()=model append path, Size(), CalculateRootFromAppendPath vs the real append, reload after every append (0..260 / '
         '0..600); (b) for every size 1..200 (thorough 1..900) inclusion proofs for structured subsets (every single leaf, every adjacent pair, '
         'all, even/odd, both ends, right of the split, last leaf of every perfect subtree, stride 3, in sorted and reversed order) with negative '
         'variants (query slot replaced by other data / one flipped bit / hash of a real unqueried leaf; root flipped / empty / root of a list '
         'with one changed leaf); every right-witness index 0..n for every size 0..260 (0..1300); Update + CalculateRootFromUpdateData for '
         'structured index sets on a fresh storage copy for every size 1..130 (1..520); (c) rapid-generated trees with sizes around powers of '
         'two up to 2^12 (2^13 thorough), small sizes and uniform 0..2100, random distinct leaves (drawn byte strings incl. empty, 32-byte ids, '
         'mixed lengths, leaves starting with 0x00/0x01), random subsets/orders, reloads at drawn sizes, further appends after proofs, short '
         'histories of updates with proofs and reloads in between; (c2) histories of several Updates on ONE tree object in which leaf values '
         'RETURN to earlier values: enumerated for every size 1..40 (thorough 1..260) and every target leaf (structured targets above 16) the '
         'patterns A-B-A, A-B-C-A, no-op updates, A-B-reload-A, two leaves swapping values and back, a leaf set to the value of another leaf and '
         'back, two leaves changed and reverted together / separately, each followed by updates of other leaves; rapid-generated histories '
         '(sizes 1..12, 1..70, 1..300, 2^k+-3 up to 2^8; 2..12 steps of update / proof of a drawn subset with negative variants / reload '
         'continuing on the re-opened object / second object opened from the same store; update values drawn from: previous value of the '
         'position, its first value, any earlier value, unchanged, value of another leaf, fresh, a value used before elsewhere; swaps; 1..n '
         'positions concentrated on 1-3 drawn leaves); after EVERY step: Root()=CalculateRoot=model root, Size, a second object opened from '
         'the store has the same root/size/append path, and the STORED nodes are read back through the tree itself: the inclusion proof of '
         'EVERY single leaf (also the leaves no update named) verifies against the root and a right witness at EVERY index 1..n with the '
         'model append path of the prefix reconstructs it (labels hist-*); positions whose value was never held elsewhere are updated '
         'through a generated proof (VerifyProof, CalculateRootFromUpdateData = model root, Update) and their GenerateProof index is asserted, '
         'for repeated values (swaps, duplicates) Update goes by index and a GenerateProof answer is asserted when it names a current '
         'holder of the value (an earlier holder: counted as obs:*, not asserted); (d) lists with duplicate leaves built by Append: roots and '
         'append paths only; (e) argument '
         'discipline on every call of every public function of pkg/trie/rmt (CalculateRoot, CalculateRootFromAppendPath, '
         'CalculateRootFromUpdateData, CalculateRootFromRightWitness, VerifyProof, VerifyRightWitness, tree Append/Update/GenerateProof): '
         'query and update index lists in ascending, descending and shuffled order (labels order=*); every argument (index slices, hash lists, '
         'leaf data, the proof struct with its nested slices, append paths, witnesses, roots) compared byte for byte, through the full '
         'capacity of the outer slices, with a deep copy taken before the call (label args-compared-after-call); re-use: ONE proof object / '
         'query list / root slice serves the positive verification, every negative verification, the verification after them, two different '
         'update-root computations and (its index slice) two real Updates, each answer compared with fresh deep copies or the model (labels '
         'reuse:*), Append values handed over in a scratch buffer that is overwritten after the call; aliasing: the same arguments laid out '
         'as sub-slices of one buffer with full capacity / with spare capacity, outer slices as windows of one array, index list as window '
         'of a larger array with sentinels, must give the results of independent copies and stay unchanged (labels alias=*). Non-trivial = '
         'length >= 3 that is not a power of two; for subset cases additionally >= 2 queried/updated leaves lying on both sides of the root '
         'split; for update histories: such a length, at least one value returning to an earlier value of its position and the proof of at '
         'least one leaf that no update named checked afterwards. Distinct by digest of (kind, size, positions / drawn parameters / steps)'
         ' Plus TestResultsOutliveLaterCalls: histories of GenerateProof / GenerateRightWitness / Root / AppendPath / Append / Update on one tree object in which EVERY result handed out is kept with a deep copy; after every later operation all held results must be unchanged and held proofs and witnesses must still verify against the root they were generated for (non-trivial = at least two proofs held).'
         " Plus TestConcurrentIndependentTrees: 8 goroutines computing roots, proofs and witnesses of independent trees of different sizes at the same time; every result must equal the sequential model's (pure computations: no schedule can make a correct implementation fail).",
 'level_text': 'Differential test of the regular Merkle tree against a naive LIP-0031 model: exhaustive over all list lengths up to 260 '
               '(2100 thorough) for root/append path/size/reload/append prediction, over all witness indexes and structured proof and update '
               'index sets for every size in a smaller range, rapid-sampled beyond (sizes around powers of two up to 2^13, random subsets, '
               'operation histories; histories of updates on one tree object whose values return to earlier values, the whole stored tree read back '
               'through single-leaf proofs and right witnesses after every step). Soundness side: tampered query hashes and roots must be rejected. Every call is additionally checked for '
               'not modifying its arguments, for giving the same answers when the same argument objects are used again, and when the '
               'arguments share backing arrays.',
 'level_note': 'Model is my transcription of LIP-0031; appended leaves are distinct for proof/update/witness checks (hash-keyed location '
               'index), duplicates in appended lists only in root checks; values repeated through Update are addressed by index; after an '
               'Update nothing that depends on the stored append path is asserted (no append, no append path, no right witness at index 0).',
 'technique': 'exhaustive enumeration + property-based differential testing (rapid) against a LIP-0031 reference model',
 'assumptions': ['reference = my transcription of LIP-0031 in harness/model/rmt (SHA-256, prefixes 0x00/0x01, split at the largest power of two < n)',
                 'leaves distinct except in root-only checks (no caller appends duplicates)',
                 'reload of a never-written storage (n=0) is not asserted',
                 'no function of pkg/trie/rmt documents that it consumes or keeps an argument: arguments must be unchanged after the call and '
                 'may be overwritten by the caller afterwards',
                 'hash arguments with spare capacity inside one caller buffer: known finding C11-F5 (reported once per run, that layout is then '
                 'only counted; the full-capacity layouts are asserted strictly)',
                 'Update does not refresh the stored append path (observed, reported in notes/C11.md as outside the statement): no append, '
                 'append-path assertion and no right witness at index 0 (which returns the stored append path) after an Update; right '
                 'witnesses at indexes 1..n are read from the stored nodes and are asserted after updates in the update histories',
                 'GenerateProof addresses leaves by hash: when a value was held by more than one position during the life of the tree '
                 '(duplicates, swaps through Update) its answer is asserted only if it names a position holding the value now'],
 'quick': [{'pkg': 'c11', 'checks': 500, 'timeout': 600}],
 'thorough': [{'pkg': 'c11', 'checks': 3000, 'shards': 16, 'timeout': 2400}]}
