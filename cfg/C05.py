# run specification for C05
CHECK = {
 'level': 'exploration',
 'rule': 'rapid-generated node states (1-5 validators, history of 0-22 harness-built valid blocks with transactions, assets, events in all hooks, '
         'validator/threshold changes, aggregate commits, tiny/large block cache, event retention -1/1/3/300) then k<=4 applied blocks and deletion of '
         'every block above finality, with modes apply-delete / restore (re-apply with removeTemp) / sibling (reorg vs twin) / sync-detour (own blocks parked as temp blocks, 1-2 foreign blocks applied and removed without parking, parked blocks restored; the dump comparison then includes the temp blocks). Non-trivial = an applied '
         'block carried a parameter change, or transactions + assets + events together. Distinct by digest of the block history'
         ' Configuration draws include KeepEventsForHeights 0 (node.KeepEventsNone) next to -1/1/3/300.',
 'level_text': 'After every delete the full database dump, the cached tip, height/ID/transaction lookups and the BFT heights are compared byte for byte '
               'with the state recorded before the block was applied (exemptions: finalized marker, diffs/events pruned below the finality reached); '
               'temp blocks contain exactly the removed blocks when requested; a reorg to a sibling equals a twin node that applied the sibling first.',
 'level_note': 'Fake deterministic application (state root = hash chain; per-block events also for blocks without assets; generator-key rotations); blocks built by the harness from real node state; real Executer/Chain/pebble.',
 'technique': 'property-based testing (rapid): metamorphic apply+delete = identity, differential against a twin node',
 'assumptions': ['application state is scripted (C16 covers the real framework)', 'only blocks above the finalized height are deleted (C04)'],
 'quick': [{'pkg': 'c05', 'run': 'TestApplyDelete|TestTieBreakReorg|TestRegress', 'checks': 250, 'timeout': 600},
           {'pkg': 'c05', 'run': 'TestDiffApplyRevert', 'checks': 4000, 'timeout': 600}],
 'thorough': [{'pkg': 'c05', 'run': 'TestApplyDelete|TestTieBreakReorg|TestRegress', 'checks': 2500, 'shards': 14, 'timeout': 2400},
              {'pkg': 'c05', 'run': 'TestDiffApplyRevert', 'checks': 100000, 'shards': 2, 'timeout': 2400}],
}
