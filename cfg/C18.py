CHECK = {'level': 'exploration', 'rule': 'wip', 'level_text': 'wip', 'level_note': 'wip', 'technique': 'pbt', 'assumptions': [],
 'quick': [{'pkg': 'c18', 'checks': 5, 'timeout': 600}],
 'thorough': [{'pkg': 'c18', 'checks': 5, 'shards': 16, 'timeout': 1500}]}
