# run specification for C18 (loaded by checks_config.py)
CHECK = {'level': 'exploration',
 'rule': '(a) rapid-generated operation sequences on the real connection gater (hook constructor = newConnGater + optionWithBlacklist + start): 3-6 IPs '
         'out of 14 look-alike IPv4/IPv6 addresses, each addressed through 6 spellings (ip4, IPv4-mapped ip6 in dotted/hex/expanded form, tcp/quic, '
         '4 peer IDs), addPenalty amounts 1-150 incl. "exactly to the threshold" and "one below", blacklist configurations in 3 spellings, queries of '
         'InterceptPeerDial/AddrDial/Accept/Secured(in,out), listBannedPeers and the stored score; untimed (expiry 1 h) and timed (expiry 1-2 s, sweep '
         '50-200 ms, sleeps, wait-for-expiry, 24 sequences in parallel per rapid case) plus concurrent writers/readers. (b) end-to-end scenarios of 2-4 '
         'started p2p.Connections on loopback IPs, distinct or (see below) shared (127.0.0.1-9, ::1; security none/tls/noise; rate limit 2-6 with penalty 10-120): '
         'undecodable and unknown-procedure request/response envelopes on raw streams (oracle: the offence must BAN AT ONCE - pkg/p2p documents banRemotePeer = addPenalty(MaxPenaltyScore) + disconnect for them -, i.e. the stored score of a not-yet-banned IP must rise to >= the threshold in this one step, the IP be listed and the peer disconnected; a smaller rise is a violation, it is no longer taken over into the model as "some penalty"), bursts within/exactly at/above the rate limit, handler-issued '
         'ApplyPenalty/BanPeer, blacklisted peers, a peer without listen addresses (dial-only, connected inbound from 127.0.0.1 which it never '
         'announces; outbound attempts towards its IP probed against a closed port), dials in both directions during and after the ban, third parties, legal-only traffic across '
         'rate-window resets. One scenario in three (quick tier too) has TWO OR MORE PEERS ON ONE IP ADDRESS (2-4 of 3-4 nodes on the same 127.0.0.x / all three on ::1, '
         'different ports; also a dial-only peer plus a listening peer on 127.0.0.1, also the penalising node itself on that IP): both connect to a third '
         'node (either side dials), penalties of one or of both peers take the IP total to the threshold (score accumulates over peer IDs), the peer that '
         'kept its connection then offends through ApplyPenalty 1-30 / a burst above the rate limit / BanPeer / a bad or unknown-procedure envelope and '
         'must be disconnected at that penalty (IP total already at/above the threshold), both peers re-dial and are dialled during the ban, ban awaited, '
         'both reconnect, small penalties of both add up from a clean score; 8 fixed scripts of that shape run in every tier (TestRegressSharedIPPeers). '
         'EVERY PROCEDURE HAS ITS OWN COUNTER: all nodes serve three rate-limited procedures (echo, echo2, echo3) with their own limits 2-6 and penalties; legal-only '
         'scenarios (rate interval 250 ms / 600 ms / 1.5 s) send interleaved mixes over all three in a drawn order, each procedure within or exactly at ITS limit while the sum '
         'over the procedures exceeds single limits, before the first reset tick of the rate limiter, after observed resets and in both directions: oracle = no stored score '
         'anywhere (also watched while every request is in flight: a false ban of 1-2 s would be over before a timeout), every request answered, still connected, nobody listed. '
         'Mirror scenarios (1 in 10, interval 1 s): after an OBSERVED reset edge (a marker message is polled until its counter drops to zero) one procedure receives limit+1 '
         'messages next to legal amounts of the others, all within that counter window (given up, never judged, when the window is nearly used up): exactly one penalty of that '
         'procedure, repeated after further resets until the penalties add up to the ban, then the usual ban consequences. Offence scenarios exceed the limit of any of the three procedures. '
         'PEERS WITH 2-3 SIMULTANEOUS CONNECTIONS (1 scenario in 5; multiconn_test.go): the peer consists of libp2p hosts sharing one key (one host per connection; on 127.0.0.1 / ::1), '
         'the first connection opened by the peer (inbound at the node) or by the node (outbound), the others by the peer; well-formed requests over every connection, then an offence of '
         'each kind over a drawn connection (undecodable / unknown-procedure envelope on the request or response protocol, rate-limit overrun spread over the connections, handler-issued '
         'ApplyPenalty in steps / BanPeer): oracle = once the stored total reaches the threshold the IP is listed and NO connection to the peer remains (ConnsToPeer == 0 and not in '
         'ConnectedPeers within 3 s), re-dials from each of its sockets and the own dial of the node are refused while the ban is certain, accepted after it, request served, clean score, '
         'small penalty exact. Fixed scripts of both kinds run in every tier (TestRegressMultiConnPeers: 8, TestRegressRateLimitPerProcedure: 3). '
         'CONCURRENT TRAFFIC AROUND RESET TICKS (about 1 scenario in 8; conc_test.go): node V applies the drawn limits (4-10 per procedure, penalties 10-100) with a '
         'rate-limit interval of 300/500/800 ms; 6-8 nodes, each on its own IP; over 3-6 consecutive reset ticks 2-3 innocent peers send 50-100 % of every procedure limit in EVERY '
         'counter window (early, spread over the window, late, or straddling the tick; one of them always more than half of every limit, early) while 1-3 offenders fill one procedure '
         'to its limit and send the decisive message right before the estimated tick, so that rateLimit.checkLimit is penalising / banning / disconnecting with the counter lock held '
         'when the tick fires: in "hold" ticks (1 in 2) that call is kept where it is ACROSS the tick through the logger handed to V (checkLimit logs "sent too many messages" with the '
         'lock held; the hold ends when another procedure is seen reset, at the latest after interval/2), in "free" ticks (1 in 3) one or two offenders are only timed at the tick '
         '(natural coincidence with the penalty/disconnect path, counted as an estimate). The counter windows are delimited WITHOUT reading the counters of the innocent peers: a tick '
         'cannot come earlier than one interval after an instant at which a sentinel message of peer K was still counted before the previous reset; a window is over when the sentinel '
         'counters of ALL procedures read zero (fallback, never needed on the unchanged tree: the tick has positively fired, no penalising checkLimit is in progress, >= 20 process '
         'heartbeats / 100 ms passed); a message that overlaps such a zone is charged to BOTH windows and every window stays within the limit. Oracle: V never stores a score for the '
         'IP of an innocent peer (sampled every 3 ms through the whole scenario), never lists it, stays connected to it, every one of its requests is answered. 3 fixed scripts in '
         'every tier (TestRegressConcurrentResetTicks: 5 and 6 held ticks at 500 / 300 ms, 3 unheld bans at the tick). '
         'LATE BUT HONEST RESPONSES (about 1 scenario in 11; late_test.go): honest peers whose handlers answer every request, but SLOWLY - well-formed, solicited responses that arrive after '
         'the requester stopped waiting. 2-4 started p2p.Connections (own IPs / 2-3 responders on one IP / a dial-only responder seen as 127.0.0.1, optionally next to a listener on 127.0.0.1 / '
         'everybody on ::1) or a node plus a raw libp2p peer with 2-3 simultaneous connections that answers over a connection of its choice; limits 60-100 per procedure, rate interval 1 h, every '
         'RequestFrom charged with its worst case (messageMaxRetries+1 requests and responses), so that all traffic is within the limits whatever the timing. The response timeout of the requester '
         'is set per event through the hook (15-60 ms); request kinds: slow = the first 1..messageMaxRetries+1 attempts of a RequestFrom are answered timeout+3..30 ms after they arrived (several late '
         'responses per request, then answered or given up), edge = every attempt answered timeout-6 ms..timeout+6 ms after it arrived (answer racing the timeout), cancel = the caller\'s context ends 8 ms '
         'before .. 8 ms after the handler answers (one attempt under a 1 min timeout, or in the middle of the retries), prompt; 2-3 all-slow requests per responder (6-12 late responses per peer, more '
         'per shared IP) plus 1-4 of the other kinds, sent one by one or to several peers at once, in both directions, between legal mixes over the three procedures, single requests, re-dials and '
         'well-formed requests of the multi-connection peer; optionally ONE late response followed by a read of the score. Oracle (never claims that a response WAS late): after purely honest traffic '
         'every node stores no score and no ban for any IP of the scenario or 127.0.0.1 / ::1 - read after every event, sampled every 5 ms through the whole scenario (3 scenarios in 5 use a 1 h expiry, '
         'nothing is ever swept), read again once the traffic has demonstrably drained (all handlers returned, every node\'s message counters equal requests arrived + responses sent) -, nobody is '
         'listed, everybody is still connected, a re-dial passes the gates, a further request is served. A stored score is positive evidence and is reported at its first occurrence. Labels count the '
         'responses OBSERVED late (requester saw errTimeout / a cancelled context while the handler completed), per-IP maxima 1-4 / 5-11 / >= 12. 8 fixed scripts in every tier '
         '(TestRegressLateHonestResponses: 3 x 4 late attempts; 5 single late responses with the score read after each; 7 cancels before / 2 after the answer; 8 answers racing the timeout; two '
         'responders on one IP; dial-only responder; both nodes on ::1 slow in turn; responder with 3 connections answering over other connections). '
         'HIT-AND-RUN OFFENDERS (about 1 generated scenario in 12 + 10 fixed scripts in every tier; hitrun_test.go): the offender writes its offending message and closes the stream AND the connection at once, so that the '
         'victim books the offence for a peer that has already left. Offenders: a started p2p.Connection on its own loopback IP / without listen address (seen as 127.0.0.1) / on ::1 next to the victim (raw-stream hook), '
         'or the raw libp2p peer with 1-3 simultaneous connections (scope all: every connection closed; scope one: only the connection that carried the message - the ban must close the others). Offences: undecodable '
         'envelope / unknown procedure on the request and on the response protocol, the request that exceeds a procedure limit (window filled with served requests first; repeated with re-dials - which must be ADMITTED below '
         'the threshold - until banned), handler-issued ApplyPenalty/BanPeer racing with the close, ApplyPenalty/BanPeer by peer ID right after the disconnect. Orderings (drawn): gone = FORCED through the logger handed to '
         'the victim (onRequest/onResponse log "Data from <peer> received" after the stream was read and before decoding, checkLimit logs "sent too many messages" right before it penalises): the handler is kept in that logger '
         'call until the victim itself lists no connection to the offender, then released; race = the offender closes 0-10 ms after the write, nothing forced, what happened is labelled (message lost / penalty path entered '
         'with the offender gone / still connected); logged = closes as soon as the victim logged the offence. Oracle, positive evidence only: once the victim has LOGGED the offence (message read, penalty call reached) its '
         'stored score for the offender IP must show the penalty within 6 s (heartbeat-aware): >= threshold in one step for envelope offences, exactly the procedure penalty for the rate limit; a message the victim never '
         'logged earns nothing (counted). Then the ban consequences as everywhere: listed, no connection left, re-dials from the IP (InterceptAccept/Secured) and the own dial of the victim (InterceptAddrDial) refused while '
         'the ban is certain, ban seen over, re-dial admitted, request served, clean score, small penalty exact. Outside the domain, recorded only: Connection.ApplyPenalty/BanPeer(peerID) resolve the address through the live '
         'connections of the peer - for a peer that has left the unchanged engine knows no address and books nothing; a handler-issued penalty is asserted only when the victim still held a connection right after the call. '
         'LARGE HONEST MESSAGES (about 1 generated scenario in 13 + 4 fixed scripts in every tier; size_test.go): well-formed says nothing about size - honest requests AND responses with payloads of 0 B, 1 KiB, 64 KiB, 1 MiB-64, 1 MiB-1, 1 MiB, 1 MiB+1, 1.5 MiB, 3 MiB (envelope = payload + ~50 bytes; neither the unchanged engine nor libp2p has a size limit up to 3 MiB: all classes are delivered intact), request and response class drawn independently (the echo handlers answer what the scenario prescribes), every scenario with at least one large response to a small request and one large request, both directions, between started p2p.Connections (own IPs / two responders on one IP / dial-only peer seen as 127.0.0.1 / ::1) and with the raw multi-connection peer (its requests and answers over connections of its choice), limits 60-100, rate interval 1 h, response timeout 2 min, legal mixes / re-dials / drains in between; the single well-formed requests of the general scenarios (legal-only and before offences) carry an echoed payload of a drawn class as well. Oracle: no node stores a score or ban for any IP of the scenario or 127.0.0.1 / ::1 - read after every exchange, sampled every 5 ms (also while a transfer is in flight), read again after the drain; a stored score is positive evidence, reported at its first occurrence -, the handler received exactly the bytes sent (once) and the requester exactly the bytes written, everybody still connected, a re-dial passes the gates, a further request is served. Fixed scripts (TestRegressLargeHonestMessages): 1.5 MiB response to a 1 KiB request then a 1.5 MiB request; the classes around 1 MiB and 3 MiB in both directions (tls, expiry 2 s); dial-only peer (noise); raw peer with 2 connections. '
         'Non-trivial = (timed gater) an IP crossed the threshold by accumulation, was queried while certainly banned and again '
         'after the ban was seen over; (untimed gater) crossed by accumulation and queried while banned; (end-to-end) a ban caused by traffic with a '
         'refused dial during the ban and an accepted one after it (multi-connection peer: banned while holding >= 2 connections, all closed), or a legal-only scenario that filled a rate window exactly or whose mix over the procedures exceeded a single limit, or (concurrent traffic around ticks) a reset tick that fell into a held or running penalty path of a procedure of which an innocent peer sent more than the limit over the two adjacent windows, or (late honest responses) at least one response observed late, the scores read after the traffic had drained and a re-dial accepted, or (hit-and-run) an offence booked although the victim listed no connection to the offender (or not the offending connection) when it logged the offence, with a refusal while the ban was certain and the ban seen over, or (large honest messages) a request envelope and a response envelope above 1 MiB delivered intact, the scores read after the drain and a re-dial accepted; (concurrent) >= 2 '
         'racing penalties reaching the threshold. Distinct by digest of the concrete operation list. '
         '(c) INVALID SYNC REQUESTS against the REAL sync handlers (TestSyncRequests, TestRegressSyncRequests): the penalising side is a real consensus '
         'node (harness/node: Executer + consensus/sync Syncer over an in-memory chain of 1-6 blocks, started p2p.Connection on which Executer.Init '
         'registered getLastBlock, getHighestCommonBlock, getBlocksFromId), the requesters are plain started p2p.Connections on their own loopback IPs '
         '(127.0.20+.x) using RequestFrom. 4-10 requests per scenario, 10 scenarios in parallel per rapid case: getHighestCommonBlock with nil data, '
         'undecodable data (7 garbage families, classified with the real decoder), an empty list, only malformed IDs, lists MIXING well-formed (on-chain / '
         'unknown) and malformed IDs with the first malformed ID at the first / a middle / the last position, ID lengths 0/1/16/20/31/33/64 (random bytes '
         'or a real block ID cut short / extended), one malformed ID in a list of 110-400, and as valid requests known / unknown / mixed / duplicate IDs and '
         'lists of 110-500 IDs; getBlocksFromId with nil, undecodable, ID of a wrong length, known ID, tip, unknown well-formed ID; getLastBlock plain '
         '(with a payload: sent, nothing asserted); requesters are reused while clean, one in four carries a partial score (ApplyPenalty 1-60 by the node) '
         'before the request. Oracle = the rule the handlers document (restated in the harness): getHighestCommonBlock invalid iff no data, undecodable, no '
         'ID, or ANY ID whose length is not 32; getBlocksFromId invalid iff no data, undecodable or ID length not 32; getLastBlock never. Invalid: the node '
         'must store score >= threshold for the sender IP, list it, disconnect the peer, refuse its re-dial and refuse its own dial towards it (ban model '
         'zones); one scenario in four uses a 1-2 s expiry and ends with the ban awaited, the peer accepted again, served, clean score, small penalty exact. '
         'Valid: score unchanged (exactly the partial score), still connected, not listed, and the node earns no score at the requester. Non-trivial (sync) '
         '= a ban by an invalid request with a certain refusal in both directions plus a valid request that left its sender clean in the same scenario, '
         'or a full ban life cycle',
 'level_text': 'Model-based property test of the penalty/ban logic: the real gater and real loopback connections are driven by generated histories '
               'and compared after every step with a ban model with tolerance windows (banned from the crossing call until at least expiry, at most '
               'expiry + 1 s + sweep + 3 s slack; exact outside the window, either answer inside, first "accepted" ends the ban; score restarts from '
               'zero). Sampled, wall clock real.',
 'level_note': 'Production constants (24 h ban, 10 s sweep, 10 s rate window) are shortened through the verif hook: the logic, not the constants, is '
               'tested. Whole-second expiries only (the engine keeps unix seconds). Invalid sync requests are sent to the real sync handlers of a harness consensus node (part c); the '
               'end-to-end scenarios of part b use a stand-in handler that calls BanPeer/ApplyPenalty. Whether a request is invalid follows the rule the '
               'handlers document (any malformed block ID makes a getHighestCommonBlock request invalid); undecodable data is classified with the engine decoder.',
 'technique': 'property-based / model-based testing (rapid) with tolerance windows; end-to-end scenarios on loopback',
 'assumptions': ['an IPv4-mapped IPv6 address is the same IP as the IPv4 address',
                 'per gate refusal: InterceptAddrDial (outbound), InterceptAccept and InterceptSecured(inbound) must each refuse a banned/blacklisted IP',
                 'the score of an IP is not asserted while it is banned',
                 'ban threshold 100 (MaxPenaltyScore) and retry budget 3 (messageMaxRetries, used by the late-response scenarios) are the documented protocol values; the accessors p2p.VerifMaxPenaltyScore / p2p.VerifMaxRetries() are pinned to them in TestMain (a changed constant fails every process of the package instead of moving the oracle)',
                 'envelope offences (undecodable envelope, unregistered procedure, on the request or the response protocol) are documented by pkg/p2p as an immediate ban (banRemotePeer); the amount by which the score rises is not asserted beyond "reaches the threshold in one step"',
                 'several peers on one IP: the peer whose penalty leaves the IP total at/above the threshold must be disconnected at that penalty '
                 '(asserted when the stored total is seen to change to >= threshold while that peer was connected); that OTHER peers of the IP keep '
                 'an already open connection until their own next penalty is the engine\'s behaviour and is recorded, not asserted',
                 '"the limit": messages of ONE procedure received from one peer ID (requests and responses, over whichever connection) per counter window; every procedure has its own limit; all nodes use the same limits (mirror scenarios: only the penalising node)',
                 'Connection.ApplyPenalty/BanPeer apply the amount once per open connection of the peer (recorded, not judged): for a peer with n connections a rise by 1..n times the amount is accepted',
                 'a goroutine may be delayed at any point: keeping rateLimit.checkLimit inside its logger.Debugf call (the counter lock is held there) for at most half a rate-limit interval is a schedule the statement quantifies over',
                 'window over by elapsed time (fallback of the concurrent-tick scenarios, not needed on the unchanged tree): after a reset tick has positively fired, every counter has been reset once no penalising checkLimit is in progress and the process ran >= 20 heartbeats (>= 100 ms) since',
                 'an end-to-end scenario is reported only if it fails in 3 consecutive attempts without a process stall > 250 ms (else inconclusive); exception (late-response scenarios): a score or ban stored for the IP of a peer that only sent well-formed, solicited traffic within the limits is positive evidence that no delay can produce and is reported at its first occurrence',
                 'a response to a request this node really sent (same request ID, registered procedure, decodable) is well-formed traffic whenever it arrives: after the response timeout, after a re-send under a fresh ID, after the caller cancelled; the re-sends of RequestFrom (up to messageMaxRetries) count as requests of the requester',
                 'a request or response envelope that decodes, names a registered procedure and stays within the rate limits is well-formed traffic at every size the transport delivers (checked up to a payload of 3 MiB; the unchanged engine and libp2p set no limit of their own); that it is delivered intact is asserted next to the scores (3-attempt rule), a stored score for its sender is reported at once',
                 'hit-and-run: a penalty belongs to the IP the offending message came from, not to the live connection; the victim logging the offence (its stream handler read the message and reached the penalty call) is the evidence that the message was processed; keeping the handler in that logger call until the offender is gone is a schedule the statement quantifies over; penalties addressed by peer ID (ApplyPenalty/BanPeer) for a peer without any live connection are outside the domain',
                 'a "ban should be over by now" verdict is final only if it persists over 600 further process heartbeats (>= 3 s)'],
 'quick': [{'pkg': 'c18', 'run': 'TestGaterUntimed|TestGaterConcurrent|TestRegress', 'checks': 3000, 'timeout': 600},
           {'pkg': 'c18', 'run': 'TestGaterTimed', 'checks': 6, 'shrinktime': '10s', 'timeout': 600},
           {'pkg': 'c18', 'run': 'TestE2E', 'checks': 5, 'shrinktime': '10s', 'timeout': 600},
           {'pkg': 'c18', 'run': 'TestSyncRequests', 'checks': 6, 'shrinktime': '10s', 'timeout': 600}],
 'replay': [{'pkg': 'c18', 'run': 'TestGaterUntimed|TestGaterTimed|TestGaterConcurrent|TestE2E|TestSyncRequests', 'checks': 1, 'timeout': 900}],
 'thorough': [{'pkg': 'c18', 'run': 'TestGaterUntimed|TestGaterConcurrent|TestRegress', 'checks': 25000, 'shards': 4, 'timeout': 1500},
              {'pkg': 'c18', 'run': 'TestGaterTimed', 'checks': 60, 'shards': 6, 'gomaxprocs': 3, 'shrinktime': '10s', 'timeout': 1500},
              {'pkg': 'c18', 'run': 'TestE2E', 'checks': 40, 'shards': 6, 'gomaxprocs': 4, 'shrinktime': '10s', 'timeout': 1500},
              {'pkg': 'c18', 'run': 'TestSyncRequests', 'checks': 40, 'shards': 4, 'gomaxprocs': 4, 'shrinktime': '10s', 'timeout': 1500}]}
