# run specification for C18 (loaded by checks_config.py)
CHECK = {'level': 'exploration',
 'rule': '(a) rapid-generated operation sequences on the real connection gater (hook constructor = newConnGater + optionWithBlacklist + start): 3-6 IPs '
         'out of 14 look-alike IPv4/IPv6 addresses, each addressed through 6 spellings (ip4, IPv4-mapped ip6 in dotted/hex/expanded form, tcp/quic, '
         '4 peer IDs), addPenalty amounts 1-150 incl. "exactly to the threshold" and "one below", blacklist configurations in 3 spellings, queries of '
         'InterceptPeerDial/AddrDial/Accept/Secured(in,out), listBannedPeers and the stored score; untimed (expiry 1 h) and timed (expiry 1-2 s, sweep '
         '50-200 ms, sleeps, wait-for-expiry, 24 sequences in parallel per rapid case) plus concurrent writers/readers. (b) end-to-end scenarios of 2-4 '
         'started p2p.Connections on loopback IPs, distinct or (see below) shared (127.0.0.1-9, ::1; security none/tls/noise; rate limit 2-6 with penalty 10-120): '
         'undecodable and unknown-procedure request/response envelopes on raw streams, bursts within/exactly at/above the rate limit, handler-issued '
         'ApplyPenalty/BanPeer, blacklisted peers, a peer without listen addresses (dial-only, connected inbound from 127.0.0.1 which it never '
         'announces; outbound attempts towards its IP probed against a closed port), dials in both directions during and after the ban, third parties, legal-only traffic across '
         'rate-window resets. One scenario in three (quick tier too) has TWO OR MORE PEERS ON ONE IP ADDRESS (2-4 of 3-4 nodes on the same 127.0.0.x / all three on ::1, '
         'different ports; also a dial-only peer plus a listening peer on 127.0.0.1, also the penalising node itself on that IP): both connect to a third '
         'node (either side dials), penalties of one or of both peers take the IP total to the threshold (score accumulates over peer IDs), the peer that '
         'kept its connection then offends through ApplyPenalty 1-30 / a burst above the rate limit / BanPeer / a bad or unknown-procedure envelope and '
         'must be disconnected at that penalty (IP total already at/above the threshold), both peers re-dial and are dialled during the ban, ban awaited, '
         'both reconnect, small penalties of both add up from a clean score; 8 fixed scripts of that shape run in every tier (TestRegressSharedIPPeers). '
         'Non-trivial = (timed gater) an IP crossed the threshold by accumulation, was queried while certainly banned and again '
         'after the ban was seen over; (untimed gater) crossed by accumulation and queried while banned; (end-to-end) a ban caused by traffic with a '
         'refused dial during the ban and an accepted one after it, or a legal-only scenario that filled a rate window exactly; (concurrent) >= 2 '
         'racing penalties reaching the threshold. Distinct by digest of the concrete operation list',
 'level_text': 'Model-based property test of the penalty/ban logic: the real gater and real loopback connections are driven by generated histories '
               'and compared after every step with a ban model with tolerance windows (banned from the crossing call until at least expiry, at most '
               'expiry + 1 s + sweep + 3 s slack; exact outside the window, either answer inside, first "accepted" ends the ban; score restarts from '
               'zero). Sampled, wall clock real.',
 'level_note': 'Production constants (24 h ban, 10 s sweep, 10 s rate window) are shortened through the verif hook: the logic, not the constants, is '
               'tested. Whole-second expiries only (the engine keeps unix seconds). Malformed *sync* requests are represented by a handler that calls '
               'BanPeer/ApplyPenalty like the sync handlers do; the real sync handlers need a consensus node and are not driven here.',
 'technique': 'property-based / model-based testing (rapid) with tolerance windows; end-to-end scenarios on loopback',
 'assumptions': ['an IPv4-mapped IPv6 address is the same IP as the IPv4 address',
                 'per gate refusal: InterceptAddrDial (outbound), InterceptAccept and InterceptSecured(inbound) must each refuse a banned/blacklisted IP',
                 'the score of an IP is not asserted while it is banned',
                 'several peers on one IP: the peer whose penalty leaves the IP total at/above the threshold must be disconnected at that penalty '
                 '(asserted when the stored total is seen to change to >= threshold while that peer was connected); that OTHER peers of the IP keep '
                 'an already open connection until their own next penalty is the engine\'s behaviour and is recorded, not asserted',
                 '"the limit": messages of one procedure received from one peer (requests and responses) per counter window; all nodes use the same limit',
                 'an end-to-end scenario is reported only if it fails in 3 consecutive attempts without a process stall > 250 ms (else inconclusive)',
                 'a "ban should be over by now" verdict is final only if it persists over 600 further process heartbeats (>= 3 s)'],
 'quick': [{'pkg': 'c18', 'run': 'TestGaterUntimed|TestGaterConcurrent|TestRegress', 'checks': 3000, 'timeout': 600},
           {'pkg': 'c18', 'run': 'TestGaterTimed', 'checks': 6, 'shrinktime': '10s', 'timeout': 600},
           {'pkg': 'c18', 'run': 'TestE2E', 'checks': 5, 'shrinktime': '10s', 'timeout': 600}],
 'replay': [{'pkg': 'c18', 'run': 'TestGaterUntimed|TestGaterTimed|TestGaterConcurrent|TestE2E', 'checks': 1, 'timeout': 900}],
 'thorough': [{'pkg': 'c18', 'run': 'TestGaterUntimed|TestGaterConcurrent|TestRegress', 'checks': 25000, 'shards': 4, 'timeout': 1500},
              {'pkg': 'c18', 'run': 'TestGaterTimed', 'checks': 60, 'shards': 6, 'gomaxprocs': 3, 'shrinktime': '10s', 'timeout': 1500},
              {'pkg': 'c18', 'run': 'TestE2E', 'checks': 40, 'shards': 6, 'gomaxprocs': 4, 'shrinktime': '10s', 'timeout': 1500}]}
