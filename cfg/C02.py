# run specification for C02 (loaded by checks_config.py)
CHECK = {'level': 'exploration',
 'rule': 'rapid-generated single chains of headers (genesis height 0/1/1000, batch size 2-6, length up to 6*batchSize+2, generators '
         'active/standby/removed, maxHeightGenerated honest/0/h-1/>=h/random, aggregate commits, legal parameter changes incl. no-ops) replayed '
         'through the real liskbft module and a height-indexed LIP-0058 model, compared after every header; before a fifth of the steps the module under test takes a detour (1-3 headers of an abandoned branch, half of them with a parameter change, then its store is rolled back) which the model and the twin never see; plus SetBFTParameters validation cases '
         'and fault-free round-robin runs with the two-quorum finality bound; plus a small-scope ENUMERATION: ten worlds (2-3 validators, equal/heavy weights, low precommit threshold, standby generator, join/leave/re-weight at a fixed height) x genesis height 0/1000, every admissible chain over generator x maxHeightGenerated-kind by iterative deepening to a complete depth within a node budget (depth reached is in the notes), same full comparison after every header. Non-trivial = chain longer than the 3*batchSize window with at least '
         'one of {effective parameter change, validator joined/left, header with maxHeightGenerated>=height, certified height advanced}; round-robin '
         'runs longer than the window; rejected parameter sets. Distinct by digest of the full step list',
 'level_text': 'Differential test of the real BFT module against an independent transcription of LIP-0058 after every header of generated chains: '
               'three heights, per-block prevote/precommit weights, per-validator vote info, parameter lookups/pruning, plus byte-level determinism '
               'of two nodes fed the same chain and a model-independent finality bound in fault-free round-robin runs.',
 'level_note': 'Model is my reading of LIP-0058; only headers verifyBlock admits (consecutive heights, maxHeightPrevoted = node value, not '
               'contradicting).',
 'technique': 'property-based differential testing (rapid) against a LIP-0058 reference model',
 'assumptions': ['LIP-0058 transcription in harness/model/bft', 'ImpliesMaximalPrevotes not asserted (outside the statement)'],
 'quick': [{'pkg': 'c02', 'checks': 1500, 'timeout': 600}],
 'thorough': [{'pkg': 'c02', 'checks': 12000, 'shards': 16, 'timeout': 2400, 'args': ['-test.skip', 'TestExhaustiveSmall']},
              {'pkg': 'c02', 'run': 'TestExhaustiveSmall', 'shards': 16, 'timeout': 2400}]}
