# run specification for C04
CHECK = {
 'level': 'exploration',
 'rule': 'rapid state machine over one real node (1-5 validators): apply valid blocks (transactions, validator changes, aggregate commits), offer '
         'invalid blocks, delete the tip (with/without temp copy), request deletion of finalized blocks, reorganise above finality, offer siblings of '
         'the tip (double forging, tie break valid/invalid in the current wall-clock slot), restart, and - a third of the nodes live on a strict in-memory file system - a kill at a drawn file-system operation while a valid block is applied, unsynced data lost, node reopened (the stored finalized height may only move together with the block that raises it); plus two-node runs over real p2p connections (TestSyncFinality) in which finality rises inside a fast or full sync and the finalize events must account for every raise. Non-trivial = the finalized height rose at least '
         'twice and a delete/reorg/tie break/invalid offer/restart happened after a rise. Distinct by digest of the action log'
         ' Plus TestSlowSubscriber (8 cases quick / 40 per thorough shard): a subscriber of the production kind (unbuffered Executer.Subscribe channels for new/delete/finalize read by one goroutine) stalls 0-2.5 s at drawn events while 4-9 blocks are applied; the finalization events it RECEIVED must be exactly the raises, in order (non-trivial = a stall above 1 s and at least two raises). Configuration draws include KeepEventsForHeights 0.',
 'level_text': 'After every action: finalized height never decreases; every finalized height keeps the block ID first observed for it (also across '
               'restart); after an apply the stored finalized height equals max(previous, maxHeightPrecommitted of the new tip); finalize events chain '
               'exactly old->new for every raise and only for raises; deleting a block at or below finality is refused and changes nothing.',
 'level_note': 'Sync-driven histories (honest/malicious peers) are exercised in C19 with the same finality oracle; application is the scripted fake.',
 'technique': 'stateful property-based testing (rapid state machine) with history invariants',
 'assumptions': ['wall clock fixed in slot 1000 by genesis placement', 'fake deterministic application'],
 'quick': [{'pkg': 'c04', 'checks': 80, 'steps': 40, 'timeout': 600}],
 'thorough': [{'pkg': 'c04', 'checks': 500, 'steps': 60, 'shards': 16, 'timeout': 2400}],
}
