# run specification for C09 (loaded by checks_config.py)
CHECK = {
 'level': 'exploration',
 'rule': '41 targets (decoders NewBlock/NewBlockHeader/NewTransaction/NewBlockAsset/NewEvent, Block/Transaction.Validate on both decoding paths, '
         'EventPostSingleCommits.DecodeStrict, p2p Request/response/Message envelopes, gossip wrapper around the three topic validators, '
         'Executer.blockValidator/singleCommitValidator/verifyAggregateCommit on a 24-block 10-validator node, txpool validator and RPC handler, the '
         'three sync RPC handlers on a started connection, the requester-side decoders of the three sync RPCs (pure and end to end against a scripted '
         'peer), smt.Verify, rmt.VerifyProof/CalculateRootFromUpdateData/VerifyRightWitness, proofs arriving as bytes, BLSVerify/PopVerify/'
         'VerifyAggSig/VerifyWeightedAggSig, crypto.VerifySignature, BlockHeader.VerifySignature, Lisk32 text) called behind recover + watchdog + '
         'allocation accounting with: (1) the complete single-mutation neighbourhood of valid messages built with the engine\'s own Encode (every prefix, '
         'every prefix inside every nested message with enclosing lengths corrected, every length prefix -> 0/len+-1/rest/rest+1/2^31/2^32/2^63/2^64-1/'
         'overlong/unterminated, every key -> every wire type and neighbouring/boundary field numbers, varint values -> boundaries and hostile '
         'encodings, byte flips, field deleted/duplicated/swapped, payload removed, splices of two messages, trailing bytes) and of valid argument sets '
         '(every length of every key/signature/bitmap/hash, lists emptied/truncated/extended past byte boundaries, integers to boundaries, infinity and '
         'malformed curve points); (2) every byte string of length <= 2 for every byte-string target (<= 3 for the cheap ones in thorough); (3) rapid: '
         '1-6 stacked random mutations, random short strings, 64 KiB+ runs, 2000-deep nestings, 20000 repeated empty elements; native fuzz targets run '
         'their seed corpus. Oracle: no panic; <= 2 s per call (reproduced 3x); bytes allocated <= 1 MiB + 256 x input length (1024 x for the SMT '
         'verifier); gossip validators never Accept what does not decode, singleCommitValidator never Accepts; Downloader stops against a peer that '
         'never serves the advertised tip. Non-trivial = derived from a valid message/argument set by <= 3 mutations, or passing the target\'s first '
         'decoding step; distinct by digest of (target, arguments)',
 'level_text': 'Every network-facing decoder, validator and verifier is called in-process with exhaustively enumerated and randomly stacked structural '
               'mutations of valid messages and with all short byte strings; a recovered panic, a call that does not return (watchdog with goroutine '
               'dump), a reproducible overrun of the generous time/allocation envelopes, or an Accept for an undecodable gossip payload is a violation.',
 'level_note': 'Envelopes are fixed and generous, not proved bounds; inputs > 64 KiB only sampled; decoders of the node\'s own storage and the JSON-RPC '
               'endpoint layer are not targeted; process-fatal errors are attributed with VERIF_C09_LOG=<file> (every case logged before it runs).',
 'technique': 'property-based robustness testing: exhaustive structure-aware mutation + exhaustive short inputs + rapid stacked mutations + native fuzz seed corpora',
 'assumptions': ['fake deterministic application (node harness)', 'loopback networking for the RPC handler / requester targets',
                 'hooks_proposed/C09.patch applied (verif_hooks_c09.go in pkg/p2p, pkg/txpool, pkg/consensus/sync)'],
 'quick': [
   {'pkg': 'c09', 'run': 'TestDecodeMutations|TestDecodeShortStrings|TestRegress|^Fuzz|TestReplayCase', 'timeout': 900},
   {'pkg': 'c09', 'run': 'TestNodeMutations|TestNodeShortStrings|TestAggregateCommitEnumerated|TestSyncClientE2E|TestDownloaderTerminates', 'timeout': 900},
   {'pkg': 'c09', 'run': 'TestCryptoEnumerated|TestProofsEnumerated', 'timeout': 900},
   {'pkg': 'c09', 'run': 'TestRandomMutations|TestRandomBytes|TestStructuredRandom', 'checks': 30000, 'timeout': 900},
   # envelope level over real connections (victim node in a child process) / sync downloads against hostile well-formed peers
   {'pkg': 'c09', 'run': 'TestWireEnvelopes|TestWireRandom', 'checks': 120, 'timeout': 900},
   {'pkg': 'c09', 'run': 'TestDownloaderHostilePeers|TestDownloaderRandomPeer', 'checks': 60, 'timeout': 900},
 ],
 'thorough': [
   {'pkg': 'c09', 'run': 'TestDecodeMutations|TestDecodeShortStrings|TestRegress|^Fuzz', 'shards': 16, 'timeout': 2400},
   {'pkg': 'c09', 'run': 'TestNodeMutations|TestNodeShortStrings|TestAggregateCommitEnumerated|TestSyncClientE2E|TestDownloaderTerminates', 'shards': 4, 'timeout': 2400},
   {'pkg': 'c09', 'run': 'TestCryptoEnumerated|TestProofsEnumerated', 'shards': 2, 'timeout': 2400},
   {'pkg': 'c09', 'run': 'TestRandomMutations|TestRandomBytes|TestStructuredRandom', 'checks': 600000, 'shards': 10, 'timeout': 2400},
   {'pkg': 'c09', 'run': 'TestWireEnvelopes|TestWireRandom', 'checks': 2500, 'shards': 2, 'timeout': 2400},
   {'pkg': 'c09', 'run': 'TestDownloaderHostilePeers|TestDownloaderRandomPeer', 'checks': 500, 'shards': 2, 'timeout': 2400},
   # native coverage-guided campaigns (one at a time, all cores); a crasher becomes a VIOLATION with the input as replay file
   {'pkg': 'c09', 'fuzz': 'FuzzDecoders', 'fuzztime': '75s', 'timeout': 600},
   {'pkg': 'c09', 'fuzz': 'FuzzNewBlock', 'fuzztime': '45s', 'timeout': 600},
   {'pkg': 'c09', 'fuzz': 'FuzzNewTransaction', 'fuzztime': '30s', 'timeout': 600},
   {'pkg': 'c09', 'fuzz': 'FuzzSMTProof', 'fuzztime': '45s', 'timeout': 600},
   {'pkg': 'c09', 'fuzz': 'FuzzRMTProof', 'fuzztime': '45s', 'timeout': 600},
   {'pkg': 'c09', 'fuzz': 'FuzzSingleCommits', 'fuzztime': '30s', 'timeout': 600},
   {'pkg': 'c09', 'fuzz': 'FuzzGossipEnvelope', 'fuzztime': '30s', 'timeout': 600},
   {'pkg': 'c09', 'fuzz': 'FuzzResponseEnvelope', 'fuzztime': '30s', 'timeout': 600},
 ],
 'replay': [{'pkg': 'c09', 'run': 'TestReplayCase|TestReplayDownload|TestRandomMutations|TestRandomBytes|TestStructuredRandom|TestWireRandom|TestDownloaderRandomPeer', 'checks': 1, 'timeout': 900}],
}
