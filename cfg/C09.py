# run specification for C09 (loaded by checks_config.py)
CHECK = {
 'level': 'exploration',
 'rule': '43 targets (decoders NewBlock/NewBlockHeader/NewTransaction/NewBlockAsset/NewEvent, Block/Transaction.Validate on both decoding paths, '
         'EventPostSingleCommits.DecodeStrict, p2p Request/response/Message envelopes, gossip wrapper around the three topic validators, '
         'Executer.blockValidator/singleCommitValidator/verifyAggregateCommit on a 24-block 10-validator node, txpool validator and RPC handler, the '
         'three sync RPC handlers on a started connection, the requester-side decoders of the three sync RPCs (pure and end to end against a scripted '
         'peer), smt.Verify, rmt.VerifyProof/CalculateRootFromUpdateData/VerifyRightWitness, proofs arriving as bytes, BLSVerify/PopVerify/'
         'VerifyAggSig/VerifyWeightedAggSig, crypto.VerifySignature, BlockHeader.VerifySignature, Lisk32 text, Executer.process with signed blocks - see (6)) called behind recover + watchdog + '
         'allocation accounting with: (1) the complete single-mutation neighbourhood of valid messages built with the engine\'s own Encode (every prefix, '
         'every prefix inside every nested message with enclosing lengths corrected, every length prefix -> 0/len+-1/rest/rest+1/2^31/2^32/2^63/2^64-1/'
         'overlong/unterminated, every key -> every wire type and neighbouring/boundary field numbers, varint values -> boundaries and hostile '
         'encodings, byte flips, field deleted/duplicated/swapped, payload removed, splices of two messages, trailing bytes) and of valid argument sets '
         '(every length of every key/signature/bitmap/hash, lists emptied/truncated/extended past byte boundaries, integers to boundaries, infinity and '
         'malformed curve points); (2) every byte string of length <= 2 for every byte-string target (<= 3 for the cheap ones in thorough); (3) rapid: '
         '1-6 stacked random mutations, random short strings, 64 KiB+ runs, 2000-deep nestings, 20000 repeated empty elements; native fuzz targets run '
         'their seed corpus. Oracle: no panic; <= 2 s per call (reproduced 3x); bytes allocated <= 1 MiB + 256 x input length (1024 x for the SMT '
         'verifier); gossip validators never Accept what does not decode, singleCommitValidator never Accepts; Downloader stops against a peer that '
         'never serves the advertised tip. (4) ENVELOPE LEVEL OVER REAL CONNECTIONS (target p2p.wire): a victim node (real Executer, the RPC and gossip '
         'handlers it registers, started p2p.Connection) in a child process receives from a second started Connection raw bytes on the request and the '
         'response protocol stream: well-formed envelopes with every registered procedure name, 27 unregistered ones (unknown, empty, blank, case '
         'variants of registered names, prefix/suffix/NUL variants, gossip topic names, non-UTF-8), names of 255 B..1 MiB (8 MiB thorough), request IDs '
         'empty/1 byte/duplicate/unknown/64 KiB/non-UTF-8, data/error field absent/present/1 MiB, ~26 payloads per sync procedure from valid to what '
         'the handler rejects (unknown ID, 31/33-byte IDs, empty/2000-element lists, undecodable, 1 MiB), an even sample of the structural '
         'single-mutation neighbourhood of a valid request and a valid response envelope, forged/duplicated responses carrying the ID of a request the '
         'victim has pending (before and after the honest answer, other/unknown/case-variant procedure name), rapid-composed envelopes (name/ID/payload/'
         'error drawn, 0-2 structural mutations); gossip: valid p2p.Message envelopes published on postBlock/postSingleCommits/5 unknown topics with a '
         'valid candidate block, a chain block, the genesis block, valid single commits, their structural mutants, literal garbage up to 2 MiB, a peer '
         'announcing 41 topics. Oracle: the victim process stays alive (a panic in a libp2p stream-handler / pubsub goroutine kills it: its trace is the '
         'evidence, the Case the replay); no goroutine stays inside onRequest/onResponse; after EVERY case the victim answers getLastBlock of a fresh honest '
         'peer with its tip and gets its own request to that peer answered (3 fresh peers failing while an untouched control node answers, or the '
         'victim\'s own RequestFrom not returning 20 s after its context expired = violation). Processing is proven per case from the victim\'s state: '
         'undecodable / unregistered name -> sender IP at the ban threshold; registered name -> rate counter moved (banned-by-handler recorded); gossip -> a '
         'fresh valid block published next by the same peer appears in EventNetworkBlockNew. (5) SYNC DOWNLOADS AGAINST HOSTILE WELL-FORMED PEERS: the '
         'Downloader (driven as fast/block sync drive it) against 29 scripted getBlocksFromId responders whose answers all decode (only the requested '
         'block - from genesis, mid-chain, after progress, twice, alternating with empty -, requested block then successors, same segment again, '
         'descending / shuffled / duplicated, below the start, empty, one block per answer, endless valid-looking (fabricated, re-signed) blocks past the '
         'announced tip, gaps, jump to the end, end height with another ID, start >= end) and rapid-drawn scripts (answers as offsets -2..+6 relative to '
         'the requested block, honest prefixes, loops). Oracle = positive evidence of non-termination, never wait-then-pass: 20 consecutive requests for '
         'the same ID, or more than span+25 requests for a range of span heights, or 45 s without request or end (stack attached); any ending (blocks or '
         'error) passes. (6) SEMANTICALLY HOSTILE, WELL-FORMED, CORRECTLY SIGNED BLOCKS OF A LEGITIMATE VALIDATOR (target Executer.process.signed): a '
         'fresh real node per case (1-10 active validators, 0-3 standby generators, equal or changed validator set with unequal weights, 0-40 honest '
         'blocks with transactions, assets, events and aggregate commits; history snapshot reopened per case, i.e. every case starts on a node that has processed nothing since it started), the valid successor of the tip built as '
         'the scheduled generator would, every header field the signer controls set to boundary and extreme values and the header RE-SIGNED with the '
         'generator key in force, sent through the wire encoding to Executer.process (what onBlockReceived runs on the consensus goroutine) and to '
         'Validate + processValidated (what sync does with a downloaded block): maxHeightGenerated (height-2..height+2, height+1000, previous block of '
         'the generator +-1, own maxHeightPrevoted, 0, 1, 2^31-1, 2^31, 2^32-2, 2^32-1), maxHeightPrevoted (own value +-1, height-1..height+1, 0, 2^31, '
         '2^32-1), timestamp (inside the slot: +1, +4999, +9999; neighbouring slots; genesis timestamp +-1; 0, 2^31, 2^32-1), impliesMaxPrevotes, version, '
         'height, aggregate commit (empty ones at certified+-1 / precommitted / precommitted+1 / height-1..height+1 / 0 / 2^32-1; bits without signature '
         'and the reverse; 1 B..64 KiB bits, 95/96/97-byte, infinity and 1 MiB signatures; genuine commits signed by all or one validator with height, '
         'bits and signature moved, emptied, flipped, zeroed, truncated, extended), previousBlockID / transactionRoot / assetRoot / eventRoot / stateRoot / '
         'validatorsHash of 0, 31, 33, 64 bytes and 1 MiB, flipped, zeroed, generator address of 0/19/21 bytes, payloads of 1-90 transactions, exactly the '
         'maximum payload size and +-1, 14 KiB parameters, duplicated transactions, assets empty / 1 MiB / empty module name / duplicated / unsorted / 64 of '
         'them / absent / unparsable, the same values signed by another key or not re-signed, combinations (maxHeightGenerated > height with '
         'impliesMaxPrevotes, aggregate commit, payload, later slot, wrong roots), sequences of 2-7 blocks (the hostile block, then the honest blocks '
         'of the others, the same generator again with repeated / honest / smaller values), and siblings of the tip offered in the current slot (fork '
         'choice tie break: tip deleted, sibling applied, old tip re-applied on failure) carrying the same values; NODE STATES with respect to the '
         'reception time fork choice keeps for the tip (Executer.lastBlockReceived: nil from process start until a block was received IN ORDER through '
         'process; the sync paths never set it) - operations pre=asis|restart|sync:K|recv:K executed immediately before the block / sibling is built and '
         'offered: node just opened on the stored history (new Executer on an existing database, nothing processed since), node RESTARTED (node harness '
         'Restart: Chain, Executer, connection and database handle dropped and reopened on the same database and application state) with or without '
         '1-3 blocks received in order before, last 1-3 blocks applied only through Validate + processValidated (synced only), reception time belonging to '
         'an older block (received in order, then synced), tip received in order just now (its slot is long past: tie break without any hook), '
         'restarts in the middle of a sequence and after a reverted tie break, genesis-only nodes and the very first block after genesis (29 catalogue '
         'entries on every configuration; configurations with 0 and 1 history blocks also in the quick tier for these entries); rapid: drawn configuration, 1-5 '
         'consecutive blocks of 0-3 drawn operations (field = base+-delta | boundary | random), a quarter of the blocks in front of a drawn node state (8 kinds), '
         'half of those siblings of the tip; fixed regression TestRegressTieBreakSiblingAfterRestart (5 siblings on restarted / just opened / synced-only '
         'nodes). Oracle: the call returns (panic recovered with its site, '
         'watchdog, 2 s soft bound), the node afterwards processes a fresh valid block on whatever its tip is, no goroutine is left behind once the node '
         'is closed; acceptance itself is not judged (C03). Non-trivial = derived from a valid message/argument set by <= 3 mutations, or passing the target\'s first '
         'decoding step (wire cases: only if the effect at the victim was observed; downloads: only if the scripted peer was asked); distinct by digest '
         'of (target, arguments)'
         ' Plus TestGossipSequences: SEQUENCES of 3-14 well-formed peer messages through a live transaction pool (gossip through the registered validator and handler, replacements, duplicates, getTransactions requests, promotion passes, and received blocks whose transactions are removed from the pool by ID the way the generator does); oracle: no panic, every call returns (non-trivial = a removal after a replacement).',
 'level_text': 'Every network-facing decoder, validator and verifier is called in-process with exhaustively enumerated and randomly stacked structural '
               'mutations of valid messages and with all short byte strings; a recovered panic, a call that does not return (watchdog with goroutine '
               'dump), a reproducible overrun of the generous time/allocation envelopes, or an Accept for an undecodable gossip payload is a violation. '
               'The stream handlers and gossip validators additionally run in a real node (child process) fed over loopback connections with hostile '
               'but well-formed envelopes (death of the node, a wedged handler or a node that no longer completes an honest exchange is a violation), '
               'and the sync Downloader runs against scripted peers whose well-formed answers make no progress (the request pattern proves a loop). '
               'Blocks that are well-formed and correctly signed by the scheduled generator but carry boundary and extreme values in every field the '
               'signer controls are processed by a real node through Executer.process and the sync path; a panic, a call that does not return, a node '
               'that no longer processes the next valid block, or goroutines left behind are violations.',
 'level_note': 'Envelopes are fixed and generous, not proved bounds; inputs > 64 KiB only sampled; decoders of the node\'s own storage and the JSON-RPC '
               'endpoint layer are not targeted; process-fatal errors are attributed with VERIF_C09_LOG=<file> (every case logged before it runs).',
 'technique': 'property-based robustness testing: exhaustive structure-aware mutation + exhaustive short inputs + rapid stacked mutations + native fuzz seed corpora',
 'assumptions': ['fake deterministic application (node harness)', 'loopback networking (127.0.0.0/8) for the RPC handler / requester / wire / downloader targets',
                 'hooks_proposed/C09.patch applied (verif_hooks_c09.go in pkg/p2p, pkg/txpool, pkg/consensus/sync)'],
 'quick': [
   {'pkg': 'c09', 'run': 'TestDecodeMutations|TestDecodeShortStrings|TestRegress|^Fuzz|TestReplayCase', 'timeout': 900},
   {'pkg': 'c09', 'run': 'TestNodeMutations|TestNodeShortStrings|TestAggregateCommitEnumerated|TestSyncClientE2E|TestDownloaderTerminates', 'timeout': 900},
   {'pkg': 'c09', 'run': 'TestCryptoEnumerated|TestProofsEnumerated', 'timeout': 900},
   {'pkg': 'c09', 'run': 'TestRandomMutations|TestRandomBytes|TestStructuredRandom|TestGossipSequences', 'checks': 30000, 'timeout': 900},
   # envelope level over real connections (victim node in a child process) / sync downloads against hostile well-formed peers
   {'pkg': 'c09', 'run': 'TestWireEnvelopes|TestWireRandom', 'checks': 120, 'timeout': 900},
   {'pkg': 'c09', 'run': 'TestDownloaderHostilePeers|TestDownloaderRandomPeer', 'checks': 60, 'timeout': 900},
   # the whole sync conversation (Executer.process -> Syncer.Sync -> fast / block sync) against one scripted hostile peer
   {'pkg': 'c09', 'run': 'TestSyncConversationHostilePeers|TestSyncConversationRandom', 'checks': 50, 'timeout': 900},
   # semantically hostile, well-formed, correctly signed blocks of a legitimate validator through Executer.process
   {'pkg': 'c09', 'run': 'TestSignedBlocksEnumerated', 'gomaxprocs': 4, 'timeout': 900},
   {'pkg': 'c09', 'run': 'TestSignedBlocksRandom', 'checks': 250, 'gomaxprocs': 4, 'timeout': 900},
 ],
 'thorough': [
   {'pkg': 'c09', 'run': 'TestDecodeMutations|TestDecodeShortStrings|TestRegress|^Fuzz', 'shards': 16, 'timeout': 2400},
   {'pkg': 'c09', 'run': 'TestNodeMutations|TestNodeShortStrings|TestAggregateCommitEnumerated|TestSyncClientE2E|TestDownloaderTerminates', 'shards': 4, 'timeout': 2400},
   {'pkg': 'c09', 'run': 'TestCryptoEnumerated|TestProofsEnumerated', 'shards': 2, 'timeout': 2400},
   {'pkg': 'c09', 'run': 'TestRandomMutations|TestRandomBytes|TestStructuredRandom|TestGossipSequences', 'checks': 600000, 'shards': 10, 'timeout': 2400},
   {'pkg': 'c09', 'run': 'TestWireEnvelopes|TestWireRandom', 'checks': 6000, 'shards': 2, 'timeout': 2400},
   {'pkg': 'c09', 'run': 'TestDownloaderHostilePeers|TestDownloaderRandomPeer', 'checks': 1500, 'shards': 2, 'timeout': 2400},
   {'pkg': 'c09', 'run': 'TestSyncConversationHostilePeers|TestSyncConversationRandom', 'checks': 1200, 'shards': 2, 'timeout': 2400},
   {'pkg': 'c09', 'run': 'TestSignedBlocksEnumerated', 'shards': 4, 'timeout': 2400},
   {'pkg': 'c09', 'run': 'TestSignedBlocksRandom', 'checks': 8000, 'shards': 4, 'timeout': 2400},
   # native coverage-guided campaigns (one at a time, all cores); a crasher becomes a VIOLATION with the input as replay file
   {'pkg': 'c09', 'fuzz': 'FuzzDecoders', 'fuzztime': '75s', 'timeout': 600},
   {'pkg': 'c09', 'fuzz': 'FuzzNewBlock', 'fuzztime': '45s', 'timeout': 600},
   {'pkg': 'c09', 'fuzz': 'FuzzNewTransaction', 'fuzztime': '30s', 'timeout': 600},
   {'pkg': 'c09', 'fuzz': 'FuzzSMTProof', 'fuzztime': '45s', 'timeout': 600},
   {'pkg': 'c09', 'fuzz': 'FuzzRMTProof', 'fuzztime': '45s', 'timeout': 600},
   {'pkg': 'c09', 'fuzz': 'FuzzSingleCommits', 'fuzztime': '30s', 'timeout': 600},
   {'pkg': 'c09', 'fuzz': 'FuzzGossipEnvelope', 'fuzztime': '30s', 'timeout': 600},
   {'pkg': 'c09', 'fuzz': 'FuzzResponseEnvelope', 'fuzztime': '30s', 'timeout': 600},
 ],
 'replay': [{'pkg': 'c09', 'run': 'TestReplayCase|TestReplayDownload|TestReplayConversation|TestSyncConversationRandom|TestRandomMutations|TestRandomBytes|TestStructuredRandom|TestWireRandom|TestDownloaderRandomPeer|TestSignedBlocksRandom', 'checks': 1, 'timeout': 900}],
}
