# run specification for C20 (loaded by checks_config.py)
CHECK = {
 'level': 'exploration',
 'rule': 'rapid-drawn stress workloads, each executed in a subprocess of the -race test binary: (a) one writer adding/removing blocks through the real '
         'Executer (60-400 operations, quick tier 60-240, removal bursts 1-12 deep, block cache 4/8/64, finality advancing or pinned) against 2-10 readers (quick 2-8) with drawn '
         'operation mixes over LastBlock/GetLastBlock/GetLastNBlocks, single and bulk header/block/transaction lookups (up to 64 items), '
         'GetBlocksBetweenHeight and the three sync RPC handlers; (b) 2-12 goroutines on one certificate.Pool (Add/duplicate Add/Has/Get/Select/'
         'Upgrade/Cleanup/Size); (c) 1-6 publishers, 1-6 subscription managers with live drainers on one EventEmitter (Publish/Subscribe/Unsubscribe/'
         'UnsubscribeAll/Close); (d) 2-10 sibling WithPrefix views of one diffdb staged store (Get/Has/Set/Del/Range/Iterate/Snapshot/RestoreSnapshot, '
         'exact and free-running mode); (e) [thorough] block sync of a node with 3-6 responding peers while readers use the chain and Syncing(); '
         '(f) published-means-committed: one writer adding/removing blocks (bursts 1-10 deep, or adding only) directly on a real Chain over pebble '
         '(in-memory FS, WAL sync latency 0/100/500 us, block cache 2/4/8/64, 1-16 transactions and 1-30 events per block, event pruning on/off, '
         '150-600 operations, thorough up to 1500) against 4-12 readers at GOMAXPROCS 4/8/16 which take the tip (LastBlock/GetLastBlock) and at once '
         'look up what it promises: every transaction by id (single and bulk), events by height, header/block by id and by height, the range below '
         'it, the persisted last header (height index of the database) and a key written in the same batch. The same oracle runs inside (a) on every '
         'LastBlock/GetLastBlock/getLastBlock answer (plus the state diff of the block), and 0-2 live subscribers of EventBlockNew/EventBlockDelete '
         'check that an announced block is readable and on the chain and a deleted one is gone. '
         '(g) linearizability of the staged store on SHARED keys: 20-80 rounds per case, each a fresh diffdb staged store over the database as the previous round '
         'committed it, 2-8 goroutines doing Get/Has/Set/Del/Range/Iterate (8-50 calls each) on 2-16 keys (a quarter to all of them stored) through the parent and '
         '1-4 WithPrefix views that address the same keys (view per module prefix, sibling twin, nested view, views made for one call), multi-writer or single-writer '
         'per key, then reads at quiescence, Commit, Write and a read of the database; the store is handed to diffdb behind a latency-only wrapper that parks the '
         'Get/Has/Set/Del which reads a stored key from the database inside that read (0/50/200/500 us or until a write of that key returns) while the other '
         'goroutines turn their next call into a Set/Del/Get of that key. '
         '(h) the three sync RPC handlers under the request sizes real peers send: a real Chain of 220/260/320 blocks (0-6 transactions each) behind a block cache of '
         '4/8/16 (almost every block named by a request is read from the database), 2-6 callers invoking getLastBlock / getHighestCommonBlock / getBlocksFromId '
         'through the handler functions, each call in a goroutine of its own with a recording ResponseWriter (30-90 calls per caller, thorough 40-200), ID lists of '
         '1-300 IDs (size classes <=10 = block sync, 11-50, 51-205 = fast sync up to 103 validators, >205; all known, all unknown, unknown fork on top of a known part, '
         'duplicates, IDs of blocks being added/removed right now; descending / ascending / shuffled heights; last-n, gapped or random heights), getBlocksFromId from '
         'deep stable blocks (103 uncached blocks), blocks below the tip, blocks of the churn zone and unknown IDs, next to 1-3 bulk readers (GetBlocksBetweenHeight, '
         'GetBlockHeadersByHeights, GetBlockHeaders, GetTransactions over the whole chain, >= 64 or a few items, up to 300 IDs) and one writer adding/removing blocks at '
         'the tip (bursts 1-12 deep, tip <= 20 above the stable part) for as long as they run; plus, in every tier, the fixed fast-sync scenario: one request of 41 IDs '
         '(5 unknown + 36 known) and one of 205 known IDs alone, then four peers at once sending both 8 times each next to getBlocksFromId/getLastBlock calls, a reader of '
         'the whole chain and the tip writer. '
         'GOMAXPROCS 2/4/8/16 and yield injection (Gosched / microsecond sleeps) are drawn per goroutine. Non-trivial = (a) >= 4 readers, >= 200 writer '
         'operations and >= 1000 bulk lookups in one run; (b)/(d) >= 4 goroutines and >= 2000 operations; (c) >= 4 goroutines, >= 500 deliveries and '
         '>= 4 unsubscribes; (e) at least one sync converged; (g) >= 3 goroutines, >= 1000 calls and >= 10 stored keys whose first Get/Has (called before any call on that key '
         'had returned, so it can be the one that reads the store) overlapped a Set/Del of the key by another goroutine; (f) >= 4 readers, >= 100 writer operations, >= 1000 tip observations and >= 20 tip reads '
         'taken while the writer was inside AddBlock/RemoveBlock; (h) run completed, >= 100 handler calls, >= 10 getHighestCommonBlock requests with more than 10 IDs known during the whole call and >= 1 with more than 50, '
         '>= 50 writer operations meanwhile and >= 10 range reads over >= 64 uncached blocks (bulk reader or served segment). Distinct by digest of the workload.',
 'level_text': 'Race detector plus timing-robust functional oracles on generated concurrent workloads against the real objects: no race report touching '
               'pkg/; every tip a reader obtains is byte-identical to a block the writer built (ID = hash of header, payload matches root) and is committed: '
               'unless the writer had begun to remove that very block before the lookups ended, its transactions, events, height index entry, persisted '
               'last header and same-batch state are readable with exactly its content (the writer flags a block before it removes it and never reuses an ID, '
               'so the exemption cannot hide a tip published before its batch was written), and once its data is gone the tip API must not answer it again; '
               'EventBlockNew implies the block is readable and on the chain, EventBlockDelete that it is gone; bulk lookups '
               'over stable items return each requested item exactly once; pool/emitter/store invariants that hold under every interleaving; '
               'staged store on shared keys: with every call stamped before and after on one atomic counter, the writes and reads of each key (Get, Has, every element '
               'a Range/Iterate returned, every key of the request it proved absent, the reads at quiescence and the database after Commit) form a linearizable history of '
               'one register starting from the stored content (exact Wing-Gong/Lowe search per key; reported first as stale-read when every possible source of a read '
               'had been overwritten by a write that returned before the read was called = lost staged write / revived delete), a single writer reads its own latest '
               'write and commits its last one, and the diff of Commit reverted on the committed content gives the content before the round; '
               'sync RPC handlers (writer and callers stamp every AddBlock/RemoveBlock and every request before the call and after the return on one atomic counter, IDs are '
               'never reused): every handler call returns; getHighestCommonBlock answers one of the requested IDs, a block that was on the chain at some moment of the call and '
               'at least as high as every requested block that was there during the whole call (empty answer only if none was); getBlocksFromId refuses IDs nobody built, '
               'serves consecutive heights right above the requested block, at most 103, at least as many as always exist, stable blocks byte-identical, an error only when '
               'the segment can reach the churn zone; getLastBlock answers a complete block of the writer that was on the chain during the call; no goroutine is left parked '
               'inside handler code after the workload. A hang is reported only with goroutine dumps as positive evidence: a proven lock cycle, goroutines parked on a lock or '
               'channel send in engine code (recognised by function name or, for closures of inlined engine functions, by source file) in two dumps while no worker moved, or - per '
               'handler call outstanding for 10 s - the handler goroutine and every goroutine it created parked on a channel / WaitGroup in the handler\'s own code, identical in '
               'three dumps 3 s apart.',
 'level_note': 'The seed fixes the workload (goroutine counts, operation mix, sizes, yield injection), not the Go scheduler: a race or lock cycle is found '
               'only if the run happens to execute it, and a found one may not reproduce from its seed (the report text / goroutine dump is the '
               'reproduction). Wall-clock budget hits are recorded as inconclusive. While findings are listed as known their triggers are removed from '
               'the generated mixes (tip reads, the three bulk lookups, emptying the block cache, getBlocksFromId on the moving tip, the remove-path half of the '
               'published-means-committed oracle). The ordering oracles see a too-early publication only if a reader runs inside the window; measured hit rate '
               'for AddBlock publishing before writing: 30-250 violating observations per case, every case. The linearizability oracle of (g) judges each key on its own '
               '(a Range/Iterate counts as one read per key it returned or proved absent, so a scan that is not one atomic multi-key snapshot is not detected), does not use '
               'Snapshot/RestoreSnapshot (they are exercised by (d)), and sees a lost staged write only if some later read, the reads at quiescence or the committed database show it '
               '(they always do: every key is read at the end of every round).',
 'technique': 'property-based stress testing (rapid-drawn concurrent workloads) under the Go race detector with invariant / multiset / model / publication-order / linearizability oracles',
 'assumptions': ['fake deterministic application (harness/node)', 'loopback networking for the started p2p connection',
                 'race reports without a frame of github.com/LiskHQ/lisk-engine/pkg/ are noted, not judged',
                 'blocks of the churn zone that are not tips are checked for completeness as an observation only (the statement names tips)'],
 'quick': [{'pkg': 'c20', 'race': True, 'run': 'TestChainReadersWriter', 'checks': 2, 'shards': 2, 'timeout': 1500, 'shrinktime': '15s', 'gomaxprocs': 4},
           {'pkg': 'c20', 'race': True, 'run': 'TestTipIsCommitted', 'checks': 6, 'timeout': 1500, 'shrinktime': '15s', 'gomaxprocs': 4},
           {'pkg': 'c20', 'race': True, 'run': 'TestCertificatePool|TestEventEmitter|TestStagedStoreViews', 'checks': 10, 'timeout': 1500, 'shrinktime': '15s', 'gomaxprocs': 4},
           {'pkg': 'c20', 'race': True, 'run': 'TestStagedStoreLinearizable', 'checks': 12, 'timeout': 1500, 'shrinktime': '15s', 'gomaxprocs': 4},
           {'pkg': 'c20', 'race': True, 'run': 'TestSyncHandlersUnderLoad', 'checks': 3, 'timeout': 1500, 'shrinktime': '15s', 'gomaxprocs': 4},
           {'pkg': 'c20', 'race': True, 'run': 'TestRegress', 'timeout': 1500, 'gomaxprocs': 4}],
 'thorough': [{'pkg': 'c20', 'race': True, 'run': 'TestChainReadersWriter', 'checks': 30, 'shards': 4, 'timeout': 3000, 'shrinktime': '30s', 'gomaxprocs': 2},
              {'pkg': 'c20', 'race': True, 'run': 'TestTipIsCommitted', 'checks': 40, 'shards': 2, 'timeout': 3000, 'shrinktime': '30s', 'gomaxprocs': 2},
              {'pkg': 'c20', 'race': True, 'run': 'TestCertificatePool|TestEventEmitter|TestStagedStoreViews', 'checks': 25, 'shards': 2, 'timeout': 3000, 'shrinktime': '30s', 'gomaxprocs': 2},
              {'pkg': 'c20', 'race': True, 'run': 'TestStagedStoreLinearizable', 'checks': 60, 'shards': 2, 'timeout': 3000, 'shrinktime': '30s', 'gomaxprocs': 2},
              {'pkg': 'c20', 'race': True, 'run': 'TestBlockSyncPolling', 'checks': 12, 'shards': 2, 'timeout': 3000, 'shrinktime': '30s', 'gomaxprocs': 2},
              {'pkg': 'c20', 'race': True, 'run': 'TestSyncHandlersUnderLoad', 'checks': 25, 'shards': 2, 'timeout': 3000, 'shrinktime': '30s', 'gomaxprocs': 2},
              {'pkg': 'c20', 'race': True, 'run': 'TestRegress', 'timeout': 1500, 'gomaxprocs': 2}],
 'replay': [{'pkg': 'c20', 'race': True, 'run': 'TestReplayWorkload', 'timeout': 1500}],
}
