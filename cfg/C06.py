# run specification for C06
CHECK = {
 'level': 'exploration',
 'rule': 'rapid-generated node states (3-7 weighted validators, thresholds anywhere in the legal range, chains of 8-30 or 101-125 blocks, 0-2 '
         'validator-set changes, some heights already certified). (a) constructed aggregate commits: height at/next to each bound (certified, '
         'precommitted, next parameter change) or inside, random signer subsets signed certificate by certificate in the verifier\'s bit order, and '
         'tamperings (bit added/removed, foreign signer, certificate of another height/chain, signature of another subset) with the verdict known by '
         'construction. (b) pool self-consistency: single commits (valid, bad signature, wrong block, other chain, inactive validators) through the '
         'gossip validator, Certify, then GetAggregateCommit verified by the node itself and carried in a block. Non-trivial = strict signer subset or '
         'height adjacent to a bound (a); non-empty own aggregate from a strict subset or with invalid commits offered (b). Distinct by digest',
 'level_text': 'Verdict equality both ways against a by-construction oracle for verifyAggregateCommit; pool contents checked commit by commit '
               '(active validator, chain block, BLS signature); the node must accept the aggregate commit it assembles itself.',
 'level_note': 'BLS via the real blst bindings; over-long bitmaps are not asserted (statement does not require rejection), too-short ones are C09.',
 'technique': 'property-based testing (rapid) with a by-construction oracle and a self-consistency (round-trip) relation',
 'assumptions': ['fake deterministic application', 'certificates are those of the node\'s own chain'],
 'quick': [{'pkg': 'c06', 'checks': 60, 'timeout': 900, 'args': ['-test.skip', 'TestPoolLaggingCertification']},
           {'pkg': 'c06', 'run': 'TestPoolLaggingCertification', 'checks': 25, 'timeout': 600}],
 'thorough': [{'pkg': 'c06', 'checks': 800, 'shards': 14, 'timeout': 2400, 'args': ['-test.skip', 'TestPoolLaggingCertification']},
              {'pkg': 'c06', 'run': 'TestPoolLaggingCertification', 'checks': 400, 'shards': 2, 'timeout': 2400}],
}
