# run specification for C12 (loaded by checks_config.py)
CHECK = {'level': 'exploration',
 'rule': 'rapid state-machine histories (about 40 actions each) over real in-memory pebble databases. Staged machine: root prefix from '
         '{"",00,01,61,ff,61ff,00ff,ffff}, 0-30 initial keys (bytes from {00,01,61,ff}, lengths 0-4, 20% under neighbouring prefixes), '
         'root view diffdb.New + up to 5 WithPrefix children/grandchildren (child prefixes of length 0-2), actions Set/Del/Get/Has/'
         'Range(start,end,limit in {-1,1,2,5},fwd/rev, also start>end)/Iterate(prefix,limit,fwd/rev)/Snapshot/RestoreSnapshot (live and '
         'unknown ids)/DeleteSnapshot (through the root; through any view where the start-up probe allows)/Commit+db.Write+fresh diffdb.New/dry Commit into a copy, RevertDiff on twin '
         'databases (same diff object, after Encode/Decode, and all diffs of the history newest first). DB machine: Set/Del/Batch/batchdb '
         '(with and without prefix) writes, Get/Exist/Iterate/IterateKey/IterateRange on the DB and on up to two Readers taken earlier. '
         'Non-trivial (staged) = the history contains a limited scan whose bounds cover a staged delete of a stored key, or a scan '
         'through a child view over a key last written through another view, or a successful restore followed by a read; non-trivial '
         '(db) = a scan bound or prefix that is a proper prefix of a stored key. Distinct by digest of initial contents + operation list. '
         'Argument/result aliasing discipline in 70% of the histories of both machines (labels alias-*): the value slice of a Set is fresh | the '
         'SAME slice object as an earlier Set (same key, other key, other view; whole, a shorter prefix of it, or extended into its capacity) | '
         'a window of one buffer shared by many values (capacity running over the following values, or capacity = length) | a slice returned '
         'by an earlier Get | a value slice or a key slice of an earlier Range/Iterate result; sources from the same overlay, from before a '
         'Snapshot, a RestoreSnapshot or a Commit; new length equal / shorter / longer than what the entry holds; Set/Get biased towards keys whose '
         'staged value shares an array with another key. Key, bound and prefix arguments: fresh, fresh with spare capacity, windows of one '
         'shared key buffer (spare capacity over the next argument, or capacity = length; Range also end-before-start), or the key slice of an '
         'earlier scan result passed on as it is. After a call the harness overwrites its key/bound/prefix buffers (50%) and slices it got from '
         'Get (25% of the calls); it never writes to a value slice it handed to Set nor to slices of a scan result (the store keeps / hands out '
         'those uncopied; no engine caller writes to them). Extra oracle: no store call changes a byte (through the full capacity) of any '
         'buffer the harness made or still holds from a read. Fixed histories TestRegressAliasedValueSlices (one slice under two new keys; a '
         'Range/Iterate result copied to new keys, originals updated; overlapping windows of one buffer; a Get result under two keys) in every tier',
 'level_text': 'Model-based state-machine test of the staged store (diffdb) and of the database scans (db, Reader, Batch, batchdb) against a '
               'sorted-map reference: every read is compared with the same query on the model (one logical staged state shared by all prefix '
               'views), every Commit with the staged map (whole database dump, keys outside the root prefix included), every diff by '
               'reverting it on a twin database and comparing byte for byte with the contents before the commit.',
 'level_note': 'Snapshot domain is chosen by a start-up probe: if handles derived before a RestoreSnapshot keep the discarded overlay '
               '(tree before "fix: restore a diffdb snapshot for every prefixed view"), snapshots are taken/restored through the root view only '
               'and prefix views are re-derived after a restore, as statemachine.ExecuteTransaction/GetStore do; otherwise any view takes/restores '
               'snapshots and old handles stay in use. limit 0 and limits < -1 are outside the asserted domain (no caller; db scans and diffdb '
               'disagree on 0). Callers share value slices read-only and re-use key/bound/prefix buffers and Get results; they do not WRITE to a value '
               'slice handed to Set or to slices of a Range/Iterate result (the store keeps / hands out those uncopied: measured by '
               'TestObserveAliasing, outside the domain). No concurrency. While findings '
               'C12-F1..F3 are present and listed as known their triggers are avoided (on that tree Iterate is exercised only through views with '
               'an empty full prefix).',
 'technique': 'property-based state-machine testing (rapid) against a sorted-map reference model',
 'assumptions': ['reference = harness/model/kv (map sorted on every query)',
                 'snapshot domain follows the start-up probe (root-only + re-derived views where a restore is not seen by other handles)',
                 'limit in {-1} or >= 1', 'database is not written behind a live staged store (the node commits, then starts a fresh one)',
                 'value slices handed to Set and slices of scan results are shared read-only: neither the caller nor the store writes to them'],
 'quick': [{'pkg': 'c12', 'checks': 10000, 'steps': 40, 'timeout': 600}],
 'thorough': [{'pkg': 'c12', 'checks': 40000, 'steps': 40, 'shards': 16, 'timeout': 2400}]}
