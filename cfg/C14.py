# run specification for C14 (loaded by checks_config.py)
CHECK = {'level': 'exploration',
 'rule': 'TODO',
 'level_text': 'TODO',
 'level_note': 'TODO',
 'technique': 'property-based state-machine testing (rapid) with invariant oracle',
 'assumptions': [],
 'quick': [{'pkg': 'c14', 'run': 'TestRegress|TestPoolStateMachine', 'checks': 20000, 'timeout': 600},
           {'pkg': 'c14', 'run': 'TestPoolConcurrent', 'checks': 2000, 'timeout': 600}],
 'thorough': [{'pkg': 'c14', 'run': 'TestRegress|TestPoolStateMachine', 'checks': 300000, 'shards': 16, 'timeout': 1500}]}
