# run specification for C14 (loaded by checks_config.py)
CHECK = {'level': 'exploration',
 'rule': 'rapid state machine on a real txpool.TransactionPool (mock connection, scripted verifier): MaxTransactions 1-6, per-account limit 1-4, '
         'replacement difference {1,10}, entrance priority {0,5}, 3-4 senders, nonces 0-8 (run-continuing / occupied-slot / uniform), fees from a set '
         'with ties and just-below/just-enough replacement steps, 3 parameter sizes (fee priority = fee/size), actions Add (new / known / exact '
         'duplicate), Remove (pooled / unknown), block applied (Remove each) and reverted (Add each back), promotion pass, promotion pass with an Add '
         'or Remove of the same sender landing while the pass is verifying, verifier answer changes (ok/pending/invalid/error); 30 actions per '
         'history (80 in part of the thorough tier); invariants I1-I5 after every single pool call, every call under a watchdog. Plus concurrent '
         'workloads (1 promotion goroutine + 3-7 goroutines of Add/Remove/block/getter calls, yields and 100 us pauses at the verifier) checked at '
         'quiescence, under -race in the thorough tier. Plus large-scale histories (TestPoolScale): 10-150 senders (exactly 32/33/64/65 drawn '
         'often), MaxTransactions 1-400 and the engine default 4096 (classes: 2-4x senders, senders+-1, senders/2, 31-33/63-65/128, per-account '
         'limit+-1), per-account limit 1-80 (63/64/65 often), per-sender base nonces 0-300, runs with gaps and runs up to / one beyond the '
         'per-account limit; 60-440 pool calls per history (60-900 thorough) in bulk phases: fill (runs for many senders), burst of first-nonce '
         'transactions from fresh accounts (also into a full pool; equal / distinct / higher fee priorities), promotion pass with answers '
         'scripted for many senders at once (all ok / pending / invalid / error, mixed, exactly k invalid with k around 32 and 64; non-ok answer '
         'at the first / middle / last promotable nonce, at a processable nonce, on the whole run), block applied (lowest nonces / processables '
         'of many senders, random subset, whole pool) and reverted, replacement attempts for many slots, lower / gap / higher nonces into full '
         'sender lists, removals, known transactions again; every history has at least one pass. Same invariants; promotion passes and phase '
         'boundaries evaluated in full, single Add/Remove calls inside a bulk phase on a pool of >= 24 (or 64) transactions as light steps '
         '(watchdog + Get before/after) with a full evaluation at least every 8 or 48 calls. Fixed regression scenarios (TestRegress...) incl. 48 '
         'senders whose pooled transactions all turn invalid before one pass. Non-trivial = history that reached the pool or a per-sender '
         'limit, or performed a replacement, or a promotion followed by a demotion (concurrent case: limit reached or processables at the end). '
         'Distinct by digest of the full operation history. Extension collaborator faults / event subscribers (all three history classes): '
         'the connection mock fails Publish for drawn Adds (fresh slot, replacement with sufficient fee, first transaction of a sender, '
         'higher fee priority into a full pool, lower nonce into a full sender list; directly and through the gossip handler; large-scale: '
         '10/50/100 % of the Adds of a phase) - the invariants must hold whatever Add answers (pooled everywhere or nowhere), the return value '
         'is not judged after a failed Publish; verifier answers that are slow (50 us) or change between consultations (ok-then-invalid, '
         'err-then-ok); 0-3 subscribers per history of EventTransactionNew / EventTransactionAnnouncement / both in one goroutine (the '
         'engine\'s own shape), each draining only or calling Get / GetAll / GetProcessable / Remove / a mix per event, with or without a '
         'pause of 100-300 us; transactions also arrive as gossip announcements through the validator and handler the pool registered '
         '(single, 2-4 in one watched call, large-scale: 4-100 in one call or 30/100 % of a phase; known / duplicate / malformed payloads: '
         'empty, garbage, truncated, trailing bytes, short public key, no signature), getTransactions RPC requests through the registered '
         'handler (no body, known ids, unknown ids, garbage); every history ends with End(). Fixed scenarios TestRegressPublishFails and '
         'TestRegressSubscriberCallsBack (3 subscriber line-ups) in every tier',
 'level_text': 'Invariant oracle evaluated on an internal snapshot (three indexes + per-sender lists) and on the public getters after every pool call '
               'of generated histories: index agreement (I1), size bounds (I2), one transaction per sender/nonce and the replacement fee rule (I3), '
               'processable set ascending, gap-free, member of the list and answered ok by the verifier when it became processable (I4), Add/Remove '
               'results agree with membership (I5); liveness by watchdog with goroutine-dump evidence (every goroutine inside the pool parked on its '
               'locks, a WaitGroup, a channel send executed by a pool function, or an event send of pkg/event called by the pool while every '
               'registered subscriber is itself parked inside the pool or waiting in its receive). Small histories (3-4 senders, limits 1-6) '
               'and large-scale histories (up to 150 senders, 400 pooled, 65 per sender), both with failing Publish calls, event subscribers '
               'that call back into the pool and the gossip / RPC entry points. Sampled, not exhaustive.',
 'level_note': 'Which transaction is evicted / rejected at a full pool is not asserted (any choice that keeps the invariants passes). Concurrent '
               'phase fixes the workload, not the Go schedule. On a tree where the listed known findings are present their triggers are avoided '
               'by construction (pool never filled, no successful replacement / per-sender eviction, no promotion pass while a pending answer is '
               'pooled, nothing touching a processable nonce during a pass), so those paths are only explored once the proposed fixes are in.',
 'technique': 'property-based state-machine testing (rapid) with invariant oracle, watchdog and race detector',
 'assumptions': ['after a failed Publish the return value of Add is not judged (the statement does not fix it; the tree pools the transaction and '
                 'answers false); the transaction must be pooled in every index or in none',
                 'subscribers always take the messages sent to them (a subscriber that stops receiving blocks the announcing goroutine by '
                 'design of pkg/event; that is not a pool lock); a transaction a Remove-subscriber has set out to remove may leave the pool at '
                 'any moment and is exempt from the before/after comparisons of that step',
                 'gossip payloads reach the announcement handler only if the validator the pool registered accepts them (as in pkg/p2p)',
                 'promotion passes never overlap each other (TransactionPool.Start is the only caller of reorg)',
                 'an empty per-sender list left in perAccount counts as index disagreement',
                 '"passed verification" = the scripted ABI answered Ok (not Pending) for that transaction in the call that made it processable'],
 'quick': [{'pkg': 'c14', 'run': 'TestRegress|TestPoolStateMachine', 'checks': 12000, 'timeout': 600},
           {'pkg': 'c14', 'run': 'TestPoolConcurrent', 'checks': 1200, 'timeout': 600},
           {'pkg': 'c14', 'run': 'TestPoolScale', 'checks': 200, 'timeout': 600}],
 'thorough': [{'pkg': 'c14', 'run': 'TestRegress|TestPoolStateMachine', 'checks': 100000, 'shards': 8, 'timeout': 2400},
              {'pkg': 'c14', 'run': 'TestPoolStateMachine', 'checks': 40000, 'steps': 80, 'shards': 4, 'timeout': 2400},
              {'pkg': 'c14', 'run': 'TestPoolConcurrent', 'race': True, 'checks': 12000, 'shards': 4, 'timeout': 2400},
              {'pkg': 'c14', 'run': 'TestPoolScale', 'checks': 1500, 'shards': 4, 'timeout': 2400}]}
