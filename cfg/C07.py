# run specification for C07 (loaded by checks_config.py)
CHECK = {'level': 'exploration',
 'rule': 'exhaustive header pairs over (height,maxHeightGenerated,maxHeightPrevoted) in 0..R x same/different generator + rapid pairs over uint32 '
         'boundary values; fork-choice inputs over all equality patterns with every instant (header timestamps, reception of the tip, now) at a drawn offset inside its slot; real-time sequences (2-second slots) of 1-3 competing blocks for one height through Executer.process, each late or on time, by the same or another generator, with or without a slot of waiting in between; chains of a protocol-following generator replayed through the real BFT '
         'module. Non-trivial = same-generator pair with at least one field tie, or a fork-choice input on which >=2 predicates are true, or a chain '
         'case in which the generator switched chains; distinct by digest of the field tuple'
         " Plus TestWideWindow (60 cases quick / 400 per thorough shard): batch sizes 3-150 (nothing in the engine limits the batch size; mainnet 103), the generator's earlier block placed around the far edge of the 3*batchSize window defined on the harness's own header list, candidate header denying or admitting it; verdict = inside the window AND the LIP-0014 pair rule (non-trivial = batch size above 101, place beyond 303, block denied).",
 'level_text': 'Exhaustive comparison of the contradiction relation with the LIP-0014 definition and with the semantic statement (neither header is '
               'a legitimate successor of the other) over all field triples in 0..6 (0..8 thorough), random uint32 pairs, all fork-choice predicate '
               'patterns with the first-match classification order, and replayed two-branch chains of protocol-following generators through the real '
               'BFT module; tie-break sequences compared decision by decision with a reference that carries (tip slot, slot of reception, generator). Exhaustive on the small domain, sampled beyond it.',
 'level_note': 'Trusts my transcription of LIP-0014; wall clock steered by slot placement (>= 30 s margins); the real-time sequences skip a case as inconclusive when the wall clock crosses a slot boundary inside a step.',
 'technique': 'exhaustive enumeration + property-based testing (rapid) against a LIP-0014 reference',
 'assumptions': ['reference = my transcription of LIP-0014', 'wall clock read by forkchoice.NewForkChoice is steered by slot placement'],
 'quick': [{'pkg': 'c07', 'checks': 3000, 'timeout': 600, 'args': ['-test.skip', 'TestTieBreakSequence']},
           {'pkg': 'c07', 'run': 'TestTieBreakSequence', 'checks': 10, 'timeout': 300}],
 'thorough': [{'pkg': 'c07', 'checks': 30000, 'shards': 8, 'scale': 1.5, 'timeout': 1500, 'args': ['-test.skip', 'TestTieBreakSequence']},
              {'pkg': 'c07', 'run': 'TestTieBreakSequence', 'checks': 14, 'shards': 8, 'gomaxprocs': 2, 'timeout': 900}]}
