# run specification for C10 (loaded by checks_config.py)
CHECK = {'level': 'exploration',
 'rule': 'rapid-generated histories of 1-8 batches of set/overwrite/delete (deletion = empty value, also of absent keys; keys unique per batch, '
         'labelled sub-domain with identical duplicates) over key pools of length 1/2/4/32/38 bytes whose keys are derived from each other by '
         'keeping c leading bits (c biased to the 8/16/24-bit subtree boundaries and the last bit), applied in random order with trie.Update on a '
         'locked map, on in-memory pebble and through batchdb+Write (the ABIHandler.Commit pattern), with optional NewTrie(root,L) reopen between '
         'batches; after every batch root == naive LIP-0039 recursion over the map; final map rebuilt in one batch on a fresh store; two-route '
         'histories (direct vs. insert-extras-then-delete) compared with each other; Prove/Verify on drawn query sets (present, absent near/far, '
         'duplicates): the proof returned by Prove must EQUAL the proof the reference model prescribes for the same query keys - key, value and bitmap of '
         'every query and the sibling-hash list in number, order and content (model answers with per-level sibling hashes, assembled by the LIP-0039 '
         'verification queue: height descending, then key; sibling queries merge; queries ending in the same node count once) - a difference is a '
         'violation even when Verify(Prove(keys)) is true (Prove and Verify share helpers; a common drift would otherwise empty the soundness tests), '
         '+ Encode/Decode round trip + 1-4 single-field tamperings each; event-root call pattern (12-byte keys, raw values, one '
         'Update); seed-expanded maps of 300-2000 keys; directed DENSE cases (TestDense, every kind in every tier): key families whose byte at one '
         'level takes all 256 values under a common prefix so that an 8-bit subtree is completely expanded (256 nodes = count byte 255 in '
         'the store: 256 leaves / 256 stubs / leaves+stubs+empty nodes), at the top level, at levels 1/2/3/6/L-2 and at the last key byte (all '
         '256 last-byte siblings; L=1: the whole key space), nested 2-3 levels deep (also with a gap level), key lengths 1/2/4/12/32/38; '
         '0-3 toggle keys per level put the subtree at 253-255 nodes first, a fill batch completes it, 2-4 further batches set/delete toggle '
         'keys, extra keys in occupied slots (256 leaves + 1), last-bit siblings and base keys (255<->256 transitions in both directions), '
         'with reopen; undirected large maps of 1500/2500 uniform keys and a 38-byte module-store shape (1200/2000 keys under one 6-byte '
         'prefix) where the same happens by size; 400-1000 events per block for the event-root pattern. In every dense state: model root, '
         '1-16-key proofs around the dense region + one proof over the whole dense family, tamperings, one-batch rebuild, second route in '
         'two sorted batches on another store. Non-trivial dense case = a 256-node subtree was read back from the store (by Prove or by a '
         'later Update); labels record the count byte actually found in the store under the subtree root. Non-trivial history = final map >= 2 keys and (a present key was deleted or two keys '
         'share >= 8 leading bits); non-trivial proof/tamper case = query set with both present and absent keys. Distinct by digest of the '
         'full history / query set / tampering. FORGED MULTI-QUERY PROOFS (TestForgedEnum deterministic, TestForgedMulti rapid; every tier): '
         'for a trie and an honest multi-key proof built from the model answers (present keys and absent probes, with their per-level sibling '
         'hashes), 1-2 forged queries are derived from one honest query of the same proof (the anchor): a forged node 1-3 levels BELOW the '
         'anchor node on a path extending its path (extra bitmap bits 1/11/10/111/100, set bits get a forged sibling hash: random, the empty '
         'hash or the anchor node hash), two forged sibling leaves below it, the forged SIBLING of the anchor node, another key AT the same '
         'path, a forged node 1-2 levels ABOVE it, a present key that is not queried honestly with a wrong/empty value one level below / at / '
         'above its real leaf, and two independent below-forgeries under two anchors; each with the forged key sorting before and after the '
         'anchor key, leaving the anchor key directly below the anchor node or only below the forged node; claims: inclusion of an absent key '
         'with a forged value or with the value of the anchor leaf, wrong value for a present key, absence of a present key (shown as an empty '
         'node, or another forged node shown on its path with the anchor key as query key), and all-true control claims; each combined with '
         '0-3 further honest queries still pending at greater heights and 0-3 at smaller-or-equal heights when the forged branch lands (ten '
         'count combinations with rotating picks; in the thorough tier of TestForgedEnum ALL subsets of the other candidates up to size 3), '
         'rotating query order (forged last/first/reversed/permuted) and duplicated anchor/forged/extra queries. The sibling-hash list is '
         'assembled by running the LIP-0039 verification loop over the forged set so that every branch finds the hash it wants in consumption '
         'order. TestForgedEnum: one-byte keys b<<5|tail, b in every 3-6-element subset of 0..7, tails 00/0a/1f (quick: every third trie; '
         'thorough: all 630), every present key and absent probe as anchor; TestForgedMulti: drawn tries (3-8 keys spread over the top '
         'nibble incl. derived neighbours, or clustered pools of 8-24 keys; key lengths 1/2/4/32/38), up to 5 drawn anchors (2 for 32/38-byte '
         'keys). Oracle: Verify(real root, real key length) true => every claim of every query holds in the reference map; the honest part '
         'of every fourth set is verified alone as a control: Verify must accept the model-assembled honest proof AND Prove must return exactly that proof '
         '(queries and sibling hashes) for the same keys, once per distinct honest key list of a trie; both fatal (labels *-control:...). Non-trivial forged case = the set contains a false claim AND passes the input '
         'checks of Verify (mirrored in the harness for classification only), i.e. it reaches CalculateRoot; labels forged-*:stage=... give '
         'the fraction that died in input validation vs. reached CalculateRoot (which error / root mismatch) and forged-*:forged-branch=... what '
         'happened to the forged branch (dropped onto an honest path / honest branch dropped onto it / queued next to it / sibling merge / '
         'reached the root alone). FIELD RE-SPLITTING AND LENGTH FORGERIES (TestResplitEnum deterministic, TestResplitMulti rapid, TestResplitDirected on '
         'the proofs returned by Prove; every tier): nothing is length-prefixed when hashed (leaf = H(00|key|value), branch = H(01|left|right)), so '
         'starting from an honest single-query or multi-query proof (model answers + assembled sibling hashes; 1-5 queries; target first / last / in '
         'the middle; other honest queries pending deeper and at-or-above the target height; the target also twice = honest copy + forged copy) the '
         '(every honest set under the same fatal control as above: verified by Verify and equal to the output of Prove) '
         'LENGTHS and FIELD BOUNDARIES of one query or of every query are changed while the query keys keep the correct length: 1/2/3/8/16/31/32 '
         '(and drawn) leading value bytes moved to the end of the key (key longer, value shorter down to empty), 1/2/8/L-1/L (and drawn) trailing '
         'key bytes moved to the front of the value (key shorter down to empty, value longer) - both keep key|value and therefore leaf hash, path and '
         'root, but turn an inclusion query into an absence claim for a PRESENT key; keys with 1/8/L extra trailing or leading bytes (zero, ff, junk, '
         'copied value bytes, the key repeated = lengths L+1, L+8, 2L), keys with the tail or head cut off (L-1, L-8, 0); value alone shorter/longer; '
         'a ghost key of correct length on the same path with the same value next to the honest query (inclusion claim for an absent key); bitmap '
         'with 1-2 leading zero bytes or one trailing byte; first/last sibling hash with 31/33/0/64 bytes; bitmap and sibling variants also combined '
         'with a wrong value on the target, key variants also with the query key following the proof key (control). Targets: inclusion queries, '
         'absence shown by an empty node, absence shown by another leaf. Tries: every seventh (thorough: every) enumerated one-byte trie, fixed '
         '6-key tries of key length 2/4/32/38 (last-bit sibling pair, 9 and 4 shared bits), drawn tries of 1-24 keys. Oracle unchanged: Verify true on '
         'the real root => every certified claim about a queried key (present with value / absent) and every ClaimsHold clause agrees with the '
         'reference map. Non-trivial length-forged case = the set contains a false claim AND (it passes the input checks of Verify = reaches the '
         'hashing stage, OR every query of it still hashes to the real root with the honest sibling hashes, i.e. only field validation can reject '
         'it); labels resplit-*:stage=..., resplit-*:reached-CalculateRoot(hashing stage), resplit-*:every-query-still-hashes-to-the-real-root, '
         'resplit-*:false-claim-AND-hashes-to-the-real-root:<class>, resplit-*:proofkey-length=L+1/L-1/L+8/2L/0/..., resplit-*:class/variant/set/target'
         " Result lifetime (TestHistory): every Prove result and the root slice Update returned are kept in the caller's hands through all later Prove calls and batches of the history; after each of them the held proof objects must be unchanged and must still verify against the root they were generated for (label held-proof-rechecked).",
 'level_text': 'Differential test of trie.Update against an independent naive LIP-0039 root (recursion over key bits, no subtrees) after every '
               'batch of generated histories on three store kinds with reopen, plus model-free history-independence checks; completeness of '
               'Prove/Verify with the answers checked against the map; soundness under 20 kinds of tampering of honest proofs and under '
               'systematically forged multi-query proofs (forged queries derived from honest queries of the same proof, placed below / at / '
               'beside / above them, before and after them in key order, with 0-3 honest queries pending deeper and shallower): a tampered or '
               'forged proof that still verifies must assert only true facts about the map, against the real root and key length; the same under '
               'field re-splitting and length forgeries (key/value boundary moved in both directions, over-long and truncated proof keys, '
               'bitmap and sibling-hash length games) of single-query and multi-query proofs with query keys of correct length; proof codec '
               'round trip.',
 'level_note': 'Sampled, not exhaustive. Model = my reading of LIP-0039 (cross-checked by model-free two-route/rebuild comparisons and by the '
               'repository\'s own fixtures passing). Values are 32 bytes (what the state-tree caller passes) except in the event pattern.',
 'technique': 'property-based differential and metamorphic testing (rapid) against a naive LIP-0039 reference model',
 'assumptions': ['reference root/answers = my transcription of LIP-0039 in harness/model/smt; reference sibling-hash order = the LIP-0039 verification queue as '
                 'transcribed in assembleSiblings (forged_test.go); distinct nodes are assumed to have distinct hashes (SHA-256)',
                 'keys unique within one Update batch (every caller deduplicates); identical duplicates only as a labelled sub-domain',
                 'values are 32-byte strings, deletion is the empty value (package tests and state-tree caller); raw-length values only in the '
                 'single-Update event-root pattern',
                 'query sets are non-empty; malformed proofs that crash Verify (over-long bitmap, S3) belong to C09 and count as "not verified"',
                 'subtree height 8 only (SetSubtreeHeight has no caller)'],
 'quick': [{'pkg': 'c10', 'run': 'TestHistory|TestTwoRoutes|TestRegress', 'checks': 2000, 'timeout': 600},
           {'pkg': 'c10', 'run': 'TestEventPattern', 'checks': 600, 'timeout': 600},
           {'pkg': 'c10', 'run': 'TestLargeMaps', 'checks': 6, 'timeout': 600},
           {'pkg': 'c10', 'run': 'TestDense', 'checks': 4, 'timeout': 600, 'shrinktime': '6s'},
           {'pkg': 'c10', 'run': 'TestForged', 'checks': 200, 'timeout': 600, 'shrinktime': '10s'},
           {'pkg': 'c10', 'run': 'TestResplit', 'checks': 200, 'timeout': 600, 'shrinktime': '10s'}],
 'thorough': [{'pkg': 'c10', 'run': 'TestHistory|TestTwoRoutes|TestRegress', 'checks': 20000, 'shards': 12, 'timeout': 2400},
              {'pkg': 'c10', 'run': 'TestEventPattern', 'checks': 6000, 'shards': 2, 'timeout': 2400},
              {'pkg': 'c10', 'run': 'TestLargeMaps', 'checks': 32, 'shards': 2, 'timeout': 2400},
              {'pkg': 'c10', 'run': 'TestDense', 'checks': 40, 'shards': 2, 'timeout': 2400, 'shrinktime': '6s'},
              {'pkg': 'c10', 'run': 'TestForgedMulti', 'checks': 600, 'shards': 2, 'timeout': 2400, 'shrinktime': '10s'},
              {'pkg': 'c10', 'run': 'TestForgedEnum', 'shards': 2, 'timeout': 2400},
              {'pkg': 'c10', 'run': 'TestResplit', 'checks': 1500, 'shards': 2, 'timeout': 2400, 'shrinktime': '10s'}],
 'replay': [{'pkg': 'c10', 'timeout': 600}]}
