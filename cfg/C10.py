# run specification for C10 (loaded by checks_config.py)
CHECK = {'level': 'exploration',
 'rule': 'rapid-generated histories of 1-8 batches of set/overwrite/delete (deletion = empty value, also of absent keys; keys unique per batch, '
         'labelled sub-domain with identical duplicates) over key pools of length 1/2/4/32/38 bytes whose keys are derived from each other by '
         'keeping c leading bits (c biased to the 8/16/24-bit subtree boundaries and the last bit), applied in random order with trie.Update on a '
         'locked map, on in-memory pebble and through batchdb+Write (the ABIHandler.Commit pattern), with optional NewTrie(root,L) reopen between '
         'batches; after every batch root == naive LIP-0039 recursion over the map; final map rebuilt in one batch on a fresh store; two-route '
         'histories (direct vs. insert-extras-then-delete) compared with each other; Prove/Verify on drawn query sets (present, absent near/far, '
         'duplicates) + Encode/Decode round trip + 1-4 single-field tamperings each; event-root call pattern (12-byte keys, raw values, one '
         'Update); seed-expanded maps of 300-2000 keys; directed DENSE cases (TestDense, every kind in every tier): key families whose byte at one '
         'level takes all 256 values under a common prefix so that an 8-bit subtree is completely expanded (256 nodes = count byte 255 in '
         'the store: 256 leaves / 256 stubs / leaves+stubs+empty nodes), at the top level, at levels 1/2/3/6/L-2 and at the last key byte (all '
         '256 last-byte siblings; L=1: the whole key space), nested 2-3 levels deep (also with a gap level), key lengths 1/2/4/12/32/38; '
         '0-3 toggle keys per level put the subtree at 253-255 nodes first, a fill batch completes it, 2-4 further batches set/delete toggle '
         'keys, extra keys in occupied slots (256 leaves + 1), last-bit siblings and base keys (255<->256 transitions in both directions), '
         'with reopen; undirected large maps of 1500/2500 uniform keys and a 38-byte module-store shape (1200/2000 keys under one 6-byte '
         'prefix) where the same happens by size; 400-1000 events per block for the event-root pattern. In every dense state: model root, '
         '1-16-key proofs around the dense region + one proof over the whole dense family, tamperings, one-batch rebuild, second route in '
         'two sorted batches on another store. Non-trivial dense case = a 256-node subtree was read back from the store (by Prove or by a '
         'later Update); labels record the count byte actually found in the store under the subtree root. Non-trivial history = final map >= 2 keys and (a present key was deleted or two keys '
         'share >= 8 leading bits); non-trivial proof/tamper case = query set with both present and absent keys. Distinct by digest of the '
         'full history / query set / tampering',
 'level_text': 'Differential test of trie.Update against an independent naive LIP-0039 root (recursion over key bits, no subtrees) after every '
               'batch of generated histories on three store kinds with reopen, plus model-free history-independence checks; completeness of '
               'Prove/Verify with the answers checked against the map; soundness under 19 kinds of single-field tampering (a tampered proof '
               'that still verifies must assert only true facts about the map, against the real root and key length); proof codec round trip.',
 'level_note': 'Sampled, not exhaustive. Model = my reading of LIP-0039 (cross-checked by model-free two-route/rebuild comparisons and by the '
               'repository\'s own fixtures passing). Values are 32 bytes (what the state-tree caller passes) except in the event pattern.',
 'technique': 'property-based differential and metamorphic testing (rapid) against a naive LIP-0039 reference model',
 'assumptions': ['reference root/answers = my transcription of LIP-0039 in harness/model/smt',
                 'keys unique within one Update batch (every caller deduplicates); identical duplicates only as a labelled sub-domain',
                 'values are 32-byte strings, deletion is the empty value (package tests and state-tree caller); raw-length values only in the '
                 'single-Update event-root pattern',
                 'query sets are non-empty; malformed proofs that crash Verify (over-long bitmap, S3) belong to C09 and count as "not verified"',
                 'subtree height 8 only (SetSubtreeHeight has no caller)'],
 'quick': [{'pkg': 'c10', 'run': 'TestHistory|TestTwoRoutes|TestRegress', 'checks': 2000, 'timeout': 600},
           {'pkg': 'c10', 'run': 'TestEventPattern', 'checks': 600, 'timeout': 600},
           {'pkg': 'c10', 'run': 'TestLargeMaps', 'checks': 6, 'timeout': 600},
           {'pkg': 'c10', 'run': 'TestDense', 'checks': 4, 'timeout': 600, 'shrinktime': '6s'}],
 'thorough': [{'pkg': 'c10', 'run': 'TestHistory|TestTwoRoutes|TestRegress', 'checks': 20000, 'shards': 12, 'timeout': 2400},
              {'pkg': 'c10', 'run': 'TestEventPattern', 'checks': 6000, 'shards': 2, 'timeout': 2400},
              {'pkg': 'c10', 'run': 'TestLargeMaps', 'checks': 32, 'shards': 2, 'timeout': 2400},
              {'pkg': 'c10', 'run': 'TestDense', 'checks': 40, 'shards': 2, 'timeout': 2400, 'shrinktime': '6s'}],
 'replay': [{'pkg': 'c10', 'timeout': 600}]}
