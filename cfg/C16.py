# run specification for C16 (loaded by checks_config.py)
CHECK = {'level': 'exploration',
 'rule': 'rapid-generated histories (genesis + 1-7 steps: block of 0-6 transactions / revert of the tip / restart with the application 0-2 '
         'blocks ahead of the engine / Finalize(tip height - 0..3)) run through the real framework.ABIHandler + statemachine.Executer over in-memory pebble DBs with a scripted '
         'module (programs of set/overwrite/delete/get and scans Iterate(prefix, limit, reverse) / Range(start, end, limit, reverse) over two '
         'module stores - 8 prefixes/bounds incl. the whole store, empty and inverted intervals, limits none/1/2/3 - through fresh and retained '
         'store handles, Add/AddUnrevertible '
         'events, nested context-level and store-level snapshot/restore, success or failure; scripted hooks at all four hook points; dry-run '
         'execute/commit; expected-root and abandon/crash variants), compared after every ABI call with a map model and a naive LIP-0039 '
         'sparse-Merkle reference. Non-trivial = history containing a failing command that set a new key, overwrote one, deleted one and emitted '
         'both event kinds, or a committed block that deletes a key which existed before the block. Second family (TestC16Reorgs, same '
         'oracle): histories built around chain reorganisations - 0-2 prefix blocks, then 1-3 episodes of: remove k = 1-4 blocks (Revert '
         'with/without expected root and/or restart recovery with the engine 1..k blocks behind, restarts at distance 0 in between), apply '
         'a different branch of k or k+1 blocks, then nothing / revert the tip / restart with the engine 0-4 blocks behind / remove the new '
         'branch and return to the blocks removed first; finally (2 of 3) a descent Revert/recovery through up to all heights. Branch blocks '
         'are state-neutral with probability 0.3-0.7 at every position (empty; reads and events only; every transaction writes and fails; a '
         'key written back to its current value from a command or any hook; writes that cancel out: set+delete of a new key in one program, '
         'in two transactions, in before/after hooks, snapshot-set-restore, delete+set-back, overwrite+set-back), else a light block (1-3 '
         'writes from 1-2 places, sometimes beside a failing transaction) or a block of the general generator. For these histories '
         'non-trivial additionally = a reorganisation of depth >= 2 together with the removal of a state-neutral block. Labels count the '
         'removals (Revert / recovery) of a state-neutral block at a height that previously held a state-changing block of an abandoned '
         'branch, reorg depths, removals at heights that saw 2+/3+ blocks. Third family (TestC16Scans, same oracle): genesis with up to 8 persisted keys, then 2-6 steps, '
         'mostly blocks built from 1-2 scan scenarios = a write chosen with the model run alongside (delete of a persisted key 56%, overwrite of '
         'one 24%, creation of a new key 20%) from one place of the block and scans of that store which cover the key (80%) or just miss it from '
         'a later place: same program, around snapshot/restore, a later transaction that succeeds or fails, a failed writer then a scanner, a '
         'failing then a succeeding scanner, command pre/post hooks, block before/after hooks, often followed by Get/Has of the key; besides '
         'general/light blocks, reverts 1-3 deep, restarts 0-3 deep and Finalize episodes (Finalize 0-3 below the tip, then reverts down to / '
         'through the finalized height or a recovery, then a block). Every scan result the module saw must equal the sorted-map prediction of '
         'the model. Labels count scans by class (in hook / succeeding / failing command, over a staged delete of a persisted key by the same or '
         'an earlier program, over created / overwritten keys, beside a delete, after a restore, limit hit, reverse, empty), committed blocks '
         'that delete a persisted key which a hook or succeeding command scanned after the delete, Finalize calls, reverts above / at / refused '
         'below the finalized height. Fourth family (TestC16CrashPoints + TestRegressCrashInsideCommitRevertInit): fault enumeration over file-system '
         'operations - the state database is the production db.DB opened on pebble\'s strict in-memory file system behind a wrapper that counts every '
         'operation changing durable state (create/write/sync/rename/remove/link/mkdir/dir-sync); a generated short history (genesis, 0-4 steps of '
         'light or general blocks - sets/overwrites/deletes/scans, failing commands, events - reverts, restarts 0-2 deep) is followed by ONE target '
         'ABI call: Commit(H) of a block, Revert(H) as consensus.deleteBlock issues it, or Init with the application 1 or 2 blocks ahead of the '
         'engine (recovery reverts); K = number of file-system operations of that call in a crash-free reference run; for EVERY k = 0..K the whole '
         'case is replayed on a fresh file system with the process dying right before the k-th operation of the call (k = K: right after the last '
         'one), unsynced data is lost (ResetToSyncedState), the database is reopened and Init is called as engine.Start does with every engine tip '
         'possible at that crash point, derived from the call order in pkg/consensus (processValidated: abi.Commit then chain.AddBlock; deleteBlock: '
         'abi.Revert then chain.RemoveBlock; engine.Start: abi.Init with the stored tip): during Commit(H) the tip is H-1, during Revert(H) it is H, '
         'after the last operation of the call additionally H resp. H-1, during Init it is fixed. Labels: target call kind, K, what lay on disk '
         'after the crash (landed-before / landed-after / landed-between / mixed), engine tip, Init did nothing / recovered by Init (1, 2 blocks) / '
         'refused because the application is below the engine tip. Non-trivial for these cases = the target call changes the state and either Init '
         'had to roll back or the crash fell strictly inside the call. Distinct by digest of the whole history (crash cases: + crash point + engine tip)',
 'level_text': 'Model-based test of transaction atomicity and state-root derivation: after every ExecuteTransaction the response events '
               '(identity, order, indexes, standard event) and the staged state (reads and Iterate/Range results inside programs + full probe) must equal the model (scans are pure reads: a '
               'scan after a staged write must neither show stale data nor change what is committed); after '
               'every Commit/Revert/Init the state DB dump, the returned root (= reference sparse-Merkle root over the live keys with tree key = '
               'store prefix || SHA256(key), value = SHA256(value)) and the tree-state record must equal the model / the engine tip - also '
               'across reorganisations 1-4 blocks deep with state-neutral blocks, where records kept per height for abandoned blocks (diffs) '
               'must not influence a later Revert or recovery; Revert returns exactly the root before the block. Finalize leaves state, root and '
               'record as they are; Revert/recovery of blocks above the finalized height restore exactly; a Revert at or below it either restores '
               'exactly or is refused with nothing changed. Crash points inside Commit / Revert / Init recovery (fault enumeration over the file-system '
               'operations of the call, unsynced data lost): whenever the Init of the next process returns success, state dump, tree-state record and '
               'root must be the model\'s at the ENGINE\'s tip, and the chain must continue from there through the ordinary oracle (the target block '
               'again or a new block, a block writing every key, a block deleting every key = empty-tree root, a Revert with expected root); an error '
               'from Init is accepted only if the application on disk is, consistently (dump, record height and root), below the engine\'s tip - '
               'nothing to roll back - and the refusal changed nothing.',
 'level_note': 'Sampled histories over a small key/value universe (2 stores x 5 keys x 6 values), reorganisations up to 4 blocks deep, recoveries '
               'up to 4 blocks deep; Finalize has no caller in the pinned tree, the histories call it between blocks with heights 0-3 below the tip, '
               'which of refusal/restoration happens at or below the finalized height is not asserted, recoveries are not sent below it; scans are '
               'checked as seen by commands/hooks of the framework (the diffdb overlay algebra itself, larger key sets and limit 0 remain C12); '
               'reference SMT cross-checked against the real trie (TestRefSMTAgainstTrie). Crash enumeration: exhaustive over the crash points of ONE call per '
               'sampled history (quick: 100 histories, about 400 crash runs); crash model = stop before a file-system operation with everything unsynced lost '
               '(no torn single writes, no survival of unsynced data, no reordering - torn batches are C13); the unchanged tree issues 2 operations per '
               'Commit/Revert (one WAL write + one sync of one batch), so K is 2 (4 for a two-block recovery); only the state database is on the crashing '
               'file system, the engine\'s own database is represented by the tip handed to Init; Finalize is not a crash target.',
 'technique': 'property-based stateful testing (rapid) against a map model + reference sparse Merkle tree',
 'assumptions': ['snapshot/restore semantics = one overlay shared by all store handles (model in harness/c16/model_test.go)',
                 'tree key/value derivation as documented in LIP-0040 and framework/state_batch.go (prefix || H(key) -> H(value)), deleted keys absent',
                 'hook events lie outside the command snapshot and are always kept',
                 'ExecuteTransaction requests carry a Consensus message in generated histories (the in-process callers omit it: finding C16-F5)',
                 'crash points: the engine records a block after abi.Commit returned and removes it after abi.Revert returned (pkg/consensus/execute.go), so the engine tip can be ahead of a crashed Commit / behind a crashed Revert only once the call has issued its last file-system operation',
                 'crash points: an application that is consistently BELOW the engine tip after a crash (Revert durable, engine had not removed the block yet) may be refused by Init - the statement speaks of rolling back only'],
 'quick': [{'pkg': 'c16', 'run': 'TestC16Histories|TestRegress', 'checks': 4000, 'timeout': 900},
           {'pkg': 'c16', 'run': 'TestRefSMTAgainstTrie', 'checks': 400, 'timeout': 300},
           {'pkg': 'c16', 'run': 'TestC16Reorgs', 'checks': 1500, 'timeout': 900},
           {'pkg': 'c16', 'run': 'TestC16Scans', 'checks': 1200, 'timeout': 900},
           {'pkg': 'c16', 'run': 'TestC16CrashPoints', 'checks': 100, 'timeout': 900}],
 'thorough': [{'pkg': 'c16', 'run': 'TestC16Histories|TestRegress', 'checks': 25000, 'shards': 15, 'timeout': 2400},
              {'pkg': 'c16', 'run': 'TestRefSMTAgainstTrie', 'checks': 5000, 'shards': 1, 'timeout': 2400},
              {'pkg': 'c16', 'run': 'TestC16Reorgs', 'checks': 12000, 'shards': 6, 'timeout': 2400},
              {'pkg': 'c16', 'run': 'TestC16Scans', 'checks': 12000, 'shards': 4, 'timeout': 2400},
              {'pkg': 'c16', 'run': 'TestC16CrashPoints', 'checks': 2500, 'shards': 3, 'timeout': 2400}]}
