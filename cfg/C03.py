# run specification for C03
CHECK = {
 'level': 'exploration',
 'rule': 'rapid-generated reachable node states (1-5 validators, 0-25 valid blocks with transactions/assets/events/validator changes incl. generator-key rotations and rotation-only updates/aggregate '
         'commits), a valid successor B built from real node state, and 3-8 mutants per state drawn from a catalogue of ~80 single-rule mutation '
         'operators (header fields, slot/generator/signature, stale signature per field, BFT fields, aggregate-commit tamperings, roots, statically '
         'invalid transactions, size limit, assets order, execution failures, blocks whose execution result and header disagree about the next validator set, the revoked or never registered generator key of the slot owner). Every applicable mutant is non-trivial; distinct by (operator, mutant ID)'
         " Operator signature-copied-from-an-earlier-block-of-the-generator: the mutant carries a signature this node has verified before (the slot owner's latest earlier block) instead of a signature over its own fields.",
 'level_text': 'Each mutant is offered through Executer.process (gossip path) and through Validate+processValidated (sync path); it must be rejected '
               '(error or silent discard) with tip, full database dump, BFT heights, finalized height byte-identical and no consensus event; afterwards '
               'the untouched valid successor must still be accepted.',
 'level_note': 'Fake deterministic application scripted per block; future-slot rule exercised through slot placement relative to the wall clock.',
 'technique': 'property-based mutation testing (rapid): single-rule mutants of valid blocks against an unchanged-state oracle',
 'assumptions': ['application-level transaction semantics are scripted', 'sync-class fork-choice routing is covered by C04/C19'],
 'quick': [{'pkg': 'c03', 'checks': 150, 'timeout': 600}],
 'thorough': [{'pkg': 'c03', 'checks': 2000, 'shards': 16, 'timeout': 2400}],
}
