# run specification for C17 (loaded by checks_config.py)
CHECK = {'level': 'exploration',
 'rule': 'rapid-generated workloads on 2-3 started p2p.Connections (loopback aliases): 1-200 RequestFrom calls from 1-32 goroutines, response timeout '
         'shortened to 20-100 ms by hook, per attempt a handler latency (fast / clustered +-5 ms around the timeout / beyond it), a directive executed at '
         'one of the three schedule points (hold the requester after send until the reply was handled; hold it after its timer fired until the reply '
         'found the entry; hold the reply before delivery until the timer fired; cancel the context before delivery; plain sleeps), duplicates before/'
         'after the real reply, error replies, context cancellation early / around the deadlines / anywhere, unsolicited responses. Non-trivial = at '
         'least 8 requests overlapped AND at least one reply was handled before its requester started to wait or for an attempt whose timer fired '
         '(both known from schedule-point events, not from clocks). Distinct by digest of the whole workload. One case in five is of the class "stalled peer": 1-2 black-hole peers (silent TCP listeners on loopback '
         'dialled as libp2p peers: opening the stream blocks until the context is cancelled after 2-6 timeouts or libp2p\'s 5 s local dial timeout) addressed by 1-5 '
         'of the calls, 30-120 calls to healthy peers whose handler answers within 2 ms, timeout 150-300 ms, 8-24 workers; non-trivial there = at least 8 requests '
         'overlapped AND healthy calls overlapped a stalled send of their own node AND were judged (no late process heartbeat during the call). '
         'Separate generated class "late-response storm" (TestStorm, 40 cases quick / 200 per thorough shard): 8-64 concurrent requesters (2-6 calls each, at most 256) '
         'on one or several nodes against 1-3 responder hosts, timeout 8-40 ms; per call: 20/50/80/100 % of the calls have 1-4 leading attempts answered 1-20 ms AFTER '
         'the timeout (their replies take onResponse\'s unknown-request-ID branch while the other requesters register, retry and remove their pending entries), '
         'the rest fast handlers (0-2 ms); about 7 % cancelled contexts (after 0-3 timeouts), about 6 % calls to a peer ID nobody has an address of (register + remove back to back), '
         'about 7 % error replies, 0-6 unsolicited responses; for 0/30/60/100 % of the late calls onResponse is held at its unknown-ID warning (logger call inside the resMu '
         'critical section, after the lookup) until another requester of that node is about to take resMu (call about to start / timer fired), + 0.1-1.5 ms, cap 80 ms. '
         'Non-trivial there = at least 8 requests overlapped AND at least one late reply took the unknown-ID branch while other requests of the same node were in flight '
         '(schedule-point/log events, not clocks). After every storm: pending tables empty, then one fresh request per node (1 s timeout) must be served. '
         'Dimension "requests indistinguishable by content" of every class (workload incl. stalled-peer, storm; about 2 of 3 generated cases): 1-3 groups of 2-4 calls that send the '
         'same procedure with a byte-identical payload, released together by a gate (never in the last 150 ms of a wall-clock second, so all of them are created within one '
         'second; gate cap 300 ms) on different workers: (a) one requester to two or three different responder hosts (a fourth node is the third host), (b) one requester 2-4 times '
         'to the same host, (c) requesters/hosts drawn freely; responders answer with a token naming the message ID served, THEMSELVES and the number of the handler invocation, '
         'alternately slow (T/4..T/2, storm T/3..2T/3, stalled-peer T/8..T/4: inside the timeout) and fast (<= 2 ms), one storm group in four with a first attempt answered after '
         'the timeout; the payload-diverse calls of the class run in the same case. Oracle there: what a call returns was produced by ITS target (token node = addressed node = '
         'Response.PeerID) for one of ITS OWN message IDs (IDs its goroutine passed after-send with; handler run recorded for that ID at that node), no response instance returned by two calls; '
         'no reply dropped as "unknown request ID" while more requests with that ID are outstanding (after-send passed, timer not fired, not cancelled) than responses with that ID found a pending entry '
         '(checked for every call of every class, ordered through resMu, no clocks); handler runs per (group, requester, responder) <= calls x (retries+1) and = calls when no timer fired and nothing '
         'was cancelled; pending tables empty. Directed form in every tier (TestRegressIdenticalConcurrentRequests: to three peers / three times to one peer / both mixed, T 400 ms, slow 120 ms). '
         'Response timer, every class (own clock, LOWER bound): "this attempt is no longer waiting" is learnt from the engine\'s timeout-fired schedule point in the lost-reply, stalled-peer and storm rules, '
         'so for every attempt (requester goroutine, message ID - also the per-peer goroutines of Broadcast) the time between the return of the after-send callback (the engine arms its timer afterwards) and the '
         'entry of the timeout-fired callback, both read from the monotonic clock of the test process, must be >= the timeout set through VerifSetTimeout - 1 ms (deadline:response-timer-fired-before-the-timeout; a timer '
         'cannot fire early because of load, so no heartbeat guard; labels deadline:...). The retry budget is read from p2p.VerifMaxRetries() and pinned to the documented value 3 (= 4 attempts) in TestMain of every process. '
         'Watchdog for every case of every class: a request that does not end is a VIOLATION when three goroutine dumps (>= 300 ms and >= 40 process heartbeats apart, '
         'after >= 4 s and >= 400 heartbeats without any event) show the same goroutines of the case\'s cluster waiting for a mutex inside pkg/p2p below a MessageProtocol '
         'method, or an outstanding requester parked in the select of sendRequestMessage; or, with nothing recognisable parked, when calls are outstanding and no event '
         'happened for 30 s (10 s after the first such hit) while the process ran for >= 2000 heartbeats (callers\' stacks reported). '
         'Separate generated class "broadcast" (TestBroadcast, 32 cases quick / 150 per thorough shard / 50 per race shard; directed forms TestRegressBroadcast in every tier): the second entry point of the layer '
         'that issues requests for a caller, Connection.Broadcast = MessageProtocol.Broadcast (one request with the full timeout and retry budget to every connected peer, first error returned; the only other public '
         'entry point is RequestFrom - Publish is gossip, ApplyPenalty/BanPeer do not go through request()). Private star-shaped cluster per case: a hub connected to 1-6 peers (not connected among themselves), timeout 20-60 ms; '
         'each peer has a generated character towards Broadcast requests: answers in time / after the timeout in its first 1-3 attempts and in time afterwards / after the timeout in every attempt / never while the call runs '
         '(black-hole handler: reads the request, returns only after the Broadcast call returned) / error reply; a peer may stop (Connection.Stop) or be disconnected by the hub while the calls run; the number of peers to which '
         'every request can only fail is drawn first (0 / 1 / 2 / 3 / 4, label broadcast-case:failing-peers=N); 1-4 concurrent Broadcast calls of the hub among 0-60 ordinary RequestFrom calls hub <-> peers (own-token oracle, 10 % '
         'error replies, 10 % first attempt late, 8 % cancelled); Broadcast contexts cancelled before the call (10 %), during the call (20 %) or never. Oracle there: every Broadcast call returns - a call that does not is a '
         'VIOLATION when three goroutine dumps (same spacing and silence as above) show its caller parked inside MessageProtocol.Broadcast itself while no goroutine started by that call is inside request() any more '
         '(blocked:broadcast-does-not-return; other shapes fall under the mutex / select / 30 s rules); after all calls returned no goroutine started by a Broadcast call stays parked in Broadcast code (three dumps; goroutines still '
         'inside a per-peer request are waited for and counted); handler runs per (Broadcast call, peer) <= retries+1, attempts on the caller goroutine <= peers x (retries+1); no reply dropped as unknown while its request is outstanding; '
         'pending tables empty; then a fresh request hub -> undisturbed peer and back (1 s timeout) must be served. What Broadcast returns (nil / timeout / context error / dial error) is counted, not asserted; no elapsed time is asserted. '
         'Non-trivial there = a Broadcast that started with >= 2 connected peers ended with an error or had a per-peer attempt time out while another call of the case was in flight. '
         'Separate generated class "context shapes" (TestContextShapes, 16 cases quick / 100 per thorough shard / 30 per race shard; directed forms TestRegressContextDeadlineBeyondBudget - timeout 50 ms, context deadline 30 s, silent responder: '
         '4 attempts, timeout error, back within 2.6 s - and TestRegressContextEndsBeforeBudget in every tier): the context of every call is drawn from {context.Background, WithCancel never cancelled, WithCancel cancelled at 0..4.5 T, '
         'WithTimeout/WithDeadline shorter than one attempt (< 0.8 T), inside the retry budget (1.2..3.8 T), FAR beyond it (10..20 x the elapsed-time bound, i.e. 22..70 s against a budget of 80..200 ms), already expired; half of the deadline contexts '
         'wrapped in a WithCancel child} and combined with a drawn responder {never answers while the call runs, answers after the timeout in every attempt, late in the first 1-3 attempts then in time, in time, error reply, peer nobody has an address of}. '
         'Variants: short-timeout (2-3 nodes, T 20-50 ms, 4-24 RequestFrom calls, at most two per worker), broadcast (private star, hub + 1-3 peers in time / silent / late / error reply, T 20-40 ms, 1-2 Broadcast calls and 0-6 RequestFrom calls, each with its own context shape), '
         'long-timeout (T = 4 s: every call is answered at once or its context ends within 150 ms - short deadline / cancelled / expired - while the responder stays silent). Oracles there, upper bounds only: (A) every call returns within bound = 3 x budget + 2 s '
         '(budget = (retries+1) x T, x connected peers for Broadcast; at the bound the harness cancels the context itself so no case waits for a far deadline); (B) a call whose context ended while it ran returns within 2 s after that moment (discriminating for T = 4 s); '
         'A and B count only if the process got >= a quarter of its heartbeats during the call and are reported only when the same call, alone on a fresh case, shows the same suspect 3 times out of 3, otherwise inconclusive; '
         '(C) a call that returns the timeout error while its context is still alive was SENT retries+1 times (after-send schedule points on the caller\'s goroutine, exact; Broadcast: retries+1 attempts of the caller\'s goroutine timed out) - a deadline beyond the budget does not reduce the number of attempts; '
         'plus every older oracle (a call whose deadline has passed counts as ended in the lost-reply rule). Which error a call returns (timeout / context error / stream error) is counted, not asserted. '
         'Non-trivial there = a call with a deadline beyond the response timeout had an attempt whose response timer fired, or a context ended while its call was running.',
 'level_text': 'Generated concurrent request/response workloads between real libp2p hosts with hook-ordered races; every call must return its own '
               'token or an error - also when several concurrent calls are identical in procedure and payload (same request to 2-3 peers / repeated to one peer within one second: '
               'the response must come from the addressed peer for the call\'s own message ID) -, hook-ordered replies must not be dropped, no reply dropped as unknown while its request is '
               'outstanding, handler runs <= retries+1 per call, no pending entry after quiescence, no '
               'goroutine parked in onResponse (goroutine dump), no goroutine of the layer waiting for a mutex or parked in its select beyond the timeout '
               '(three goroutine dumps), a fresh request is served after a late-response storm; every Connection.Broadcast call (hub with 1-6 peers of which a generated '
               'subset is late, silent, answers an error, stops or is disconnected; contexts cancelled before/during the call; concurrent Broadcasts mixed with RequestFrom traffic) returns, leaves no goroutine '
               'parked in its own code and no pending entry, and fresh requests are served afterwards; with the shape of the caller\'s context generated per call (no deadline / cancelled / deadline shorter than one attempt, inside the retry budget, far beyond it, already expired) '
               'every RequestFrom and Broadcast call returns within 3 x its timeout-and-retry budget + 2 s and within 2 s after its context ended (generous upper bounds, 3-of-3 reproduction), and a timeout error with a live context means retries+1 attempts were sent. Schedules are steered at three points and at the unknown-ID '
               'log line, not enumerated; the Go scheduler is not owned.',
 'level_note': 'Blocked-forever is reported only on positive evidence from goroutine dumps taken while nothing moved for 4 s and the process demonstrably ran '
               '(heartbeats): onResponse parked in a channel send, layer goroutines waiting for a mutex, a requester parked in its select although timer and '
               'context should have ended it, or - shape unknown - callers still inside RequestFrom after 30 s without any event and >= 2000 heartbeats. Only a '
               'starved process (too few heartbeats) ends a case as inconclusive at the 120 s budget. No latency bound is asserted on a CALL outside the context-shapes class; there only two generous upper bounds (3 x budget + 2 s per call, 2 s after the end of the context), never a lower bound, '
               'judged only when the process got its heartbeats and confirmed 3 of 3 times on the call alone. The one lower bound of the check concerns the response TIMER of an attempt (not earlier than the timeout set by the harness, 1 ms tolerance): '
               'load can only delay a timer, so it is asserted unconditionally. A Broadcast that does not return is reported '
               'when its caller is parked in MessageProtocol.Broadcast itself in three dumps and none of the goroutines it started is inside a per-peer request (a Broadcast that legitimately waits for running requests is never evidence).',
 'technique': 'property-based testing (rapid) of concurrent histories with schedule-point steering and invariant/correlation oracles',
 'assumptions': ['dropped replies are observed through the "unknown request ID" warning of onResponse (custom logger); if its text changes only the '
                 'lost-reply signal is lost', 'duplicates carry the same payload as the real reply (the layer cannot tell a forged reply with a valid ID apart)',
                 'rate limiting is disabled through WithRPCMessageCounter (belongs to C18)',
                 'retry budget: messageMaxRetries = 3 (4 attempts per request) is the documented protocol value; the accessor p2p.VerifMaxRetries() is pinned to it in TestMain (a changed constant fails every process of the package)',
                 'response-timer lower bound: the engine arms the timer of an attempt after the after-send schedule point returns and reaches timeout-fired on the same goroutine; while the timeout is being changed '
                 '(liveness probe) the smaller of the old and new value is the bound; a timeout-fired without a recorded after-send of that goroutine and ID is counted (label) and not judged',
                 'stalled-peer class: "reply not delivered in time" is measured in heartbeats of a goroutine of the test process (>= 20 beats between the handler\'s '
                 'answer and the requester\'s timer), skipped for calls during which a beat was late (> 50 ms), and counts only when the same scenario shows it 3 of 3 '
                 'times; otherwise inconclusive',
                 'late-response storm: the hold between the lookup and the rest of the unknown-ID branch rides on the "unknown request ID" warning being logged inside the '
                 'resMu critical section (no engine hook there); if the line moves, late replies are still produced but no longer held (label storm:late-replies-held-... drops to 0)',
                 'blocked-layer evidence reads goroutine states and frames from runtime.Stack (sync.Mutex.Lock / sync.RWMutex.RLock / sync.RWMutex.Lock / semacquire, '
                 'first frame outside sync/runtime in lisk-engine/pkg/p2p, receiver pointer of this case\'s MessageProtocol); a layer that blocks in another shape is caught by the 30 s no-progress rule',
                 'identical-payload groups: "created within one wall-clock second" is arranged by the release gate and confirmed per group from the wall clock at the gate and at the '
                 'after-send points (label identical-payload:groups-all-first-attempts-within-one-wall-clock-second); a group that straddles a second boundary or whose members did not overlap '
                 '(machine overloaded, gate cap) only loses sensitivity for defects that depend on it, nothing is asserted from it',
                 'the handler cannot tell identical requests of one requester to one host apart: latency/error flag are taken from those calls in arrival order, attribution of runs to calls goes '
                 'through message IDs (a message ID used by one request only); message IDs are not required to be unique - a shared ID is reported only as a note inside a violation',
                 'liveness probe: a fresh fast request that fails 3 times (12 attempts of 1 s) counts only if no process heartbeat was late meanwhile',
                 'broadcast class: goroutines started by a Broadcast call are recognised by the "created by ...MessageProtocol.Broadcast in goroutine N" line of runtime.Stack (Go >= 1.21) with N = the goroutine that '
                 'executed the call; an engine that starts them from a helper with another name is still covered by the caller-side rule (caller parked in Broadcast, nothing inside request()) and by the 30 s no-progress rule',
                 'broadcast class: peers that can only fail are silent / late in every attempt / stopping; a stopping peer fails only from the moment it has stopped, so failing-peers=N is the planned number, not an observed one; '
                 'the black-hole peers of the stalled-peer class cannot be Broadcast targets (Broadcast addresses connected peers only), the silent peers here are connected hosts whose handler does not return',
                 'context-shapes class: elapsed time is read from the wall clock of the test process; a call over its bound is judged only if >= 1/4 of the 5 ms process heartbeats arrived during the call and is reported only after the same call alone exceeded the same bound 3 times out of 3; '
                 'far deadlines are >= 10 x the bound, so "returned because of its budget" and "returned because of the deadline" cannot be confused; the moment a deadline context ends is taken as its deadline (Go fires the context timer no earlier)',
                 'context-shapes class, rule C: "a request whose replies are missing is sent retries+1 times whatever the shape of its context" is a metamorphic reading of "timeout and retry budget" (the statement itself only gives the upper bound); it is asserted only for calls that themselves report the timeout error with a live context, where it is exact on an engine whose request() returns that error after its last retry'],
 'quick': [{'pkg': 'c17', 'checks': 60, 'timeout': 1800, 'shrinktime': '6s', 'env': {'VERIF_C17_STORM': 40, 'VERIF_C17_BCAST': 32, 'VERIF_C17_CTX': 16}}],
 'thorough': [{'pkg': 'c17', 'checks': 800, 'shards': 12, 'timeout': 2400, 'gomaxprocs': 4, 'shrinktime': '6s', 'env': {'VERIF_C17_STORM': 200, 'VERIF_C17_BCAST': 150, 'VERIF_C17_CTX': 100}},
              {'pkg': 'c17', 'race': True, 'checks': 200, 'shards': 4, 'timeout': 2400, 'gomaxprocs': 4, 'shrinktime': '6s', 'env': {'VERIF_C17_STORM': 60, 'VERIF_C17_BCAST': 50, 'VERIF_C17_CTX': 30}}]}
