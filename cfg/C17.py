# run specification for C17 (loaded by checks_config.py)
CHECK = {'level': 'exploration',
 'rule': 'rapid-generated workloads on 2-3 started p2p.Connections (loopback aliases): 1-200 RequestFrom calls from 1-32 goroutines, response timeout '
         'shortened to 20-100 ms by hook, per attempt a handler latency (fast / clustered +-5 ms around the timeout / beyond it), a directive executed at '
         'one of the three schedule points (hold the requester after send until the reply was handled; hold it after its timer fired until the reply '
         'found the entry; hold the reply before delivery until the timer fired; cancel the context before delivery; plain sleeps), duplicates before/'
         'after the real reply, error replies, context cancellation early / around the deadlines / anywhere, unsolicited responses. Non-trivial = at '
         'least 8 requests overlapped AND at least one reply was handled before its requester started to wait or for an attempt whose timer fired '
         '(both known from schedule-point events, not from clocks). Distinct by digest of the whole workload. One case in five is of the class "stalled peer": 1-2 black-hole peers (silent TCP listeners on loopback '
         'dialled as libp2p peers: opening the stream blocks until the context is cancelled after 2-6 timeouts or libp2p\'s 5 s local dial timeout) addressed by 1-5 '
         'of the calls, 30-120 calls to healthy peers whose handler answers within 2 ms, timeout 150-300 ms, 8-24 workers; non-trivial there = at least 8 requests '
         'overlapped AND healthy calls overlapped a stalled send of their own node AND were judged (no late process heartbeat during the call).',
 'level_text': 'Generated concurrent request/response workloads between real libp2p hosts with hook-ordered races; every call must return its own '
               'token or an error, hook-ordered replies must not be dropped, handler runs <= retries+1 per call, no pending entry after quiescence, no '
               'goroutine parked in onResponse (goroutine dump). Schedules are steered at three points, not enumerated; the Go scheduler is not owned.',
 'level_note': 'Blocked-forever is reported only with a goroutine dump showing onResponse parked in a channel send while nothing moved for 4 s; budget '
               'hits are recorded as inconclusive. No latency bound is asserted.',
 'technique': 'property-based testing (rapid) of concurrent histories with schedule-point steering and invariant/correlation oracles',
 'assumptions': ['dropped replies are observed through the "unknown request ID" warning of onResponse (custom logger); if its text changes only the '
                 'lost-reply signal is lost', 'duplicates carry the same payload as the real reply (the layer cannot tell a forged reply with a valid ID apart)',
                 'rate limiting is disabled through WithRPCMessageCounter (belongs to C18)',
                 'stalled-peer class: "reply not delivered in time" is measured in heartbeats of a goroutine of the test process (>= 20 beats between the handler\'s '
                 'answer and the requester\'s timer), skipped for calls during which a beat was late (> 50 ms), and counts only when the same scenario shows it 3 of 3 '
                 'times; otherwise inconclusive'],
 'quick': [{'pkg': 'c17', 'checks': 60, 'timeout': 1800, 'shrinktime': '6s', 'env': {'VERIF_C17_STORM': 40}}],
 'thorough': [{'pkg': 'c17', 'checks': 800, 'shards': 12, 'timeout': 2400, 'gomaxprocs': 4, 'shrinktime': '6s', 'env': {'VERIF_C17_STORM': 200}},
              {'pkg': 'c17', 'race': True, 'checks': 200, 'shards': 4, 'timeout': 2400, 'gomaxprocs': 4, 'shrinktime': '6s', 'env': {'VERIF_C17_STORM': 60}}]}
