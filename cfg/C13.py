# run specification for C13
CHECK = {
 'level': 'fault_enumeration',
 'rule': 'rapid-generated histories of 3-12 steps on a real node whose pebble database lives on a strict in-memory file system (unsynced data is '
         'lost on reset): apply blocks with varied content (transactions, assets, events, validator changes, aggregate commits, finality advance with '
         'pruning), delete the tip (with/without temp copy), tie-break replacement, restore of a block parked in the temp area (the failed-sync restore: add with removeTemp). For one drawn target step EVERY crash point k in 0..K is '
         'enumerated (K = number of create/write/sync/rename/remove/dir-sync operations the step issues): nothing from operation k on is durable, then '
         'the database is reopened. Non-trivial = crash point strictly inside the step (0<k<K) on a step that is a delete/tie break or an apply whose '
         'block carried at least two kinds of records. Distinct by (history, step, k)'
         ' Block caches of 2 or 3 blocks (next to the default 515) with removals in a row, so that the removal which drains the cache and refills it from the database is a target step (label target-removal-drains-the-block-cache); KeepEventsForHeights 0 among the configurations.'
         ' Blocks with 65-140 small transactions (size in number of records, not bytes) among the large-block class (label target-step-more-than-64-transactions).',
 'level_text': 'For every crash point the reopened database must equal, record for record, the crash-free state before or after the step (tie break: '
               'also the state between its remove and add); the node must restart on it, with tip = highest height index, every height above finality '
               'having block and revert diff, no diff above the tip, consensus store at the tip, and must accept the next valid block.',
 'level_note': 'Crash model: loss of all unsynced data at file-system-operation granularity (pebble vfs strict MemFS); no torn sectors, no '
               'reordering of synced writes; application database recovery is C16.',
 'technique': 'fault injection with exhaustive crash-point enumeration per step over property-based generated histories (rapid)',
 'assumptions': ['pebble honours the vfs contract', 'fake application rebuilt to the engine tip after restart'],
 'exhaustive': False,
 'quick': [{'pkg': 'c13', 'checks': 150, 'timeout': 900}],
 'thorough': [{'pkg': 'c13', 'checks': 300, 'shards': 16, 'timeout': 2400}],
}
