#!/bin/bash
(cd /verif && python3 -c 'import checks_config') || { echo 'cfg does not parse'; exit 1; }
# validates MANIFEST.json and all evidence files against the schemas
python3-vt - <<'PY'
import json,jsonschema,glob
jsonschema.validate(json.load(open('/verif/MANIFEST.json')),json.load(open('/root/.vp/MANIFEST.schema.json')))
s=json.load(open('/root/.vp/EVIDENCE.schema.json'))
for f in sorted(glob.glob('/verif/evidence/*.json')):
    jsonschema.validate(json.load(open(f)),s)
    print('ok',f)
print('manifest ok')
PY
