#!/usr/bin/env python3
"""usage: seed_prompt.py <ID> <round-tag e.g. seed8>  — prints the prompt for a *seed* sub-agent (property text only + one-line
summaries of earlier seeded ideas for that property, so that it looks elsewhere). Nothing from /verif's checks is revealed."""
import json, sys, glob, os
pid, tag = sys.argv[1], sys.argv[2]
prop = None
for l in open('/verif/properties.jsonl'):
    p = json.loads(l)
    if p['id'] == pid:
        prop = p
ideas = []
for m in sorted(glob.glob('/verif/seeded/%s-*/meta.json' % pid)):
    try:
        j = json.load(open(m))
        s = j.get('summary', '')
        ideas.append('- ' + ' '.join(s.split())[:260])
    except Exception:
        pass
extra = os.environ.get('SEED_EXTRA_IDEAS', '')
wt = '/tmp/%s-%s-wt' % (tag, pid)
out = '/tmp/%s-%s-out' % (tag, pid)
print(f"""You are helping to evaluate a verification effort for the Go project LiskHQ/lisk-engine (consensus engine of the Lisk v4
blockchain). Your job: write TWO independent, realistic code changes ("seeded defects") that each BREAK the property stated below
while the project still compiles and its existing test suite still passes — the kind of subtle regression a maintainer could
plausibly introduce (refactoring slip, wrong boundary, cache, lock scope, argument order, two sites that each look fine alone).

## Setup (do this first)
    git -C /repo worktree add --detach {wt} HEAD
Work ONLY inside {wt} (never edit /repo itself, never look into /verif — it is off limits for this task). Every shell call needs
    export GOFLAGS=-mod=mod GOPROXY=off GOSUMDB=off GOTOOLCHAIN=local
There is no network. `go build ./...` and `go test -vet=off -count=1 ./pkg/<pkg>/...` work inside the worktree (first build ~1 min).
Four tests fail on the unchanged tree because their fixture files are empty in this snapshot (rmt TestGenerateProof, TestVerifyProof;
smt TestGenerateProofJumboFixture, TestRemoveTreeFixture) — they do not count.

## The property (id {prop['id']}): {prop['title']}
Statement: {prop['statement']}
Quantified over: {prop['quantifier']['text']}
Why the existing tests cannot settle it: {prop['why_tests_cant']}
Code anchors: {json.dumps(prop['anchors'])}

## What a good change looks like
* It breaks the property AS STATED (not a neighbouring nicety), in production code under pkg/ (not in tests, not in test helpers).
* It compiles, and the existing tests of every package it touches (and of pkg/consensus/..., pkg/blockchain, pkg/db/..., pkg/txpool,
  pkg/generator, pkg/statemachine, pkg/p2p if touched) still pass.
* It needs something SPECIFIC to manifest: a particular interleaving, a crash/fault at a particular point, a multi-step sequence of
  operations, an unusual input or boundary value, a particular configuration, or two cooperating sites that each look fine alone.
  NOT something ordinary use exposes at once (if every block / every request / every call fails, it is too shallow).
* Small: typically 1–15 changed lines. No new dependencies. No build tags. Keep behaviour identical on ordinary paths.
* The two changes must be independent of each other (different mechanism, preferably different functions) and DIFFERENT from these
  ideas, which were already used in earlier rounds for this property (find something else — other functions, other boundaries, other mechanisms):
{chr(10).join(ideas) if ideas else '- (none yet)'}
{extra}

## Deliverables — for EACH change a directory: first change {out}/ , second change {out}/second/
* `patch.diff` — `git diff` of the production-code change only (against HEAD of the worktree; apply-able with `git apply`).
* `seeded_demo_test.go` — a Go test file (test function names start with `TestSeededDemo`) placed in the package directory where it must
  be compiled (say which in demo.md as a path like `pkg/xxx/seeded_demo_test.go`), that PASSES on the unchanged tree and FAILS with your
  change. It may use unexported identifiers of that package. It must be deterministic or fail in ≥ 9 of 10 runs with the change and
  never fail without it. Keep it under ~60 s.
* `demo.md` — the path where the demo file goes, the exact `go test` command, and 5–15 lines explaining why the property is broken
  and what is needed for the breakage to manifest.
* `meta.json` — {{"property": "{prop['id']}", "summary": "<one or two sentences: what was changed>", "needs_to_manifest": "<what specific
  circumstances are needed>", "files_changed": [...], "tests_run": ["<command>: <result>", ...]}}
Before finishing, for each change: (1) on a clean worktree the demo passes; (2) with the patch applied the demo fails; (3) with the patch
applied and the demo file removed, `go build ./...` and the touched packages' existing tests pass (ignoring the four known failures).
Reset the worktree between the two changes (`git checkout -- . && git clean -fd` inside {wt}). NEVER use `git stash` (the stash is shared by all
worktrees of /repo and other agents work in parallel): toggle a change with `git diff > patch.diff` and `git apply -R patch.diff`.
When done, remove the worktree: `git -C /repo worktree remove --force {wt}`.
Final message: for each change one paragraph (what, why it breaks the property, what it needs), and the paths of the deliverables.
If you can only produce one solid change, deliver one; do not pad with a shallow one.""")
