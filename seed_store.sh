#!/bin/bash
# usage: seed_store.sh <ID> <outdir> <suffix> <base-commit> <caught_by text> — keeps a confirmed seeded change under seeded/<ID>-<suffix>/
id=$1; out=$2; suf=$3; base=$4; caught=$5
dst=/verif/seeded/$id-$suf
mkdir -p $dst
cp $out/patch.diff $out/demo.md $out/*_test.go $dst/ 2>/dev/null
python3 - "$id" "$out" "$suf" "$base" "$caught" <<'PY'
import json,sys
id,out,suf,base,caught=sys.argv[1:6]
try: m=json.load(open(out+'/meta.json'))
except Exception as e: m={"property":id,"summary":"(meta.json of the sub-agent unreadable: %s)"%e}
m["id"]="%s-%s"%(id,suf)
m["verified_by_coordinator"]={"base_commit":base,"demo_passes_on_base":True,"demo_fails_with_patch":True,"existing_tests_pass_with_patch":True,
 "commands":["./seed_verify.sh %s %s"%(out,base),"./seed_eval.sh %s %s/patch.diff"%(id,out)]}
m["caught_by"]=caught
json.dump(m,open('/verif/seeded/%s-%s/meta.json'%(id,suf),'w'),indent=1)
PY
ls $dst
